#!/bin/bash
# tools/runall.sh [tier] [seed...] : every check, six at a time; one summary line per run plus
# any VIOLATION / infrastructure lines
tier=${1:-quick}; shift
seeds=${@:-0}
cd "$(dirname "$0")/.."
one() {
  p=$1; s=$2; tier=$3; log=$(mktemp /tmp/runall.XXXXXX)
  VERIF_SEED=$s ./check $p $tier > $log 2>&1; rc=$?
  echo "rc=$rc $(grep -E "^$p $tier" $log | tail -1)"
  grep -E 'VIOLATION|what:|INFRASTRUCTURE|TIMEOUT|broken' $log | cut -c1-220
  rm -f $log
}
export -f one
for s in $seeds; do for p in C01 C02 C03 C04 C05 C06 C07 C08 C09 C10 C11 C12 C13 C14 C15 C16 C17 C18; do echo "$p $s $tier"; done; done \
  | xargs -P 6 -L 1 bash -c 'one $0 $1 $2'
