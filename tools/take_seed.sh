#!/bin/bash
# usage: tools/take_seed.sh <seed dir root> <PROP> <slug>   e.g. tools/take_seed.sh /tmp/seed2 C09 my-slug
# confirms the change in its worktree (demo with/without, suite), stores it under seeded/, runs the check against it
set -u
root="$1"; p="$2"; slug="$3"; wt="$root/$p"
demo=$(cd "$wt" && ls demo_*.py | head -1)
/verif/tools/confirm_seed.sh "$wt" "$demo" > "$root/$p.confirm.json" 2>&1
cat "$root/$p.confirm.json"
d="/verif/seeded/$p-$slug"; mkdir -p "$d"
(cd "$wt" && git diff -- django_evolution > patch.diff)
cp "$wt/patch.diff" "$wt/notes.md" "$wt"/demo_*.py "$d/"; cp "$root/$p.confirm.json" "$d/confirm.json"
/verif/tools/try_seed_wt.sh "$wt" "$p" 2>&1 | grep -v KNOWN-FINDING | cut -c1-230
