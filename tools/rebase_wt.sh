#!/bin/bash
# usage: tools/rebase_wt.sh <scratch worktree> : move a finished sub-agent's worktree (change left applied, uncommitted)
# onto /repo's current head, so that later fix: commits are underneath it
wt="$1"; head=$(git -C /repo rev-parse HEAD)
cd "$wt" || exit 2
[ "$(git rev-parse HEAD)" = "$head" ] && exit 0
git stash -q || exit 2
git checkout -q --detach $head || exit 2
git stash pop -q || { echo "CONFLICT in $wt"; exit 2; }
