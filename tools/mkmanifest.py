"""Regenerates /verif/MANIFEST.json from the table below (kept in one place so that the
manifest stays valid and consistent with what is actually built)."""
import json
import os

VERIF = os.path.dirname(os.path.dirname(os.path.abspath(__file__)))
BASELINE = ("cd /repo && /venv/bin/python -m pytest -ra -q -p no:cacheprovider --timeout=900 "
            "--continue-on-collection-errors")

COMMON_NOTE = ("Trusted: Lean 4.33 kernel; axioms limited to propext/Classical.choice/Quot.sound (audited by "
               "#print axioms each run); tools/vlib/extract.py (translator); the correspondence harness and the "
               "compiled Lean driver; Python/Django 4.2/SQLite 3.40 semantics. ")

CHECKS = {
    'C09': dict(
        technique='Lean 4 proof (well-founded stack machine + rank induction) + differential correspondence',
        text=('Lean theorems over a faithful model of DependencyGraph.get_ordered (same iterative stack machine, '
              'well-founded for every graph): for every acyclic graph of any size the result is a permutation of the '
              'nodes in which every dependency precedes its dependant (C09_perm_respects); batching executes every '
              'pending unit exactly once (C09_once); proved counterexamples for cycles (F11) and per-task regrouping '
              '(F16); theorems for the repaired variant. The model is tied to the code by exhaustive differential '
              'correspondence over all digraphs on <=4 (quick) / <=4 with self-loops + 150k on 5 (thorough) nodes and '
              'random larger ones, and over unit sequences through the real iter_batches/_build_batches.'),
        design='§5 C09',
        note=COMMON_NOTE + 'Modelled, not verified: EvolutionGraph key construction from evolution modules, Django migration plans.'),
}

CHECKS['C11'] = dict(
    technique='Lean 4 proof (invariant preservation per mutation) + differential correspondence of simulate()',
    text=('Invariant RefsOK (every related_model names an existing model or an explicitly deleted one) proved to be '
          'preserved by ChangeField/DeleteField/RenameField/ChangeMeta, by RenameModel (all references rewritten, '
          'prefix names safe) and by DeleteModel (with the deletion exemption) for every signature with unique keys; '
          'lifted to sequences of every length over these kinds (C11_sequence_preserves: induction over the list, ids and '
          'the label in force are invariants); proved counterexamples for RenameAppLabel (F12) and the theorem for the repaired reference rewrite; an exact app '
          'id takes precedence over a legacy label when both match (C11_getApp_id_first, order read from the source). The '
          'simulate() model is tied to the real mutation classes by differential correspondence on relation-rich '
          'two-app signatures; dangling-reference oracle on real signatures and foreign-key oracle on the real SQLite '
          'database after renames.'),
    design='§5 C11',
    note=COMMON_NOTE + 'Database side (SQLite rewriting FK text on RENAME) is observed, not proved. AddField may introduce a reference to a missing model (outside the property).')
CHECKS['C12'] = dict(
    technique='Lean 4 proof over translated control skeletons (monitor analysis proved sound) + simulate preconditions + command-level oracle',
    text=('The control flow of Command.handle/_check_simulation is translated from source into a small IR on every run; '
          'a monitor analysis, proved sound once for all IR terms (reach_sound: any branch, any loop count, a fault in '
          'any call), is evaluated by the kernel on the generated terms: _perform_evolution is reachable only after '
          '_check_simulation returned normally, which happens only with an empty residual diff or can_simulate=False; '
          'a residual diff with a changed or deleted entry is never "empty" (C12_residual_change_never_empty over the '
          'body of Diff.is_empty read from the source; counterexample for the De Morgan slip), and the residual is taken '
          'from the simulated side (C12_source_diff_direction). '
          'Preconditions of simulate (existing field, missing app/model/field, primary-key delete, non-null without '
          'initial) proved for every signature. Oracle: perturbed evolutions through the real `evolve --execute '
          '--noinput`, zero writes and identical snapshot on rejection.'),
    design='§5 C12',
    note=COMMON_NOTE + 'Calls named in PURE_CALLS of the translator are assumed effect-free. The can_simulate=False bypass is part of the statement.')

CHECKS['C05'] = dict(
    technique='Lean 4 proof (diff/hint/simulate algebra) + differential correspondence',
    text=('Lean model of diff() at four levels, __eq__, Diff.evolution() and simulate(); proved for every signature '
          'with unique keys: empty difference with itself/its clone (C05_self); closure of attribute changes — for any '
          'two versions of a field with the same type and relation the hinted ChangeField leaves no difference in '
          'either direction (C05_closure_changeField, every attribute alone or in combination); closure of added '
          'fields (C05_closure_addField); the hinted ChangeMeta mutations resolve the Meta difference of any two model versions, '
          'every subset of the five tracked properties, on a backend that supports the ones that differ (C05_closure_meta; '
          'the hint ends with exactly these mutations: hintModel_ends_with_metas); proved counterexamples for re-targeted relations (F5) and == vs diff() (F6). '
          '_ATTRIBUTE_DEFAULTS and the lookup order of get_attr_default (C05_source_default_order) are extracted from source; diff dictionaries, hinted mutations and the residual diff '
          'after simulation are compared with the real code on generated signature pairs.'),
    design='§5 C05',
    note=COMMON_NOTE + 'The initial value carried by a hint is opaque (placeholder); field.get_internal_type()/db_type tables are hand-written for the property field space and validated by correspondence.')

CHECKS['C03'] = dict(
    technique='Lean 4 proof (commutation + stable-regrouping soundness, rule lemmas, counterexamples) + exhaustive small-scope differential correspondence of the optimiser',
    text=('Line-by-line Lean transliteration of AppMutator._preprocess_mutations (both loops, in-place rewrites returned '
          'explicitly, KeyErrors as results). Proved for every batch of model-local mutations accepted one at a time: '
          'mutations on different models commute and the stable regrouping by model name ends in the same signature '
          '(C03_regroup_sound, C03_commute); add-then-delete elimination is semantics-preserving (C03_rule_add_delete); '
          'the final filter drops exactly the mutations the optimiser marked, whatever the others look like '
          '(C03_filter_by_identity; that mutations hash by identity is read from the source: C03_source_hash_identity); '
          'kernel-checked counterexamples for the rewriting of definitions and the differing second pass (F4), '
          'self-rename KeyError and name reuse (F20), initial overwrite (F21), regroup across RenameModel (F24). The '
          'transliteration is validated against the real optimiser on every applicable sequence up to length 3 (quick) '
          '/ 4 (thorough) of a 52-mutation alphabet and on random sequences up to length 12 (output list, every '
          'original object after processing, second pass); outcome oracle on final signatures for all of them and on '
          'schema + rows of a real SQLite database (bare AppMutator and Evolver pipeline) for a sample.'),
    design='§5 C03',
    note=COMMON_NOTE + 'C03_full (all interleavings of all rewrite rules) is not proved: the proved part is regrouping + individual rules; the rest is covered by the bounded exhaustive correspondence, which is a test, not a proof.')

CHECKS['C02'] = dict(
    technique='Lean 4 proof (positional parameter binding of the rebuild copy, by induction over the SELECT list) + cell-level differential correspondence',
    text=('Lean model of the SQLite rebuild copy step (new_initial, field_values, field_initials built in the orders '
          'the code builds them; positional %s binding; SQL-text initials of callables embedded or coalesced). Proved '
          'for every column list, item list, row and column (C02_copy_correct): the value the copy writes equals a '
          'specification stated from the inputs alone - a surviving value is kept, a NULL is replaced by the initial '
          'declared for its column, a new column holds its initial - under three facts about the source that are read '
          'or probed on every run (parameters in placeholder order, embed-or-bind decided per initial value, embedded '
          'text coalesced on existing columns or not declared for one); C02_current_partial is its instance for the '
          'current source; the placeholder premise is proved (placeholders_declared), not assumed; row count preserved; '
          'kernel-checked counterexamples for the old parameter order (F3, repaired), for an embedded initial on an '
          'existing column (F57, known) and for a stale embed flag. The model predicts every cell of the rebuilt table '
          'from the real op list in one-table batches (incl. callable initials); multi-model oracle for values through '
          'field/model renames, row counts and initial values, with deterministic families.'),
    design='§5 C02',
    note=COMMON_NOTE + 'SQLite column-affinity coercion and RENAME COLUMN/TO semantics are observed, not proved; rows are read through a raw sqlite3 connection (no Django converters).')
CHECKS['C18'] = dict(
    technique='Lean 4 proof (grouping/merge counting) over extracted tables + rebuild-count correspondence',
    text=('mergeable_ops and the needs_rebuild item table are extracted from source on every run. Proved for every '
          'mergeable table and op list: merged lowering never rebuilds more often than lowering each op by itself '
          '(C18_monotone, via a permutation argument), a run of mergeable ops is one group (C18_single), and with a '
          'table that contains the four documented op types every run of add/delete/attribute-change/Meta ops is at '
          'most one rebuild (C18_documented). The hypothesis of C18_documented is evaluated on the extracted table '
          '(false at the pinned commit: missing comma, finding F15, kernel-checked counterexample). The model '
          'predicts the number of CREATE TABLE "TEMP_TABLE" statements from the real ModelMutator op lists; oracle: '
          'per table, batched <= one-at-a-time on a real database.'),
    design='§5 C18',
    note=COMMON_NOTE + 'The mapping from a queued op to its alter-table items is hand-written (validated by the count correspondence). C18_monotone is about the lowering of a fixed op list; that the optimiser never lengthens the op list is tested, not proved.')

CHECKS['C01'] = dict(
    technique='Lean 4 proof (rebuild = fresh on plain models, frame) + evolved-vs-fresh differential oracle with cause-classified findings',
    text=('Lean model of the table a model signature stands for when created from scratch (`fresh`: columns with '
          'type/nullability/primary key, per-field and table-level indexes, CHECKs) and of what the SQLite rebuild '
          're-creates (`rebuilt`). Proved: for every model without table-level Meta and CHECK-carrying fields the '
          'rebuilt table equals the fresh table (C01_partial_rebuild_plain); a model-local mutation leaves every '
          'other model and every other app untouched (frame); kernel-checked counterexamples for lost '
          'unique_together (F1) and lost CHECK (F22). Model of the index bookkeeping the SQL generation consults instead of the database '
          '(DatabaseState, Sql/DbState.lean): a registered index is found by its columns, a removed one is neither known by name '
          'nor found by its columns unless another index covers them, every index sits in the dictionary of its kind '
          '(C01_state_find_after_add, C01_state_removed_index_is_gone, C01_state_remove_then_find, C01_state_wf_step); '
          'correspondence database_state on random call sequences against the real class. Both models are validated against real tables (really created '
          'models; tables the real backend has just rebuilt). The property oracle compares the introspected schema '
          'after executing the generated SQL (one at a time and batched, hand-written and hinted evolutions, '
          'DatabaseState scanned from the database) with the schema of freshly created evolved models, and checks '
          'that tables of unrelated models are untouched; every difference is attributed to a listed finding by '
          'cause or reported.'),
    design='§5 C01',
    note=COMMON_NOTE + 'C01_step for every mutation is NOT proved: the lowering of mutations to statements and SQLite execution are observed, not modelled; index/CHECK differences on rebuilt tables are masked by findings F1/F18/F22 (see DESIGN.md), column/foreign-key/table-set/frame differences are not.')

CHECKS['C06'] = dict(
    technique='Lean 4 proof (mutual structural induction over the value grammar) + differential correspondence of the storage trip',
    text=('Lean model of serialize_to_signature, the json.dumps / json.loads(object_pairs_hook=OrderedDict) storage trip '
          'and deserialize_from_signature with the dispatch variant as a parameter. Proved for every well-formed value '
          '(nested/negated/OR/XOR Q, F, Value, combined expressions, enums, tuples, lists, dicts, any depth): with the '
          'repaired dispatch the reloaded value is the normal form of the original (C06_roundtrip; in particular a Q keeps '
          'any non-default connector: C06_q_connector_kept, with the tests under which _connector/_negated are written '
          'read from the source: C06_source_q_kwargs); plain data '
          'round-trips under either dispatch (C06_partial_plain); the reloaded value re-serialises to the same stored '
          'text under either dispatch (C06_reserialize, C06_reserialize_strict); kernel-checked counterexamples for the '
          'strict dispatch (F7, repaired by a fix: commit) and for tuples (F8). The dispatch variant is read from the '
          'source (AST) and probed on every run; stored text, reloaded value and re-serialised text are compared with '
          'the real code on generated values; signatures with constraints/indexes go through Version.save()/reload on '
          'SQLite; v2 -> v1 -> v2 for the v1-expressible subset, also as a legacy pickled row. The attribute dictionary '
          'of a field: FieldSignature.deserialize is modelled (which keys come back, through aliases) and proved to '
          'return every tracked attribute with the value it was stored with - None, False, 0 and \'\' included - '
          'whenever the loader goes by key presence (C06_field_attrs_roundtrip), which the translator reads from the '
          'source (C06_source_attr_load); correspondence field_attr_load on generated stored dictionaries.'),
    design='§5 C06',
    note=COMMON_NOTE + 'Model covers attribute values; the enclosing signature structure (apps/models/fields dictionaries) is exercised by the signature-level oracle, not modelled. json.dumps/loads are trusted.')

CHECKS['C07'] = dict(
    technique='Lean 4 proof (transaction model for every batch and crash point; monitor theorems over translated skeletons) + fault enumeration at every statement index',
    text=('Transaction model of one SQLExecutor batch: proved for every statement list, database and crash index k that '
          'under the rollback variant a failure leaves the database exactly as it was with the failing index in the '
          'error (C07_atomic) and that a fault-free retry equals the uninterrupted run (C07_retry); the commit variant '
          'is proved to persist the executed prefix (C07_commit_on_failure, finding F9 — repaired by a fix: commit). '
          'Which variant is in force is read off the generated skeleton of SQLExecutor.finish_transaction on every run. '
          'Over the generated skeleton of Evolver.evolve: the version/evolution records are written only if no task '
          'execution failed, and a failing task makes the run raise — for every number of tasks and a fault in any call. '
          'Model of _prepare_sql/_prepare_transaction_batches (Run/Batches.lean): for every list of statement groups the '
          'batches keep every statement in order (C07_batches_keep_statements), every batch is executed with the '
          'transaction flag of its own statements (C07_batch_flag_is_its_statements_flag), a NewTransactionSQL group starts '
          'a batch, an evolution of ordinary statements is one transactional batch and hence atomic at every crash point '
          '(C07_ordinary_evolution_is_atomic), also when a non-transactional statement follows '
          '(C07_statements_before_no_transaction_group), a NewTransactionSQL group is one batch of its own (C07_new_transaction_group_is_one_batch; the flag assignments of _prepare_sql are read from the source: C07_source_prepare_sql_flags); which flag the source yields is read by the translator '
          '(C07_source_batch_flag; counterexample C07_cex_next_batch_flag); correspondence `transaction_batches` on generated groups. '
          'On the real code a database error is injected at EVERY write-statement index of every generated run '
          '(rebuilds, index creation, model creation, deferred SQL, bookkeeping): snapshots, error payload, retry.'),
    design='§5 C07',
    note=COMMON_NOTE + 'SQLite transactional DDL is assumed (and observed). Separate transactions inside one run (model creation / each task / deferred SQL / bookkeeping) are findings F38/F39.')
CHECKS['C08'] = dict(
    technique='Lean 4 proof (invariant by induction over run histories) + differential correspondence of bookkeeping rows',
    text=('Bookkeeping model of a series of runs and commands (EvolveAppTask.prepare choice of evolutions, '
          '_save_project_sig, mark-evolution-applied, wipe-evolution). Proved for every state and every step: no '
          '(app, label) is ever recorded twice and apps without a stored signature have no records (C08_once_step, '
          'the invariant lifts to every history by induction), every executed label was unrecorded when the run was '
          'prepared, fresh apps execute nothing, recorded labels are never executed again, a failed run records '
          'nothing, records carry the version of their run; kernel-checked counterexample for mark-evolution-applied '
          'on a never-evolved app (F40, predicted by the model and confirmed on the real code); that Evolver.evolve keeps '
          'the new evolutions of every task is read from the source (C08_source_collects_all); on every path through the '
          'generated skeleton of execute_tasks a task is executed only when the current batch holds SQL for it, so the '
          'SQL of another batch is not run a second time (C08_task_runs_only_batch_sql). Recorded rows and '
          'executed labels after every step of generated histories are compared with the model.'),
    design='§5 C08',
    note=COMMON_NOTE + 'The model records what a task plans to apply; whether SQL is emitted for a re-recorded label depends on the signature diff (subset relation checked).')
CHECKS['C17'] = dict(
    technique='Lean 4 proof over translated control skeletons (finite monitors, analysis proved sound) + signal/statement trace check with fault at every index',
    text=('Finite monitors evaluated by the kernel on the skeletons regenerated from Evolver.evolve, '
          'EvolveAppTask.execute and _create_models, lifted to all executions (any task count, a fault in any call) by '
          'reach_sound: evolving at most once and before any work; exactly one evolved after _save_project_sig on a '
          'normal return; exactly one evolving_failed and no evolved on failure; applying/applied and creating/created '
          'bracket the SQL and are never doubled; leaving the executor\'s block raises when its last transaction cannot be finished (C17_executor_exit_propagates over the skeleton of SQLExecutor.__exit__); C17_source_saved_all ties the saved set to the source. On the real code receivers on every public signal are interleaved '
          'with the statement trace for fresh installs, upgrades, nothing-to-do runs and a failure at every write index; '
          'payload equality of the pairs, no applied/created after the failing statement, lock value restored.'),
    design='§5 C17',
    note=COMMON_NOTE + 'Signal delivery (Django dispatch) is trusted; deferred index SQL of new models runs after created_models by design and is exempt.')

CHECKS['C04'] = dict(
    technique='Lean 4 proof (bookkeeping convergence over the run-history model) + path-convergence oracle on generated histories',
    text=('Over the C08 run-history model, proved for every state and app: after a complete run every label of the '
          'sequence is recorded whether the app was installed fresh or upgraded from any earlier state '
          '(C04_all_recorded, C04_paths_converge), and a second run plans, executes and records nothing '
          '(C04_second_run_noop); the project signature reached is the same whether the pending evolutions are '
          'simulated one release per run or all in one run, for every signature, every list of evolutions and every '
          'mutation kind (C04_signature_stepwise_eq_direct; a RenameAppLabel must rename to the configured label, with a '
          'kernel-checked counterexample otherwise), tied to the real mutation classes on every generated history. '
          'That schema and data converge is the business of C01/C02/C03; it is '
          'observed here on generated histories V0..Vn: every start point, stepwise vs direct vs fresh, through '
          'Evolver.evolve, `evolve --execute` and the replaced `migrate`; final schema, preserved rows, recorded '
          'labels, stored-vs-computed signature, and a second run that must require nothing and write nothing.'),
    design='§5 C04',
    note=COMMON_NOTE + 'Convergence of schema/rows is proved only through the fragments of C01/C02/C03; here it is tested. Evolution modules are installed as real modules under <app>.evolutions.<label> in-process (not re-imported from disk per step).')
CHECKS['C15'] = dict(
    technique='Lean 4 proof (exactness + frame of DeleteModel/DeleteApplication on the signature) + before/after oracle on generated projects',
    text=('Proved for every signature: DeleteModel removes exactly the named model entry and DeleteApplication exactly '
          'the app\'s model entries (C15_deleteModel_exact, C15_deleteApplication_exact), every other model and every '
          'other app is the same value afterwards (frame), without a database nothing changes; the purge\'s clean-up '
          'of the stored signature removes at most the purged app\'s own entry and keeps every other entry, empty '
          'ones included (C15_purge_frame, C15_purge_no_new_entries; the clean-up mode is read from the source, '
          'C15_source_purge_cleanup); after a purge no entry of the purged app is left, whatever it recorded, when '
          'emptiness looks at the models only (C15_purge_removes_own_entry; AppSignature.is_empty read from the source, '
          'C15_source_is_empty; counterexample for a test that also wants the recorded migrations gone); an app whose label was changed is not reported as deleted when the lookup goes '
          'through legacy labels (C15_relabelled_app_not_deleted, C15_source_deleted_lookup); owned-table list incl. '
          'auto-created many-to-many tables, prefix table names are different tables. On the real code: generated '
          'projects of two installed apps plus a stale app (tables + signature entries, not installed) with cross-app '
          'relations, M2M and prefix table names; `evolve --execute` with and without --purge, DeleteModel and '
          'DeleteApplication through evolutions; table set, per-table schema and rows and signature entries of '
          'everything else must be identical. Finding F43 (purge through the command never worked) repaired by a fix: commit.'),
    design='§5 C15',
    note=COMMON_NOTE + 'The stale app is emulated by creating its tables from an isolated model registry and injecting its signature into the stored Version (there is no way to uninstall an app inside one process).')
CHECKS['C16'] = dict(
    technique='Lean 4 proof (decision logic of router filter and changed-models filter) + two-database oracle over every split',
    text=('Decision logic stated outright and proved: the signature of a database contains exactly the models the '
          'router allows there (C16_sig), a model routed elsewhere is in neither signature, and a mutation on a model '
          'outside both signatures is dropped by the changed-models filter, i.e. neither simulated nor lowered '
          '(C16_skip); what is loaded for a list of pending labels on a database is the concatenation of what each label '
          'ships for that database - SQL file there, else Python module (C16_labels_load_independently, flag handling '
          'read from the source: C16_source_found_reset; counterexample for a flag that sticks); the SQL of new models is '
          'generated on the connection of the database being evolved (C16_source_create_models_pass_database). On the real code: every split of 2-3 generated models over two SQLite files by a router, '
          'creation and a generated evolution with mutations on both sides, each database evolved in turn: tables, '
          'stored signatures, and a byte-for-byte unchanged snapshot of the database that is not being evolved; a '
          'failing evolution on the non-default database must roll back there (finding F10, repaired by a fix: commit).'),
    design='§5 C16',
    note=COMMON_NOTE + 'is_mutable() is modelled as "always true once a database name is given" (as coded); the router is consulted by Django, which is trusted.')

CHECKS['C10'] = dict(
    technique='Lean 4 proof (set algebra of the migration hand-over for every chain, prefix and prior state) + exhaustive small-parameter oracle',
    text=('Model of which migrations of a linear chain a hand-over run records without executing (mark_applied minus '
          'already applied) and which it executes (the rest, in chain order). Proved for every chain length, prefix and '
          'prior recorder state: every migration is accounted for exactly once (C10_partition), marked and already '
          'recorded migrations are never executed, nothing is recorded twice, execution follows chain order, afterwards '
          'the whole chain is recorded and a further run marks and executes nothing (C10_second_run_noop); the stored '
          'signature lists exactly the recorded migrations of its own app when the setter matches on the app label '
          '(C10_signature_lists_exactly, key read from the source: C10_source_applied_migrations_key); a model that enters '
          'the app in the hand-over release gets its table because the decision goes by the method before the run '
          '(C10_handover_new_model_gets_table, C10_source_new_models_by_orig_method). On the real '
          'code: apps with k evolutions then MoveToDjangoMigrations(mark_applied=prefix S) and an in-memory chain of m '
          'migrations, every S, start states fresh / each earlier evolution / already migrated, alone and next to an '
          'evolution-only app (all 54 parameter combinations in the thorough tier): signal order, recorder rows, stored '
          'applied_migrations and upgrade method, final columns, and a second run that must be a no-op. Findings F44 '
          '(initial migration recorded twice on a fresh database) and F45 (mark_applied covering the whole chain '
          'crashes) were found this way.'),
    design='§5 C10',
    note=COMMON_NOTE + 'Django\'s MigrationLoader/executor and migration_plan for chains are assumed primitives (observed). Evolutions are discovered as modules; migrations are handed to EvolveAppTask(migrations=...) because they exist in memory only.')

CHECKS['C14'] = dict(
    technique='Lean 4 proof (permutation invariance of the emitted statement list unless the code iterates over a bare set; iteration mode regenerated from the source) + multi-process differential oracle over PYTHONHASHSEED',
    text=('Model of the statements emitted per entry of a set with the iteration order of that set as an explicit '
          'permutation argument: proved for every pair of permutations that the output is identical when the code '
          'sorts or walks the declared list (C14_perm_invariant), with a counterexample for iteration over the set itself '
          '(finding F14, repaired in /repo); the iteration mode of change_meta_unique_together / '
          'change_meta_index_together is extracted from the source on every run and C14_source_iteration_deterministic '
          'is re-checked against it, likewise the walk over DeleteModel\'s join tables (C14_source_delete_model_ordered); consecutive graph nodes of one type are folded into one executed batch that lists every task\'s evolutions in node order (C14_merged_batch_keeps_node_order, Run/Merge.lean; merge_dicts\' list rule and the folding call are read from the source: C14_source_merge_dest_first, C14_source_batch_merge_call; correspondence batch_merge on generated batch infos); preview and execution load the same evolution files on every database when both call sites hand on the alias (C14_preview_loads_what_execution_loads, C14_source_loads_pass_database). C14_equal_if_defs_unchanged / C14_cex_preview_differs: a second optimiser pass over '
          'definitions the first pass left alone gives the same list, and not otherwise. On the real code every case '
          '(generated upgrades with rows plus the family "unique_together/index_together from one set of 0-4 pairs to '
          'another") runs in 4 (quick) / 16 (thorough) fresh processes with different PYTHONHASHSEED; each runs '
          '`evolve --sql`, `--hint`, `--execute`, `--hint --sql`, `--hint --execute`: previewed statements == executed '
          'statements (rendered with the backend\'s own quoting; a prefix when the database rejects a statement), the '
          'preview leaves the database untouched, and all five outputs are identical across processes.'),
    design='§5 C14',
    note=COMMON_NOTE + 'Model-creation SQL is not part of the preview by design of the command and is not compared. SQLite only. The hash seed is the only source of nondeterminism explored (no locale/time).')

CHECKS['C13'] = dict(
    technique='Lean 4 model of serialize_to_python, of Python\'s reading of the text (precedence parser) and of Django\'s Q/expression operators, theorems and counterexamples over it; translator for the separator table; three-way correspondence (render error, parse tree vs ast.parse, evaluation vs eval) + exec() oracle on real module text',
    text=('DEvo/Ser/Py.lean: toPy mirrors serialize_to_python for every value kind (literals, containers, enums, '
          'deconstructed objects, combined expressions, Q trees) including the parentheses it writes and the errors it '
          'raises; reparse is a shunting-yard reading of the text with Python\'s operator precedences; evalPy models '
          'Q.__and__/__or__/__xor__/__invert__ (Node.add squashing), Combinable operators and name resolution through '
          '`models.`. QSerialization.child_separators is extracted from the source on every run. Theorems: see '
          'DEvo/Props/C13.lean (round trip for the operator-built Q fragment and containers; counterexamples for XOR, '
          'single Q child, lost connector, precedence, %% and database functions; the placeholder does not load). '
          'Correspondence on every generated value: error kind of the real serialize_to_python, ast.parse of the real '
          'text against reparse(toPy v), eval of the real text against evalPy. Oracle: eval(serialize_to_python(v)) == v; '
          'the module text of EvolveAppTask.get_evolution_content() for hinted evolutions of the C05 pair space and for '
          'constructed mutations is exec()-uted and the loaded mutations compared with the originals (hint text, simulated '
          'signature, generated SQL for a sample); hints that need a user value must fail to load. Found F48-F51 (F51, the '
          'missing `models` import, repaired in /repo).'),
    design='§5 C13',
    note=COMMON_NOTE + 'Python\'s parser and Django\'s Q/Combinable operators are modelled primitives, validated by the parse-tree and evaluation correspondences on every run; string literal escaping is delegated to Python\'s repr (trusted).')

NOT_YET = {}


def main():
    props = [json.loads(l)['id'] for l in open(os.path.join(VERIF, 'properties.jsonl'))]
    checks = []
    na = []
    for pid in props:
        c = CHECKS.get(pid)
        if c is None:
            na.append({'property_id': pid, 'reason': NOT_YET.get(pid, 'check not built yet in this session (work in progress; see DESIGN.md §13 build order)')})
            continue
        checks.append({
            'property_id': pid,
            'quick_cmd': './check %s quick' % pid,
            'thorough_cmd': './check %s thorough' % pid,
            'evidence_file': 'evidence/%s.json' % pid,
            'replay_cmd_template': './check %s --replay {path}' % pid,
            'engine': 'devo-lean',
            'level_claimed': {'category': 'proof', 'text': c['text'], 'design_ref': c['design']},
            'level_note': c['note'],
            'technique': c['technique'],
        })
    man = {
        'version': 1,
        'setup_cmd': 'cd lean/DEvo && lake build DEvo devo-driver',
        'hooks': {
            'guard': 'DJANGO_EVOLUTION_VERIF',
            'enable': 'no hooks are needed: the checks observe the real code through Django\'s connection.execute_wrapper, the package\'s public signals and public constructor arguments',
            'baseline_off_cmd': BASELINE,
            'source_commits': [],
            'add_only': True,
        },
        'engines': [{
            'name': 'devo-lean',
            'path': 'lean/DEvo',
            'serves_properties': sorted(CHECKS),
            'kind_free_text': 'Lean 4 library (model + theorems), translator tools/vlib/extract.py regenerating DEvo/Generated from /repo, compiled line-protocol driver, Python differential correspondence harness (tools/vlib)',
        }],
        'checks': checks,
        'not_applicable': na,
        'notes': 'Every check: regenerate Generated/*.lean from /repo -> lake build -> #print axioms audit -> differential correspondence -> witnesses/probes on the real code -> verdict. Known findings: known_findings.json.',
    }
    with open(os.path.join(VERIF, 'MANIFEST.json'), 'w') as f:
        json.dump(man, f, indent=1)
        f.write('\n')


if __name__ == '__main__':
    main()
