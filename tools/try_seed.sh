#!/bin/bash
# usage: tools/try_seed.sh <patch.diff> <PROP> [<PROP>...]
# applies a seeded change to /repo, runs the quick checks, reverts /repo, and puts back the
# evidence files and generated Lean sources (they must only ever describe the unchanged tree)
set -u
patch="$1"; shift
cd /repo || exit 2
if ! git diff --quiet; then echo "repo not clean"; exit 2; fi
git apply "$patch" || { echo "patch does not apply"; exit 2; }
save=$(mktemp -d /tmp/tryseed.XXXX)
cp -r /verif/evidence "$save/evidence"; cp -r /verif/lean/DEvo/DEvo/Generated "$save/Generated"
for p in "$@"; do
  echo "=== $p with $(basename $(dirname $patch))"
  (cd /verif && timeout 900 ./check $p ${TIER:-quick} 2>&1 | grep -E "VIOLATION|KNOWN-FINDING|what:|broken|seed=|INFRA|TIMEOUT" | cut -c1-260 | head -14)
done
git checkout -- . && git status --short | head -3
cp "$save"/evidence/* /verif/evidence/; cp "$save"/Generated/* /verif/lean/DEvo/DEvo/Generated/; rm -rf "$save"
