#!/bin/bash
# usage: tools/try_seed.sh <patch.diff> <PROP> [<PROP>...]   — applies a seeded change to /repo, runs the checks, reverts
set -u
patch="$1"; shift
cd /repo || exit 2
if ! git diff --quiet; then echo "repo not clean"; exit 2; fi
git apply "$patch" || { echo "patch does not apply"; exit 2; }
for p in "$@"; do
  echo "=== $p with $(basename $(dirname $patch))"
  (cd /verif && timeout 900 ./check $p quick 2>&1 | grep -E "VIOLATION|KNOWN-FINDING|what:|broken|seed=|INFRA|TIMEOUT" | cut -c1-260 | head -14)
done
git checkout -- . && git status --short | head -3
