#!/bin/bash
# usage: tools/store_seed.sh <seed dir root> <PROP> <slug> : store an already confirmed change under seeded/
set -u
root="$1"; p="$2"; slug="$3"; wt="$root/$p"
d="/verif/seeded/$p-$slug"; mkdir -p "$d"
(cd "$wt" && git diff -- django_evolution > "$d/patch.diff")
cp "$wt"/demo_*.py "$d/"; [ -f "$wt/notes.md" ] && cp "$wt/notes.md" "$d/"; cp "$root/$p.confirm.json" "$d/confirm.json"
ls "$d"
