#!/bin/bash
# usage: tools/take_patch.sh <dir holding patch.diff and demo_*.py> <PROP> [check|confirm|both]
# rebuilds the change on a fresh scratch worktree of /repo's CURRENT head (so that later fix: commits are in it),
# confirms it there (demo with/without, suite) and/or runs the property's quick check against it; /repo untouched
set -u
src="$1"; p="$2"; what="${3:-both}"
wt=$(mktemp -d /tmp/takepatch.XXXX); rmdir $wt
git -C /repo worktree add --detach $wt HEAD >/dev/null 2>&1 || { echo "cannot create worktree"; exit 2; }
( cd $wt && git apply "$src/patch.diff" ) || { echo "NOAPPLY $src"; git -C /repo worktree remove --force $wt; exit 2; }
cp "$src"/demo_*.py $wt/ 2>/dev/null
if [ "$what" != check ]; then
  demo=$(cd $wt && ls demo_*.py | head -1)
  /verif/tools/confirm_seed.sh $wt $demo > "$src/../$(basename $src).confirm.json" 2>&1
  echo "$(basename $src) $(tail -1 "$src/../$(basename $src).confirm.json")"
fi
if [ "$what" != confirm ]; then
  /verif/tools/try_seed_wt.sh $wt $p 2>&1 | grep -v KNOWN-FINDING | grep -E "===|VIOLATION|what:|seed=|INFRA|broken" | cut -c1-220 | awk '/VIOLATION/{v++; if(v>2) next} /===/{v=0} {print}'
fi
git -C /repo worktree remove --force $wt
