#!/bin/bash
# usage: tools/try_seed_wt.sh <worktree with the seeded change applied> <PROP> [<PROP>...]
# runs the quick checks against that worktree (VERIF_REPO) without touching /repo, and puts back
# the evidence files and generated Lean sources afterwards (they only ever describe /repo itself)
set -u
wt="$1"; shift
[ -d "$wt/django_evolution" ] || { echo "no django_evolution in $wt"; exit 2; }
save=$(mktemp -d /tmp/tryseed.XXXX)
cp -r /verif/evidence "$save/evidence"; cp -r /verif/lean/DEvo/DEvo/Generated "$save/Generated"
for p in "$@"; do
  echo "=== $p against $wt"
  (cd /verif && VERIF_REPO="$wt" timeout 900 ./check $p ${TIER:-quick} 2>&1 | grep -E "VIOLATION|KNOWN-FINDING|what:|broken|seed=|INFRA|TIMEOUT" | cut -c1-260 | head -14)
done
cp "$save"/evidence/* /verif/evidence/; cp "$save"/Generated/* /verif/lean/DEvo/DEvo/Generated/; rm -rf "$save"
