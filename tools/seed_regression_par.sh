#!/bin/bash
# usage: [VERIF_SEED=n] tools/seed_regression_par.sh [jobs] [dir-glob]
# every stored seeded change against its property's quick check, in parallel, without touching /repo or
# this checkout: each worker gets its own copy of /verif and its own scratch worktree of /repo
J=${1:-4}; glob=${2:-*}
work=$(mktemp -d /tmp/seedreg.XXXX)
cd /verif
ls -d seeded/$glob/ | xargs -n1 basename > $work/all.txt
for w in $(seq 1 $J); do
  rsync -a --exclude replays --exclude .git /verif/ $work/v$w/
  git -C /repo worktree add --detach $work/r$w HEAD >/dev/null 2>&1
  awk -v w=$w -v j=$J 'NR % j == w % j' $work/all.txt > $work/list$w.txt
  (
    while read n; do
      p=${n%%-*}
      git -C $work/r$w checkout -- . ; git -C $work/r$w apply /verif/seeded/$n/patch.diff || { echo "NOAPPLY $n"; continue; }
      out=$(cd $work/v$w && VERIF_REPO=$work/r$w timeout 1200 ./check $p quick 2>&1)
      if echo "$out" | grep -q "VIOLATION property=$p"; then echo "CAUGHT $n"; else echo "MISSED $n"; echo "$out" | tail -3; fi
    done < $work/list$w.txt
  ) > $work/out$w.log 2>&1 &
done
wait
cat $work/out*.log | sort
for w in $(seq 1 $J); do git -C /repo worktree remove --force $work/r$w; done
rm -rf $work
