"""C10 worker: the hand-over of `vapp` to Django's migrations (MoveToDjangoMigrations(mark_applied=S), some migrations
left to run) in the same run in which a migration-managed app (`mapp`, tools/vlib/evorig.py) is installed for the first
time - the run then has migrations to apply BEFORE the evolutions as well.  Own process: the project has `mapp`.

usage: c10_worker.py <out.json>
"""
import json
import os
import sys

sys.path.insert(0, os.path.dirname(os.path.dirname(os.path.abspath(__file__))))

from vlib import evorig  # noqa: E402


def recorder(app):
    from django.db import connection
    with connection.cursor() as cur:
        if 'django_migrations' not in connection.introspection.table_names(cur):
            return []
        cur.execute('SELECT name FROM django_migrations WHERE app = %s ORDER BY id', [app])
        return [r[0] for r in cur.fetchall()]


def stored(app):
    from django_evolution.models import Version
    a = Version.objects.current_version().signature.get_app_sig(app)
    if a is None:
        return None
    return {'upgrade_method': a.upgrade_method,
            'applied_migrations': sorted(a.applied_migrations or [])}


def one(k, m, s, app='vapp', dep=False):
    from django_evolution.compat.apps import get_apps
    from django_evolution.evolve import EvolveAppTask, Evolver
    from django_evolution.utils.apps import get_app_label
    from vlib.props import c10
    case = c10.Case(k, m, s, None)
    case.app = app
    names = case.names()
    res = {'params': [k, m, s], 'app': app, 'waits_for_new_app': dep, 'runs': []}

    def run(vapp_fields, evolutions, migrations, skip=(), with_wapp=False):
        evorig._hygiene()
        sp = c10.spec(vapp_fields, ['w'] if with_wapp else None)
        sp['apps'][0]['id'] = app
        sp['apps'][0]['models'][0]['table'] = '%s_alpha' % app
        sp['apps'].append(evorig.MAPP_SPEC)
        evorig.install_models(sp)
        evorig.set_evolutions(app, evolutions or [])
        tr = evorig.Trace()
        out = {'ok': True, 'error': None}
        with tr.recording():
            try:
                ev = Evolver()
                for a in get_apps():
                    label = get_app_label(a)
                    if label in skip:
                        continue
                    if label == app:
                        ev.queue_task(EvolveAppTask(ev, a, migrations=migrations))
                    else:
                        ev.queue_evolve_app(a)
                ev.evolve()
            except Exception as e:
                out['ok'] = False
                out['error'] = '%s: %s' % (type(e).__name__, str(e)[:200])
        out['applying_migration'] = [str(p.get('migration')) for n, p in tr.signals() if n == 'applying_migration']
        out['applying_evolution'] = [list(p.get('evolutions') or []) for n, p in tr.signals()
                                     if n == 'applying_evolution' and p.get('app') == app]
        return out

    evorig.fresh_databases()
    evorig.clear_evolutions()
    # release 1: vapp alone (mapp is not part of the project yet: nothing of it is queued)
    r1 = run(['base'], [], None, skip=('mapp',))
    res['runs'].append(dict(r1, what='release 1 (vapp only)'))
    # release 2: the hand-over of vapp, and mapp joins the project
    final_fields = ['base'] + case.fnames + case.gnames
    evos = case.evolutions()
    if dep:
        # the hand-over evolution has to wait for another app, which gets its first model in this very release: the
        # graph comes back to the app's task after the model creation
        evos[-1] = dict(evos[-1], after_evolutions=['wapp'])
    res['expected_evolutions'] = [e['label'] for e in evos]
    r2 = run(final_fields, evos, case.migrations(), with_wapp=dep)
    res['runs'].append(dict(r2, what='hand-over of %s next to the first installation of mapp' % app))
    from vlib import dbrig
    res['columns'] = sorted(dbrig.abs_schema().get('%s_alpha' % app, {}).get('columns', {}))
    res['expected_columns'] = sorted(['id'] + final_fields)
    res['vapp_rows'] = recorder(app)
    res['mapp_rows'] = recorder('mapp')
    res['stored_vapp'] = stored(app)
    from django.db import connection
    with connection.cursor() as cur:
        cur.execute('SELECT DISTINCT app FROM django_migrations')
        labels = sorted(r[0] for r in cur.fetchall())
    res['stray_labels'] = [x for x in labels if x not in ('contenttypes', 'django_evolution', 'mapp', 'vapp', 'wapp', 'xapp', 'lapp')]
    res['expected_vapp_rows'] = names
    # release 2 again: nothing left to do
    r3 = run(final_fields, evos, case.migrations(), with_wapp=dep)
    res['runs'].append(dict(r3, what='the same release once more'))
    res['vapp_rows_after_second_run'] = recorder(app)
    return res


def main(out_path):
    evorig.setup(migration_app=True, custom_label_app=True)
    out = []
    # (`lapp`: an app whose label is not its package name - the label is what Django's migration table goes by)
    for k, m, s, app, dep in ((1, 3, 1, 'vapp', False), (1, 3, 2, 'vapp', False), (2, 4, 2, 'vapp', False),
                              (0, 2, 1, 'vapp', False), (1, 3, 1, 'lapp', False), (1, 3, 2, 'lapp', False),
                              (0, 2, 1, 'lapp', False), (1, 3, 2, 'vapp', True), (2, 4, 2, 'vapp', True)):
        try:
            out.append(one(k, m, s, app, dep))
        except Exception as e:       # a case the rig cannot set up is reported, not hidden
            out.append({'params': [k, m, s], 'app': app, 'rig_error': '%s: %s' % (type(e).__name__, str(e)[:300])})
    json.dump(out, open(out_path, 'w'), default=str)


if __name__ == '__main__':
    main(sys.argv[1])
