"""In-process database rig: Django model classes from a spec (isolated app registry), fresh
SQLite databases, running mutations through the real AppMutator / SQLExecutor with the
DatabaseState *scanned from the real database*, and semantic introspection of the result."""
import json
import os
import re

from . import dj, sigs


# ---------------------------------------------------------------------------
# spec <-> Django models <-> signature
# ---------------------------------------------------------------------------

def build_models(spec):
    """Returns {app_id: [model classes in spec order]} built in an isolated Apps registry."""
    from django.apps.registry import Apps
    from django.db import models

    registry = Apps()
    out = {}
    for a in spec['apps']:
        out[a['id']] = []
        for m in a['models']:
            attrs = {'__module__': '%s.models' % a['id']}
            for f in m['fields']:
                cls = sigs.ftype_cls(f['type'])
                kw = dict(f['attrs'])
                if f['type'] in ('ForeignKey', 'OneToOneField'):
                    attrs[f['name']] = cls(f['related'], on_delete=models.CASCADE, related_name='+', **kw)
                elif f['type'] in sigs.M2M_TYPES:
                    attrs[f['name']] = cls(f['related'], related_name='+', **kw)
                else:
                    attrs[f['name']] = cls(**kw)
            meta = {'app_label': a['id'], 'apps': registry, 'db_table': m['table']}
            if m.get('unique_together'):
                meta['unique_together'] = [tuple(t) for t in m['unique_together']]
            if m.get('index_together'):
                meta['index_together'] = [tuple(t) for t in m['index_together']]
            if m.get('indexes'):
                meta['indexes'] = [make_index(d) for d in m['indexes']]
            if m.get('constraints'):
                meta['constraints'] = [make_constraint(d) for d in m['constraints']]
            if m.get('comment'):
                meta['db_table_comment'] = m['comment']
            if m.get('managed') is False:
                meta['managed'] = False
            attrs['Meta'] = type('Meta', (), meta)
            import warnings
            with warnings.catch_warnings():
                warnings.simplefilter('ignore')
                out[a['id']].append(type(str(m['name']), (models.Model,), attrs))
    return out


def make_index(d):
    from django.db import models
    kw = {k: v for k, v in d.items() if k not in ('expressions',)}
    if 'condition' in kw and isinstance(kw['condition'], dict):
        kw['condition'] = models.Q(**kw['condition'])
    return models.Index(*d.get('expressions', ()), **kw)


def make_constraint(d):
    from django.db import models
    d = dict(d)
    t = d.pop('type')
    cls = getattr(models, t) if isinstance(t, str) else t
    if 'check' in d and isinstance(d['check'], dict):
        d['check'] = models.Q(**d['check'])
    if 'condition' in d and isinstance(d['condition'], dict):
        d['condition'] = models.Q(**d['condition'])
    if 'fields' in d:
        d['fields'] = tuple(d['fields'])
    return cls(**d)


def sig_from_models(models_by_app):
    from django_evolution.consts import UpgradeMethod
    from django_evolution.signature import AppSignature, ModelSignature, ProjectSignature
    p = ProjectSignature()
    for app_id, ms in models_by_app.items():
        a = AppSignature(app_id=app_id, upgrade_method=UpgradeMethod.EVOLUTIONS)
        for m in ms:
            a.add_model_sig(ModelSignature.from_model(m))
        p.add_app_sig(a)
    return p


def spec_from_sig(p):
    """Inverse of the signature construction, used to build the *fresh* reference models of an
    evolved signature (independent of django_evolution.mock_models)."""
    spec = {'apps': []}
    for a in p.app_sigs:
        ms = []
        for m in a.model_sigs:
            fields = []
            for f in m.field_sigs:
                fields.append({'name': f.field_name, 'type': f.field_type.__name__,
                               'attrs': dict(f.field_attrs), 'related': f.related_model})
            idx = []
            for i in m.index_sigs:
                d = dict(i.attrs or {})
                if i.fields:
                    d['fields'] = list(i.fields)
                if i.name:
                    d['name'] = i.name
                if i.expressions:
                    d['expressions'] = list(i.expressions)
                idx.append(d)
            cons = []
            for c in m.constraint_sigs:
                d = dict(c.attrs or {})
                d['name'] = c.name
                d['type'] = c.type
                cons.append(d)
            ms.append({'name': m.model_name, 'table': m.table_name, 'fields': fields,
                       'unique_together': [list(t) for t in m.unique_together],
                       'index_together': [list(t) for t in m.index_together],
                       'indexes': idx, 'constraints': cons,
                       **({'comment': m.db_table_comment} if getattr(m, 'db_table_comment', None) else {})})
        spec['apps'].append({'id': a.app_id, 'models': ms})
    return spec


# ---------------------------------------------------------------------------
# databases
# ---------------------------------------------------------------------------

def clear_stuck_transaction(alias='default'):
    """-> True when the connection was still inside an atomic block (and was cleaned up)"""
    from django.db import connections
    conn = connections[alias]
    if not conn.in_atomic_block:
        return False
    raw = conn.connection
    conn.in_atomic_block = False
    conn.savepoint_ids = []
    conn.atomic_blocks = []
    conn.needs_rollback = False
    conn.closed_in_transaction = False
    conn.run_on_commit = []
    if raw is not None:
        try:
            raw.close()
        except Exception:
            pass
    conn.connection = None
    return True


def reset_db(alias='default'):
    from django.db import connections
    conn = connections[alias]
    if conn.in_atomic_block:
        # Django's SQLite schema editor leaves its atomic block open when a statement fails inside it (its
        # __exit__ runs check_constraints() first, which raises in a broken transaction): a rig concern only,
        # the next case starts from a connection with no transaction state
        raw = conn.connection
        conn.in_atomic_block = False
        conn.savepoint_ids = []
        conn.atomic_blocks = []
        conn.needs_rollback = False
        conn.closed_in_transaction = False
        conn.run_on_commit = []
        if raw is not None:
            try:
                raw.close()
            except Exception:
                pass
        conn.connection = None
    conn.close()
    path = conn.settings_dict['NAME']
    for p in (path, path + '-journal', path + '-wal', path + '-shm'):
        if os.path.exists(p):
            os.unlink(p)
    conn.ensure_connection()
    return conn


def create_tables(models_by_app, alias='default'):
    from django.db import connections
    conn = connections[alias]
    with conn.schema_editor() as ed:
        for ms in models_by_app.values():
            for m in ms:
                ed.create_model(m)


def run_sql(sql, alias='default'):
    from django_evolution.utils.sql import SQLExecutor
    # like EvolveAppTask.execute_tasks: evolution SQL runs with constraint checks deferred to the end of
    # the block (a table rebuild drops and re-creates a table that other tables refer to)
    with SQLExecutor(alias, check_constraints=False) as ex:
        ex.run_sql(sql, execute=True)


def scan_state(alias='default'):
    from django_evolution.db.state import DatabaseState
    return DatabaseState(alias, scan=True)


def evolve(sig, app_label, muts, alias='default', one_at_a_time=False, trace=None):
    """Run real mutation objects against the database; returns the final signature.
    Batched: one AppMutator for the whole list (optimiser on).  One at a time: a fresh
    AppMutator and a fresh scan of the database per mutation."""
    from django_evolution.mutators import AppMutator
    p = sig.clone()
    groups = [[m] for m in muts] if one_at_a_time else [list(muts)]
    label = app_label
    for g in groups:
        state = scan_state(alias)
        am = AppMutator(app_label=label, project_sig=p, database_state=state, database=alias)
        am.run_mutations(g)
        sql = am.to_sql()
        if trace is not None:
            trace.append(sql)
        run_sql(sql, alias)
        label = am.app_label
    return p


def insert_rows(models_by_app, rng, n_rows=None, alias='default'):
    """0-6 rows per table: NULLs, empty strings, quotes, percent signs, negative and boundary
    numbers, FK links to existing rows; M2M links"""
    from django.db import models as dm
    import datetime
    import decimal
    strs = ['', 'x', "it's", '50%', 'back\\slash', 'q"uote', 'ünï', 'NULL']
    ints = [0, 1, -1, 7, 2147483647, -2147483648, 42]
    created = {}
    for app_id, ms in models_by_app.items():
        for m in ms:
            n = rng.randint(0, 6) if n_rows is None else n_rows
            objs = []
            for i in range(n):
                kw = {}
                ok = True
                for f in m._meta.local_fields:
                    if f.primary_key:
                        continue
                    if f.null and rng.random() < 0.35:
                        kw[f.attname] = None
                        continue
                    if isinstance(f, (dm.ForeignKey, dm.OneToOneField)):
                        target = created.get(f.remote_field.model if not isinstance(f.remote_field.model, str) else None)
                        cands = list(target) if target else ([o.pk for o in objs] if f.remote_field.model is m else [])
                        if isinstance(f, dm.OneToOneField) or f.unique:
                            used = set(getattr(o, f.attname) for o in objs)
                            cands = [c for c in cands if c not in used]
                        if cands:
                            kw[f.attname] = rng.choice(cands)
                        elif f.null:
                            kw[f.attname] = None
                        else:
                            ok = False
                    elif isinstance(f, dm.CharField):
                        v = rng.choice(strs)[:f.max_length or 10]
                        kw[f.attname] = (v + str(i))[:f.max_length or 10] if f.unique else v
                    elif isinstance(f, dm.TextField):
                        kw[f.attname] = rng.choice(strs)
                    elif isinstance(f, dm.BooleanField):
                        kw[f.attname] = rng.choice([True, False])
                    elif isinstance(f, dm.DecimalField):
                        kw[f.attname] = decimal.Decimal(rng.choice(['0', '1.5', '-2.25', '9.99']))
                    elif isinstance(f, dm.DateTimeField):
                        kw[f.attname] = datetime.datetime(2020, 1, 2, 3, 4, 5 + i, tzinfo=datetime.timezone.utc)
                    elif isinstance(f, dm.PositiveIntegerField):
                        kw[f.attname] = abs(rng.choice(ints)) + (i * 1000 if f.unique else 0)
                    else:
                        kw[f.attname] = rng.choice(ints) + (i * 1000 if f.unique else 0)
                if not ok:
                    continue
                try:
                    objs.append(m.objects.using(alias).create(**kw))
                except Exception:
                    pass        # unique collisions etc.: the row is simply not inserted
            created[m] = [o.pk for o in objs]
            for f in m._meta.local_many_to_many:
                target = created.get(f.remote_field.model)
                for o in objs:
                    if target and rng.random() < 0.5:
                        try:
                            getattr(o, f.name).add(*rng.sample(target, min(len(target), rng.randint(1, 2))))
                        except Exception:
                            pass
    return created


# ---------------------------------------------------------------------------
# semantic introspection
# ---------------------------------------------------------------------------

BOOKKEEPING = ('django_', 'sqlite_')


def _norm_type(t):
    return re.sub(r'\s+', ' ', (t or '').strip().lower())


def abs_schema(alias='default', include=None):
    """{table: {'columns': {name: [type, notnull, pk]}, 'indexes': sorted [[cols], unique, where],
    'fks': sorted [[col, table, tocol]], 'checks': sorted [normalised text]}}; index names, column
    order and AUTOINCREMENT are deliberately not part of the abstraction (DESIGN §12)."""
    from django.db import connections
    conn = connections[alias]
    out = {}
    with conn.cursor() as cur:
        cur.execute("SELECT name, sql FROM sqlite_master WHERE type='table'")
        tables = [(n, s) for n, s in cur.fetchall() if not n.startswith(BOOKKEEPING)]
        for name, sql in tables:
            if include is not None and name not in include:
                continue
            cur.execute('PRAGMA table_info("%s")' % name)
            cols = {r[1]: [_norm_type(r[2]), bool(r[3]), bool(r[5])] for r in cur.fetchall()}
            cur.execute('PRAGMA index_list("%s")' % name)
            idx = []
            for r in cur.fetchall():
                iname, unique, origin, partial = r[1], bool(r[2]), r[3], r[4]
                if origin == 'pk':
                    continue
                cur.execute('PRAGMA index_info("%s")' % iname)
                icols = [x[2] for x in cur.fetchall()]
                where = None
                if partial:
                    cur.execute("SELECT sql FROM sqlite_master WHERE name=%s", [iname])
                    isql = cur.fetchone()[0] or ''
                    m = re.search(r'\bWHERE\b(.*)$', isql, re.I | re.S)
                    where = re.sub(r'[\s()"]+', '', m.group(1)).lower() if m else '?'
                idx.append([icols, unique, where])
            cur.execute('PRAGMA foreign_key_list("%s")' % name)
            fks = sorted([r[3], r[2], r[4]] for r in cur.fetchall())
            checks = sorted(re.sub(r'[\s"()]+', '', c).lower()
                            for c in re.findall(r'CHECK\s*\((.*?)\)\s*(?:,|\)\s*$)', sql or '', re.I | re.S))
            out[name] = {'columns': cols, 'indexes': sorted(idx, key=json.dumps), 'fks': fks, 'checks': checks}
    return out


def raw_connection(alias='default'):
    """a plain sqlite3 connection WITHOUT Django's declared-type converters (they turn '' in a
    `bool`/`datetime` column into None when reading, which would hide what is stored)"""
    import sqlite3
    from django.db import connections
    return sqlite3.connect(connections[alias].settings_dict['NAME'])


def abs_rows(alias='default'):
    """{table: sorted list of {column: value}} — keyed by column name, never by position"""
    out = {}
    conn = raw_connection(alias)
    try:
        cur = conn.cursor()
        cur.execute("SELECT name FROM sqlite_master WHERE type='table'")
        for (name,) in cur.fetchall():
            if name.startswith(BOOKKEEPING):
                continue
            cur.execute('SELECT * FROM "%s"' % name)
            cols = [d[0] for d in cur.description]
            rows = [dict(zip(cols, r)) for r in cur.fetchall()]
            out[name] = sorted(rows, key=lambda r: json.dumps(r, sort_keys=True, default=str))
    finally:
        conn.close()
    return out


def fk_check(alias='default'):
    from django.db import connections
    with connections[alias].cursor() as cur:
        cur.execute('PRAGMA foreign_key_check')
        return [list(r) for r in cur.fetchall()]


def fresh_schema(sig, alias='other'):
    """Schema obtained by creating the models of `sig` from scratch."""
    reset_db(alias)
    models = build_models(spec_from_sig(sig))
    create_tables(models, alias)
    return abs_schema(alias)


def schema_diff(a, b):
    """list of human-readable differences between two abstract schemas"""
    out = []
    for t in sorted(set(a) | set(b)):
        if t not in a:
            out.append('table %s missing on the left' % t)
            continue
        if t not in b:
            out.append('table %s missing on the right' % t)
            continue
        for part in ('columns', 'indexes', 'fks', 'checks'):
            if a[t][part] != b[t][part]:
                out.append('%s.%s: %s != %s' % (t, part, json.dumps(a[t][part], sort_keys=True),
                                                json.dumps(b[t][part], sort_keys=True)))
    return out
