"""Cases for the Evolver rig: a database at version V0 (with rows) of generated apps, the models
of V1 and the evolution that leads there; file-level snapshot/restore of the SQLite database so
that one case can be re-run many times (fault at every statement index)."""
import os
import random
import shutil

from . import dbrig, evorig, sigs
from .props.c11 import dangling


def db_path(alias='default'):
    from django.db import connections
    return connections[alias].settings_dict['NAME']


def save_db(tag, alias='default'):
    from django.db import connections
    connections[alias].close()
    shutil.copyfile(db_path(alias), db_path(alias) + '.' + tag)


def restore_db(tag, alias='default'):
    from django.db import connections
    dbrig.clear_stuck_transaction(alias)
    connections[alias].close()
    shutil.copyfile(db_path(alias) + '.' + tag, db_path(alias))
    connections[alias].ensure_connection()


def gen_upgrade(rng, kinds=None, max_len=3, with_meta=False, new_model=False):
    """-> dict(spec0, spec1, muts) or None.  The evolution is valid one mutation at a time,
    executable one at a time on a scratch database, and its target models are installable."""
    spec0 = sigs.gen_spec(rng, 'vapp', with_meta=with_meta)
    models = dbrig.build_models(spec0)
    sig0 = dbrig.sig_from_models(models)
    kinds = kinds or (['AddField'] * 4 + ['ChangeField'] * 3 + ['DeleteField'] * 2 + ['RenameField'])
    muts, final = sigs.gen_sequence(rng, sig0, 'vapp', rng.randint(1, max_len), kinds=kinds)
    if final is None or not muts or dangling(final, set()):
        return None
    if any(m['t'] == 'ChangeField' and any(a in ('db_table',) for a, _ in m['attrs']) for m in muts):
        return None
    spec1 = dbrig.spec_from_sig(final)
    spec1['apps'] = [a for a in spec1['apps'] if a['id'] == 'vapp']
    if new_model:
        spec1['apps'][0]['models'].append({
            'name': 'Newm', 'table': 'vapp_newm', 'unique_together': [], 'index_together': [], 'indexes': [],
            'constraints': [],
            'fields': [{'name': 'id', 'type': 'AutoField', 'attrs': {'primary_key': True}, 'related': None},
                       {'name': 'n', 'type': 'IntegerField', 'attrs': {'db_index': True}, 'related': None},
                       {'name': 'owner', 'type': 'ForeignKey', 'attrs': {'null': True},
                        'related': 'vapp.%s' % spec1['apps'][0]['models'][0]['name']}]})
        if new_model == 2:
            # a second new model with a many-to-many field: model creation takes three CREATE TABLEs
            spec1['apps'][0]['models'].append({
                'name': 'Newt', 'table': 'vapp_newt', 'unique_together': [], 'index_together': [], 'indexes': [],
                'constraints': [],
                'fields': [{'name': 'id', 'type': 'AutoField', 'attrs': {'primary_key': True}, 'related': None},
                           {'name': 'label', 'type': 'CharField', 'attrs': {'max_length': 10}, 'related': None},
                           {'name': 'news', 'type': 'ManyToManyField', 'attrs': {}, 'related': 'vapp.Newm'}]})
    return {'spec0': spec0, 'spec1': spec1, 'muts': muts}


def prepare_v0(case, seed, rows=True):
    """fresh databases, models of V0 installed and created through the real Evolver, rows inserted"""
    evorig.fresh_databases()
    evorig.clear_evolutions()
    models = evorig.install_models(case['spec0'])
    r = evorig.run_evolver()
    if r[0] != 'ok':
        raise RuntimeError('baseline failed: %r' % (r[1],))
    if rows:
        dbrig.insert_rows(models, random.Random(seed))


def install_v1(case, label='e1'):
    evorig.install_models(case['spec1'])
    if case.get('evolutions'):
        # several pending evolutions of vapp, each with its own dependencies: [{'label', 'muts', 'after_evolutions', ...}]
        evorig.set_evolutions('vapp', [dict({'label': e['label'], 'mutations': [sigs.real_mutation(m) for m in e['muts']]},
                                            **{k: [tuple(x) if isinstance(x, list) else x for x in e[k]]
                                               for k in ('after_evolutions', 'before_evolutions',
                                                         'after_migrations', 'before_migrations') if e.get(k)})
                                       for e in case['evolutions']])
    else:
        evorig.set_evolutions('vapp', [{'label': label, 'mutations': [sigs.real_mutation(m) for m in case['muts']]}])
    # evolutions of further apps that were applied BEFORE this release (app label -> mutations, label `e0`): they stay
    # in the app's SEQUENCE
    for app, muts in (case.get('applied_first') or {}).items():
        evorig.set_evolutions(app, [{'label': 'e0', 'mutations': [sigs.real_mutation(m) for m in muts]}])
    # pending evolutions of further apps of the case (app label -> mutations)
    for app, muts in (case.get('extra_evolutions') or {}).items():
        evorig.set_evolutions(app, [{'label': label, 'mutations': [sigs.real_mutation(m) for m in muts]}])
