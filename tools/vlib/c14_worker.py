"""C14 worker: one process (one PYTHONHASHSEED) runs every case through the real `evolve`
command three times — `--sql` preview, `--hint`, `--execute` — and writes what it saw.

usage: python -B c14_worker.py <cases.json> <out.json>      (PYTHONHASHSEED set by the parent)

Per case the output has
  preview   : statements printed by `evolve --sql` per task header (comment lines removed)
  executed  : write statements issued between `applying_evolution` and `applied_evolution`,
              rendered with the backend's own `quote_sql_param` (the quoting the preview uses)
  hint      : text printed by `evolve --hint`
  preview_touched_db : whether the preview run changed schema, rows or bookkeeping
Every run gets freshly built evolution modules (fresh mutation objects), as separate processes
would in production.
"""
import json
import os
import sys

sys.path.insert(0, os.path.dirname(os.path.dirname(os.path.abspath(__file__))))

from vlib import sigs, evocases, evorig  # noqa


def parse_preview(text):
    """{task header: [statements]} from the stdout of `evolve --sql`"""
    out = []
    cur = None
    for line in text.splitlines():
        s = line.strip()
        if not s:
            continue
        if s.startswith('-- ') and not s.startswith('-- Start of a new transaction') and \
                not s.startswith('-- Run outside of a transaction'):
            cur = [s[3:], []]
            out.append(cur)
        elif s.startswith('--'):
            continue
        elif cur is not None:
            cur[1].append(s)
        # text before the first task header ("No database upgrade required." ...) is not SQL
    return out


def render(sql, params, qp):
    sql = sql.strip()
    if params:
        try:
            return sql % tuple(qp(p) for p in params)
        except Exception:
            return sql + ' %% %r' % (params,)
    return sql


def executed_statements(tr, qp):
    """[(app, [statements])] for every applying/applied_evolution bracket"""
    out = []
    cur = None
    for e in tr.events:
        if e[0] == 'signal' and e[1] == 'applying_evolution':
            cur = [e[2].get('app'), []]
        elif e[0] == 'signal' and e[1] == 'applied_evolution':
            if cur is not None:
                out.append(cur)
            cur = None
        elif e[0] == 'sql' and cur is not None:
            cur[1].append(render(e[1], e[2], qp))
    if cur is not None:
        out.append(cur + ['unterminated'])
    return out


def run_sql_file_case(case, seed):
    """an evolution shipped as per-database SQL files, previewed and executed on one database"""
    import random
    from django.db import connections
    from django_evolution.db import EvolutionOperationsMulti
    from vlib import dbrig
    alias = case['alias']
    res = {'hint': '', 'hint_status': None, 'hpreview': [], 'hexecuted': [], 'hpreview_status': None,
           'hexecute_status': None}
    evorig.fresh_databases()
    evorig.clear_evolutions()
    evorig.install_models(case['spec0'])
    for a in ('default', 'other'):
        r = evorig.run_evolver(alias=a)
        if r[0] != 'ok':
            raise RuntimeError('baseline failed on %s: %r' % (a, r[1]))
    evorig.set_evolutions('vapp', [{'label': 'e1', 'sql_files': case['sql_files']}])
    before = evorig.snapshot(alias)
    r = evorig.run_command(alias=alias, compile_sql=True)
    res['preview_status'] = r[0]
    res['preview_error'] = None if r[0] == 'ok' else '%s: %s' % (type(r[1]).__name__, str(r[1])[:200])
    res['preview'] = parse_preview(r[2])
    res['preview_writes'] = [s for s in r[3].write_statements()]
    res['preview_touched_db'] = evorig.snapshot(alias) != before
    qp = EvolutionOperationsMulti(alias).get_evolver().quote_sql_param
    r = evorig.run_command(alias=alias, execute=True, interactive=False)
    res['execute_status'] = r[0]
    res['execute_error'] = None if r[0] == 'ok' else '%s: %s' % (type(r[1]).__name__, str(r[1])[:200])
    res['executed'] = executed_statements(r[3], qp)
    for a in ('default', 'other'):
        connections[a].close()
    return res


def run_case(case, seed):
    from django.db import connections
    from django_evolution.db import EvolutionOperationsMulti
    if case.get('sql_files') is not None:
        return run_sql_file_case(case, seed)
    res = {}
    evocases.prepare_v0(case, seed, rows=case.get('rows', True))
    if case.get('applied_first'):
        # an earlier release of another app shipped an evolution (e.g. raw SQL); it is applied and recorded now
        for app, muts in case['applied_first'].items():
            evorig.set_evolutions(app, [{'label': 'e0', 'mutations': [sigs.real_mutation(m) for m in muts]}])
        r = evorig.run_evolver()
        if r[0] != 'ok':
            raise RuntimeError('the earlier release cannot be applied: %r' % (r[1],))
    evocases.save_db('c14v0')
    evocases.install_v1(case)
    before = evorig.snapshot()
    r = evorig.run_command(compile_sql=True)
    res['preview_status'] = r[0]
    res['preview_error'] = None if r[0] == 'ok' else '%s: %s' % (type(r[1]).__name__, str(r[1])[:200])
    res['preview'] = parse_preview(r[2])
    res['preview_writes'] = [s for s in r[3].write_statements()]
    res['preview_touched_db'] = evorig.snapshot() != before
    # the hint is what one gets before any evolution has been written
    evorig.install_models(case['spec1'])
    evorig.clear_evolutions()
    r = evorig.run_command(hint=True)
    res['hint_status'] = r[0]
    res['hint'] = r[2]
    evocases.install_v1(case)
    qp = EvolutionOperationsMulti('default').get_evolver().quote_sql_param
    r = evorig.run_command(execute=True, interactive=False)
    res['execute_status'] = r[0]
    res['execute_error'] = None if r[0] == 'ok' else '%s: %s' % (type(r[1]).__name__, str(r[1])[:200])
    res['executed'] = executed_statements(r[3], qp)
    # the same upgrade through the hinted path: `--hint --sql` against `--hint --execute`
    evocases.restore_db('c14v0')
    evorig.install_models(case['spec1'])
    evorig.clear_evolutions()
    r = evorig.run_command(hint=True, compile_sql=True)
    res['hpreview_status'] = r[0]
    res['hpreview_error'] = None if r[0] == 'ok' else '%s: %s' % (type(r[1]).__name__, str(r[1])[:200])
    res['hpreview'] = parse_preview(r[2])
    r = evorig.run_command(hint=True, execute=True, interactive=False)
    res['hexecute_status'] = r[0]
    res['hexecute_error'] = None if r[0] == 'ok' else '%s: %s' % (type(r[1]).__name__, str(r[1])[:200])
    res['hexecuted'] = executed_statements(r[3], qp)
    connections['default'].close()
    return res


def main():
    cases = json.load(open(sys.argv[1]))
    evorig.setup(custom_label_app=True)
    out = []
    for i, c in enumerate(cases):
        try:
            out.append(run_case(c['case'], c['seed']))
        except Exception as e:      # a case the rig cannot set up is reported, not hidden
            out.append({'rig_error': '%s: %s' % (type(e).__name__, str(e)[:200])})
    json.dump({'hashseed': os.environ.get('PYTHONHASHSEED'), 'results': out}, open(sys.argv[2], 'w'))


if __name__ == '__main__':
    main()
