"""Translator: /repo source (Python `ast`, the code is never imported here) ->
DEvo/Generated/*.lean.  Fails closed: any construct outside the expected subset raises
ExtractError, which the check reports as a broken tie (not as a verdict by itself).

Files are rewritten only when their content changes, so an unchanged tree costs no rebuild.
"""
import ast
import re
import os


class ExtractError(Exception):
    pass


def _src(repo, rel):
    with open(os.path.join(repo, rel)) as f:
        return f.read()


def _find_class(tree, name):
    for n in ast.walk(tree):
        if isinstance(n, ast.ClassDef) and n.name == name:
            return n
    raise ExtractError('class %s not found' % name)


def _find_func(node, name):
    for n in ast.walk(node):
        if isinstance(n, (ast.FunctionDef,)) and n.name == name:
            return n
    raise ExtractError('function %s not found' % name)


def _class_assign(cls, name):
    for n in cls.body:
        if isinstance(n, ast.Assign) and any(isinstance(t, ast.Name) and t.id == name for t in n.targets):
            return n.value
    raise ExtractError('attribute %s not found' % name)


def lean_str(s):
    return '"' + s.replace('\\', '\\\\').replace('"', '\\"') + '"'


def lean_list(items):
    return '[' + ', '.join(items) + ']'


def write_if_changed(path, content):
    old = None
    if os.path.exists(path):
        with open(path) as f:
            old = f.read()
    if old != content:
        with open(path, 'w') as f:
            f.write(content)
        return True
    return False


# ---------------------------------------------------------------------------

def extract_mergeable_ops(repo):
    tree = ast.parse(_src(repo, 'django_evolution/db/common.py'))
    cls = _find_class(tree, 'BaseEvolutionOperations')
    val = _class_assign(cls, 'mergeable_ops')
    # ast.literal_eval performs the same implicit string concatenation Python does
    ops = ast.literal_eval(val)
    if not isinstance(ops, (tuple, list, set, frozenset)) or not all(isinstance(o, str) for o in ops):
        raise ExtractError('mergeable_ops is not a literal collection of strings')
    return sorted(ops) if isinstance(ops, (set, frozenset)) else list(ops)


def _const_json(node):
    """JSON text of a literal default; non-literals (e.g. global_settings.DEFAULT_TABLESPACE,
    which is None in Django's global settings) are rendered as null and reported."""
    import json
    try:
        return json.dumps(ast.literal_eval(node), sort_keys=True), True
    except Exception:
        return 'null', False


def extract_attr_defaults(repo):
    tree = ast.parse(_src(repo, 'django_evolution/signature.py'))
    cls = _find_class(tree, 'FieldSignature')
    val = _class_assign(cls, '_ATTRIBUTE_DEFAULTS')
    if not isinstance(val, ast.Dict):
        raise ExtractError('_ATTRIBUTE_DEFAULTS is not a dict literal')
    out = []
    nonlit = []
    for k, v in zip(val.keys, val.values):
        if isinstance(k, ast.Constant) and k.value == '*':
            key = '*'
        elif isinstance(k, ast.Attribute):
            key = k.attr
        elif isinstance(k, ast.Name):
            key = k.id
        else:
            raise ExtractError('unexpected key in _ATTRIBUTE_DEFAULTS')
        if not isinstance(v, ast.Dict):
            raise ExtractError('unexpected value in _ATTRIBUTE_DEFAULTS')
        entries = []
        for ak, av in zip(v.keys, v.values):
            if not (isinstance(ak, ast.Constant) and isinstance(ak.value, str)):
                raise ExtractError('unexpected attr key in _ATTRIBUTE_DEFAULTS')
            js, lit = _const_json(av)
            if not lit:
                nonlit.append('%s.%s' % (key, ak.value))
            entries.append((ak.value, js))
        out.append((key, entries))
    return out, nonlit


# ---------------------------------------------------------------------------
# control skeletons: Python AST -> DEvo.Skel.Stmt
# ---------------------------------------------------------------------------

PURE_CALLS = {'isinstance', 'issubclass', 'len', 'int', 'str', 'list', 'set', 'tuple', 'dict', 'getattr',
              'hasattr', '_', 'ngettext', 'super', 'type', 'enumerate', 'sorted', 'reversed', 'bool',
              'six.iteritems', 'six.itervalues', 'six.iterkeys', 'six.text_type', 'OrderedDict',
              'callable', 'any', 'all', 'repr', 'logger.debug', 'logger.warning', 'logging.error',
              'logging.warning', 'itertools.chain.from_iterable', 'range', 'zip', 'filter_dup_list_items'}
CATCH_ALL = {'Exception', 'BaseException'}


def _callee(node):
    name = ast.unparse(node.func)
    if name.startswith('self.'):
        name = name[5:]
    # what is passed to a context manager's __exit__ decides commit vs rollback: keep it
    if name.endswith('.__exit__') or name == 'finish_transaction':
        args = [ast.unparse(a) for a in node.args] + ['%s=%s' % (k.arg, ast.unparse(k.value)) for k in node.keywords]
        if name.endswith('.__exit__') or args:
            name = '%s(%s)' % (name, ', '.join(args))
    return name


class _Skel(object):
    def calls_in(self, node):
        """call statements for every call inside an expression, in evaluation order"""
        out = []
        if node is None:
            return out

        def visit(n):
            if isinstance(n, ast.Lambda):
                return
            for c in ast.iter_child_nodes(n):
                visit(c)
            if isinstance(n, ast.Call):
                nm = _callee(n)
                if nm not in PURE_CALLS:
                    out.append(('call', nm))
        visit(node)
        return out

    def block(self, stmts):
        out = []
        for st in stmts:
            out += self.stmt(st)
        return out

    def stmt(self, st):
        if isinstance(st, (ast.Expr, ast.Assign, ast.AugAssign, ast.AnnAssign)):
            return self.calls_in(st.value if not isinstance(st, ast.Expr) else st.value)
        if isinstance(st, (ast.Pass, ast.Import, ast.ImportFrom, ast.Global, ast.Nonlocal)):
            return []
        if isinstance(st, ast.FunctionDef):
            out = []
            for d in st.decorator_list:
                out += self.calls_in(d)
            return out
        if isinstance(st, ast.Return):
            return self.calls_in(st.value) + [('ret',)]
        if isinstance(st, ast.Raise):
            what = ast.unparse(st.exc.func) if isinstance(st.exc, ast.Call) else (ast.unparse(st.exc) if st.exc else 'reraise')
            inner = []
            if isinstance(st.exc, ast.Call):
                for a in list(st.exc.args) + [k.value for k in st.exc.keywords]:
                    inner += self.calls_in(a)
            return inner + [('raise', what)]
        if isinstance(st, ast.Assert):
            return self.calls_in(st.test) + [('ite', 'assert ' + ast.unparse(st.test), [], [('raise', 'AssertionError')])]
        if isinstance(st, ast.If):
            return self.calls_in(st.test) + [('ite', ast.unparse(st.test), self.block(st.body), self.block(st.orelse))]
        if isinstance(st, ast.For):
            if st.orelse:
                raise ExtractError('for/else is outside the translated subset')
            return self.calls_in(st.iter) + [('loop', ast.unparse(st.iter), self.block(st.body))]
        if isinstance(st, ast.While):
            if st.orelse:
                raise ExtractError('while/else is outside the translated subset')
            return [('loop', ast.unparse(st.test), self.calls_in(st.test) + self.block(st.body))]
        if isinstance(st, ast.With):
            pre = []
            names = []
            for item in st.items:
                pre += self.calls_in(item.context_expr)
                e = item.context_expr
                names.append(_callee(e) if isinstance(e, ast.Call) else ast.unparse(e))
            body = self.block(st.body)
            for nm in reversed(names):
                body = [('call', 'enter:' + nm), ('finally', body, [('call', 'exit:' + nm)])]
            return pre + body
        if isinstance(st, ast.Try):
            if st.orelse:
                # `try: B except: H else: E` is `try: B except: H` followed by E exactly when no handler
                # can complete normally (each ends in raise/return): E then runs only after a normal B,
                # and exceptions raised in E are not caught by H
                if not st.handlers or not all(h.body and isinstance(h.body[-1], (ast.Raise, ast.Return))
                                              for h in st.handlers):
                    raise ExtractError('try/else with a handler that can fall through is outside the translated subset')
            body = self.block(st.body)
            res = body
            if st.handlers:
                catch_all = False
                hs = []
                for h in st.handlers:
                    if h.type is None:
                        catch_all = True
                    else:
                        types = h.type.elts if isinstance(h.type, ast.Tuple) else [h.type]
                        if any(ast.unparse(t) in CATCH_ALL for t in types):
                            catch_all = True
                    hs.append(self.block(h.body))
                res = [('try', body, catch_all, hs)]
            if st.orelse:
                res = res + self.block(st.orelse)
            if st.finalbody:
                res = [('finally', res, self.block(st.finalbody))]
            return res
        if isinstance(st, (ast.Break, ast.Continue)):
            raise ExtractError('break/continue is outside the translated subset')
        if isinstance(st, ast.Delete):
            return []
        raise ExtractError('statement %s is outside the translated subset' % type(st).__name__)


def skel_to_lean(items):
    """list of tuple-encoded statements -> Lean term of type DEvo.Skel.Stmt"""
    def one(it):
        k = it[0]
        if k == 'call':
            return '(.call %s)' % lean_str(it[1])
        if k == 'ret':
            return '.ret'
        if k == 'raise':
            return '(.raise %s)' % lean_str(it[1])
        if k == 'ite':
            return '(.ite %s %s %s)' % (lean_str(it[1]), seq(it[2]), seq(it[3]))
        if k == 'loop':
            return '(.loop %s %s)' % (lean_str(it[1]), seq(it[2]))
        if k == 'finally':
            return '(.tryFinally %s %s)' % (seq(it[1]), seq(it[2]))
        if k == 'try':
            hs = [seq(h) for h in it[3]]
            h = hs[-1]
            for x in reversed(hs[:-1]):
                h = '(.choice %s %s)' % (x, h)
            return '(.tryExcept %s %s %s)' % (seq(it[1]), 'true' if it[2] else 'false', h)
        raise ExtractError('bad skeleton item %r' % (it,))

    def seq(items):
        if not items:
            return '.skip'
        out = one(items[-1])
        for it in reversed(items[:-1]):
            out = '(.seq %s %s)' % (one(it), out)
        return out
    return seq(items)


SKELETONS = [
    # (lean name, file, class, function)
    ('evolverEvolve', 'django_evolution/evolve/evolver.py', 'Evolver', 'evolve'),
    ('evolverSaveProjectSig', 'django_evolution/evolve/evolver.py', 'Evolver', '_save_project_sig'),
    ('sqlExecutorEnter', 'django_evolution/utils/sql.py', 'SQLExecutor', '__enter__'),
    ('sqlExecutorExit', 'django_evolution/utils/sql.py', 'SQLExecutor', '__exit__'),
    ('sqlExecutorNewTransaction', 'django_evolution/utils/sql.py', 'SQLExecutor', 'new_transaction'),
    ('sqlExecutorFinishTransaction', 'django_evolution/utils/sql.py', 'SQLExecutor', 'finish_transaction'),
    ('sqlExecutorRunSql', 'django_evolution/utils/sql.py', 'SQLExecutor', 'run_sql'),
    ('taskExecute', 'django_evolution/evolve/evolve_app_task.py', 'EvolveAppTask', 'execute'),
    ('taskCreateModels', 'django_evolution/evolve/evolve_app_task.py', 'EvolveAppTask', '_create_models'),
    ('taskExecuteTasks', 'django_evolution/evolve/evolve_app_task.py', 'EvolveAppTask', 'execute_tasks'),
    ('purgeExecute', 'django_evolution/evolve/purge_app_task.py', 'PurgeAppTask', 'execute'),
    ('commandHandle', 'django_evolution/management/commands/evolve.py', 'Command', 'handle'),
    ('commandCheckSimulation', 'django_evolution/management/commands/evolve.py', 'Command', '_check_simulation'),
    ('commandPerformEvolution', 'django_evolution/management/commands/evolve.py', 'Command', '_perform_evolution'),
]


def extract_skeletons(repo):
    out = []
    cache = {}
    for lean_name, rel, cls_name, fn_name in SKELETONS:
        if rel not in cache:
            cache[rel] = ast.parse(_src(repo, rel))
        cls = _find_class(cache[rel], cls_name)
        fn = None
        for n in cls.body:
            if isinstance(n, ast.FunctionDef) and n.name == fn_name:
                fn = n
        if fn is None:
            raise ExtractError('%s.%s not found' % (cls_name, fn_name))
        body = fn.body
        if body and isinstance(body[0], ast.Expr) and isinstance(body[0].value, ast.Constant) \
                and isinstance(body[0].value.value, str):
            body = body[1:]
        items = _Skel().block(body)
        out.append((lean_name, '%s.%s (%s)' % (cls_name, fn_name, rel), skel_to_lean(items)))
    return out


def extract_rebuild_items(repo):
    """In SQLiteAlterTableSQLResult.to_sql: which alter-table item ops set needs_rebuild, which
    do not.  Walks the `if op == 'X': ... elif ...` chain of the first loop."""
    tree = ast.parse(_src(repo, 'django_evolution/db/sqlite3.py'))
    cls = _find_class(tree, 'SQLiteAlterTableSQLResult')
    fn = _find_func(cls, 'to_sql')
    rebuild, other = [], []

    def sets_rebuild(body):
        for n in body:
            for sub in ast.walk(n):
                if isinstance(sub, ast.Assign) and any(isinstance(t, ast.Name) and t.id == 'needs_rebuild'
                                                       for t in sub.targets):
                    if isinstance(sub.value, ast.Constant) and sub.value.value is True:
                        return True
        return False

    def walk_if(node):
        t = node.test
        if (isinstance(t, ast.Compare) and isinstance(t.left, ast.Name) and t.left.id == 'op' and
                len(t.comparators) == 1 and isinstance(t.comparators[0], ast.Constant)):
            (rebuild if sets_rebuild(node.body) else other).append(t.comparators[0].value)
            if len(node.orelse) == 1 and isinstance(node.orelse[0], ast.If):
                walk_if(node.orelse[0])
            return True
        return False
    found = False
    for n in ast.walk(fn):
        if isinstance(n, ast.For) and isinstance(n.iter, ast.Attribute) and n.iter.attr == 'alter_table':
            for st in n.body:
                if isinstance(st, ast.If) and walk_if(st):
                    found = True
            break
    if not found or not rebuild:
        raise ExtractError('needs_rebuild chain not found in SQLiteAlterTableSQLResult.to_sql')
    return rebuild, other


def extract_fk_reference_attr(repo):
    """In BaseEvolutionOperations.build_column_schema: the expression whose value is written as the
    referenced column of `REFERENCES <table> (<column>)`.  `related_model._meta.pk.<attr>` gives
    `<attr>`; any other expression is returned as source text (unknown to the model)."""
    tree = ast.parse(_src(repo, 'django_evolution/db/common.py'))
    cls = _find_class(tree, 'BaseEvolutionOperations')
    fn = _find_func(cls, 'build_column_schema')
    for n in ast.walk(fn):
        if isinstance(n, ast.List) and n.elts and isinstance(n.elts[0], ast.Constant) and n.elts[0].value == 'REFERENCES':
            for el in n.elts[1:]:
                if isinstance(el, ast.BinOp) and isinstance(el.op, ast.Mod) and isinstance(el.left, ast.Constant) \
                        and el.left.value == '(%s)' and isinstance(el.right, ast.Call) and el.right.args:
                    expr = el.right.args[0]
                    text = ast.unparse(expr)
                    if text.startswith('related_model._meta.pk.') and text.count('.') == 3:
                        return text.rsplit('.', 1)[1]
                    return text
    raise ExtractError('REFERENCES clause not found in BaseEvolutionOperations.build_column_schema')


def extract_together_iteration(repo):
    """How change_meta_unique_together / change_meta_index_together iterate over the entries they add
    and remove: 'set' (iteration order of a Python set), 'sorted', 'declared' (order of the declared
    list), or 'unknown'."""
    tree = ast.parse(_src(repo, 'django_evolution/db/common.py'))
    cls = _find_class(tree, 'BaseEvolutionOperations')
    SET_METHODS = ('difference', 'union', 'intersection', 'symmetric_difference')

    def classify(expr, fn, upto, depth=0):
        if depth > 6:
            return 'unknown'
        if isinstance(expr, ast.Call):
            f = expr.func
            if isinstance(f, ast.Name) and f.id == 'sorted':
                return 'sorted'
            if isinstance(f, ast.Name) and f.id in ('set', 'frozenset'):
                return 'set'
            if isinstance(f, ast.Attribute) and f.attr in SET_METHODS:
                return 'set'
            if isinstance(f, ast.Name) and f.id in ('filter_dup_list_items', 'list', 'tuple') and expr.args:
                return classify(expr.args[0], fn, upto, depth + 1)
            return 'unknown'
        if isinstance(expr, (ast.SetComp, ast.Set)):
            return 'set'
        if isinstance(expr, ast.BoolOp):      # `x or []`
            kinds = [classify(v, fn, upto, depth + 1) for v in expr.values]
            return 'set' if 'set' in kinds else ('unknown' if 'unknown' in kinds else kinds[0])
        if isinstance(expr, (ast.List, ast.Tuple)):
            return 'declared'
        if isinstance(expr, ast.BinOp):
            kinds = [classify(expr.left, fn, upto, depth + 1), classify(expr.right, fn, upto, depth + 1)]
            return 'set' if 'set' in kinds else 'unknown'
        if isinstance(expr, (ast.ListComp, ast.GeneratorExp)):
            return classify(expr.generators[0].iter, fn, upto, depth + 1)
        if isinstance(expr, ast.Name):
            last = None
            for n in ast.walk(fn):
                if isinstance(n, ast.Assign) and n.lineno < upto and any(
                        isinstance(t, ast.Name) and t.id == expr.id for t in n.targets):
                    if last is None or n.lineno > last.lineno:
                        last = n
            if last is None:
                return 'declared' if expr.id in [a.arg for a in fn.args.args] else 'unknown'
            return classify(last.value, fn, last.lineno, depth + 1)
        return 'unknown'
    kinds = []
    for name in ('change_meta_unique_together', 'change_meta_index_together'):
        fn = _find_func(cls, name)
        loops = [n for n in ast.walk(fn) if isinstance(n, ast.For)]
        if not loops:
            raise ExtractError('no loop in %s' % name)
        kinds += [classify(l.iter, fn, l.lineno) for l in loops]
    if 'set' in kinds:
        return 'set'
    if 'unknown' in kinds:
        return 'unknown'
    return 'sorted' if all(k == 'sorted' for k in kinds) else 'declared'


def extract_q_separators(repo):
    """`QSerialization.child_separators` (django_evolution/serialization.py): connector -> operator text;
    the dict literal plus `child_separators[<key>] = '<text>'` statements in the class body"""
    tree = ast.parse(_src(repo, 'django_evolution/serialization.py'))
    cls = _find_class(tree, 'QSerialization')

    def key_of(k):
        if isinstance(k, ast.Attribute) and isinstance(k.value, ast.Name) and k.value.id == 'Q':
            return k.attr
        if isinstance(k, ast.Constant):
            return k.value
        if isinstance(k, ast.Call) and isinstance(k.func, ast.Name) and k.func.id == 'getattr' and \
                len(k.args) >= 2 and isinstance(k.args[1], ast.Constant):
            return k.args[1].value
        raise ExtractError('child_separators key not understood: %s' % ast.dump(k))
    out = None
    for n in cls.body:
        if isinstance(n, ast.Assign) and any(isinstance(t, ast.Name) and t.id == 'child_separators' for t in n.targets):
            if not isinstance(n.value, ast.Dict):
                raise ExtractError('child_separators is not a dict literal')
            out = []
            for k, v in zip(n.value.keys, n.value.values):
                if not isinstance(v, ast.Constant):
                    raise ExtractError('child_separators value not a literal')
                out.append((key_of(k), v.value))
    if out is None:
        raise ExtractError('QSerialization.child_separators not found')
    for n in cls.body:
        for sub in ast.walk(n):
            if isinstance(sub, ast.Assign) and len(sub.targets) == 1 and isinstance(sub.targets[0], ast.Subscript) and \
                    isinstance(sub.targets[0].value, ast.Name) and sub.targets[0].value.id == 'child_separators':
                if not isinstance(sub.value, ast.Constant):
                    raise ExtractError('child_separators value not a literal')
                out.append((key_of(sub.targets[0].slice), sub.value.value))
    return out


def extract_py_rendering(repo):
    """Facts about QSerialization / CombinedExpressionSerialization.serialize_to_python that the
    Lean printer model is parameterised by."""
    tree = ast.parse(_src(repo, 'django_evolution/serialization.py'))
    out = {'q_single_child_full': False, 'comb_operators': [], 'comb_methods': [], 'comb_parens': False,
           'keep_submodules': False}
    dcls = _find_class(tree, 'DeconstructedSerialization')
    dfn = _find_func(dcls, 'serialize_to_python')
    for n in ast.walk(dfn):
        # cls_path[len('django.db.models.'):]
        if isinstance(n, ast.Subscript) and isinstance(n.value, ast.Name) and n.value.id == 'cls_path' and \
                isinstance(n.slice, ast.Slice) and n.slice.upper is None and isinstance(n.slice.lower, ast.Call) and \
                isinstance(n.slice.lower.func, ast.Name) and n.slice.lower.func.id == 'len' and \
                len(n.slice.lower.args) == 1 and isinstance(n.slice.lower.args[0], ast.Constant) and \
                n.slice.lower.args[0].value == 'django.db.models.':
            out['keep_submodules'] = True
    qcls = _find_class(tree, 'QSerialization')
    fn = _find_func(qcls, 'serialize_to_python')
    for n in ast.walk(fn):
        if isinstance(n, ast.If) and isinstance(n.test, ast.Compare) and isinstance(n.test.left, ast.Name) and \
                n.test.left.id == 'num_children' and len(n.test.comparators) == 1 and \
                isinstance(n.test.comparators[0], ast.Constant) and n.test.comparators[0].value == 1:
            body = ast.Module(body=n.body, type_ignores=[])
            has_isq = any(isinstance(c, ast.Call) and isinstance(c.func, ast.Name) and c.func.id == 'isinstance' and
                          len(c.args) == 2 and isinstance(c.args[1], ast.Name) and c.args[1].id == 'Q'
                          for c in ast.walk(body))
            has_conn = any(isinstance(c, ast.Constant) and isinstance(c.value, str) and '_connector' in c.value
                           for c in ast.walk(body))
            out['q_single_child_full'] = bool(has_isq and has_conn)
    ccls = _find_class(tree, 'CombinedExpressionSerialization')
    for n in ccls.body:
        if isinstance(n, ast.Assign) and len(n.targets) == 1 and isinstance(n.targets[0], ast.Name) and \
                n.targets[0].id in ('_python_operators', '_python_methods') and isinstance(n.value, ast.Dict):
            items = []
            for k, v in zip(n.value.keys, n.value.values):
                if not (isinstance(k, ast.Constant) and isinstance(v, ast.Constant)):
                    raise ExtractError('%s is not a literal table' % n.targets[0].id)
                items.append((k.value, v.value))
            out['comb_operators' if n.targets[0].id == '_python_operators' else 'comb_methods'] = items
    helper = None
    for n in ccls.body:
        if isinstance(n, ast.FunctionDef) and n.name != 'serialize_to_python':
            isinst = any(isinstance(c, ast.Call) and isinstance(c.func, ast.Name) and c.func.id == 'isinstance' and
                         len(c.args) == 2 and isinstance(c.args[1], ast.Name) and c.args[1].id == 'CombinedExpression'
                         for c in ast.walk(n))
            paren = any(isinstance(c, ast.Constant) and c.value == '(%s)' for c in ast.walk(n))
            if isinst and paren:
                helper = n.name
    cfn = _find_func(ccls, 'serialize_to_python')
    if helper:
        sides = set()
        for c in ast.walk(cfn):
            if isinstance(c, ast.Call) and isinstance(c.func, ast.Attribute) and c.func.attr == helper and \
                    len(c.args) == 1 and isinstance(c.args[0], ast.Attribute) and isinstance(c.args[0].value, ast.Name) \
                    and c.args[0].value.id == 'value':
                sides.add(c.args[0].attr)
        out['comb_parens'] = sides == {'lhs', 'rhs'}
    # the tables only count when serialize_to_python consults them
    used = set(c.attr for c in ast.walk(cfn) if isinstance(c, ast.Attribute))
    if '_python_operators' not in used:
        out['comb_operators'] = []
    if '_python_methods' not in used:
        out['comb_methods'] = []
    return out


def extract_graph_validates(repo):
    """does DependencyGraph.get_ordered check its result and raise when an order is impossible?
    True only for the shape the model's `validate` variant describes: a loop over ALL registered
    nodes (`self._nodes`) that raises when a node is missing from the result or placed before one
    of its dependencies."""
    tree = ast.parse(_src(repo, 'django_evolution/utils/graph.py'))
    cls = _find_class(tree, 'DependencyGraph')
    fn = _find_func(cls, 'get_ordered')
    for n in ast.walk(fn):
        if isinstance(n, ast.For) and '_nodes' in ast.unparse(n.iter):
            raises = [r for r in ast.walk(n) if isinstance(r, ast.Raise)]
            tests = ' '.join(ast.unparse(i.test) for i in ast.walk(n) if isinstance(i, ast.If))
            if raises and 'is None' in tests and 'dependencies' in tests:
                return True
    return False


def extract_rename_app_label_fixed(repo):
    """RenameAppLabel.simulate: `parts = related_model.split('.', 1)` (repaired) as opposed to
    `….split('.', 1)[1]` (finding F12), and the comparison uses parts[0] / parts[1]"""
    tree = ast.parse(_src(repo, 'django_evolution/mutations/rename_app_label.py'))
    cls = _find_class(tree, 'RenameAppLabel')
    fn = _find_func(cls, 'simulate')
    for n in ast.walk(fn):
        if isinstance(n, ast.Assign) and any(isinstance(t, ast.Name) and t.id == 'parts' for t in n.targets):
            v = n.value
            if isinstance(v, ast.Call) and isinstance(v.func, ast.Attribute) and v.func.attr == 'split':
                return True
            return False
    raise ExtractError('the reference rewrite of RenameAppLabel.simulate was not found')


def extract_copy_cfg(repo):
    """how the SQLite rebuild turns the registered initial values into SELECT expressions
    (SQLiteAlterTableSQLResult.to_sql, the loop over `new_initial`):
    flag_per_item  - the block that tests `if embed_initial:` assigns `embed_initial` itself, unconditionally,
                     before the test (so the decision is taken anew for every initial value);
    embed_coalesces - the embed branch wraps the text in coalesce(...) when the column already exists"""
    tree = ast.parse(_src(repo, 'django_evolution/db/sqlite3.py'))
    cls = _find_class(tree, 'SQLiteAlterTableSQLResult')
    fn = _find_func(cls, 'to_sql')
    loop = None
    for n in ast.walk(fn):
        if isinstance(n, ast.For) and 'new_initial' in ast.unparse(n.iter):
            loop = n
            break
    if loop is None:
        raise ExtractError('SQLiteAlterTableSQLResult.to_sql has no loop over new_initial')

    def blocks(node):
        for f in ('body', 'orelse', 'finalbody'):
            b = getattr(node, f, None)
            if isinstance(b, list) and b and isinstance(b[0], ast.stmt):
                yield b
                for st in b:
                    for x in blocks(st):
                        yield x
    found = None
    for b in blocks(loop):
        for i, st in enumerate(b):
            if isinstance(st, ast.If) and isinstance(st.test, ast.Name) and st.test.id == 'embed_initial':
                found = (b, i, st)
                break
        if found:
            break
    if found is None:
        raise ExtractError('the loop over new_initial has no `if embed_initial:` test')
    b, i, test = found

    def assigns_flag(st):
        if not isinstance(st, ast.Assign):
            return False
        for t in st.targets:
            names = [t] if isinstance(t, ast.Name) else (t.elts if isinstance(t, ast.Tuple) else [])
            if any(isinstance(x, ast.Name) and x.id == 'embed_initial' for x in names):
                return True
        return False
    flag_per_item = any(assigns_flag(st) for st in b[:i])
    embed_coalesces = any(isinstance(c, ast.Constant) and isinstance(c.value, str) and 'coalesce(' in c.value
                          for st in test.body for c in ast.walk(st))
    return {'flag_per_item': flag_per_item, 'embed_coalesces': embed_coalesces}


def extract_attr_default_order(repo):
    """FieldSignature.get_attr_default walks `(type-specific defaults, generic defaults)` and returns the first
    hit: True when the type-specific table comes first"""
    tree = ast.parse(_src(repo, 'django_evolution/signature.py'))
    cls = _find_class(tree, 'FieldSignature')
    fn = _find_func(cls, 'get_attr_default')
    for n in ast.walk(fn):
        if isinstance(n, ast.For) and isinstance(n.iter, ast.Tuple) and len(n.iter.elts) == 2:
            a, b = [ast.unparse(e) for e in n.iter.elts]
            spec = lambda t: '_ATTRIBUTE_DEFAULTS.get(self.field_type' in t
            gen = lambda t: "_ATTRIBUTE_DEFAULTS['*']" in t
            if spec(a) and gen(b):
                return True
            if gen(a) and spec(b):
                return False
    raise ExtractError('FieldSignature.get_attr_default is not a first-hit walk over the two default tables')


def extract_collects_all_new_evolutions(repo):
    """Evolver.evolve(): `new_evolutions` is created once before the loop over the task classes and every task of
    every class adds its `new_evolutions` to it, unconditionally"""
    tree = ast.parse(_src(repo, 'django_evolution/evolve/evolver.py'))
    cls = _find_class(tree, 'Evolver')
    fn = _find_func(cls, 'evolve')
    tries = [n for n in ast.walk(fn) if isinstance(n, ast.Try)]
    if not tries:
        raise ExtractError('Evolver.evolve has no try block')
    body = tries[0].body
    init = [i for i, st in enumerate(body) if isinstance(st, ast.Assign) and len(st.targets) == 1 and
            isinstance(st.targets[0], ast.Name) and st.targets[0].id == 'new_evolutions' and
            isinstance(st.value, ast.List) and not st.value.elts]
    loops = [i for i, st in enumerate(body) if isinstance(st, ast.For) and '_tasks_by_class' in ast.unparse(st.iter)]
    if len(init) != 1 or len(loops) != 1 or init[0] > loops[0]:
        return False
    outer = body[loops[0]]
    for st in outer.body:
        if isinstance(st, ast.For) and isinstance(st.target, ast.Name) and ast.unparse(st.iter) == 'tasks':
            t = st.target.id
            if len(st.body) == 1 and isinstance(st.body[0], ast.AugAssign) and isinstance(st.body[0].op, ast.Add) and \
                    ast.unparse(st.body[0].target) == 'new_evolutions' and \
                    ast.unparse(st.body[0].value) == '%s.new_evolutions' % t and not st.orelse:
                # nothing else in the outer loop may rebind the list
                others = [x for x in ast.walk(outer) if isinstance(x, ast.Assign) and
                          any(isinstance(tt, ast.Name) and tt.id == 'new_evolutions' for tt in x.targets)]
                return not others
    return False


def extract_attr_load(repo):
    """FieldSignature.deserialize, the loop over the tracked attribute names: an attribute is loaded when its key
    (or its alias) is IN the stored dictionary - not when the fetched value happens to be non-None.
    Returns (by_presence, aliases)"""
    tree = ast.parse(_src(repo, 'django_evolution/signature.py'))
    cls = _find_class(tree, 'FieldSignature')
    fn = _find_func(cls, 'deserialize')
    loop = None
    for n in ast.walk(fn):
        if isinstance(n, ast.For) and '_iter_attrs_for_field_type' in ast.unparse(n.iter):
            loop = n
    if loop is None:
        raise ExtractError('FieldSignature.deserialize has no loop over _iter_attrs_for_field_type')
    attr = loop.target.id if isinstance(loop.target, ast.Name) else None
    by_presence = False
    for st in loop.body:
        if isinstance(st, ast.If):
            # if alias and alias in D: ... elif attr in D: ... else: continue
            t1 = ast.unparse(st.test)
            if ' in field_sig_attrs' in t1 and len(st.orelse) == 1 and isinstance(st.orelse[0], ast.If):
                t2 = ast.unparse(st.orelse[0].test)
                last = st.orelse[0].orelse
                if t2 == '%s in field_sig_attrs' % attr and last and isinstance(last[-1], ast.Continue):
                    by_presence = True
    none_test = any(isinstance(n, ast.Compare) and isinstance(n.ops[0], (ast.Is, ast.Eq)) and
                    isinstance(n.comparators[0], ast.Constant) and n.comparators[0].value is None
                    for st in loop.body for n in ast.walk(st))
    aliases = []
    for n in cls.body:
        if isinstance(n, ast.Assign) and any(isinstance(t, ast.Name) and t.id == '_ATTRIBUTE_ALIASES' for t in n.targets) \
                and isinstance(n.value, ast.Dict):
            for k, v in zip(n.value.keys, n.value.values):
                aliases.append((ast.literal_eval(k), ast.literal_eval(v)))
    return by_presence and not none_test, aliases


def extract_purge_cleanup(repo):
    """which signature entries a purge removes.  Returns 'own' when the only `remove_app_sig(...)` of
    PurgeAppTask is in `prepare`, outside any loop, guarded by `<x>.is_empty()` where <x> was fetched with
    `get_app_sig(self.app_label)`; 'other' for anything else that removes entries (another method, a loop, another
    lookup); 'none' when nothing is removed"""
    tree = ast.parse(_src(repo, 'django_evolution/evolve/purge_app_task.py'))
    cls = _find_class(tree, 'PurgeAppTask')
    calls = []
    for fn in [n for n in cls.body if isinstance(n, ast.FunctionDef)]:
        for n in ast.walk(fn):
            if isinstance(n, ast.Call) and isinstance(n.func, ast.Attribute) and n.func.attr == 'remove_app_sig':
                calls.append((fn, n))
    if not calls:
        return 'none'
    if len(calls) != 1 or calls[0][0].name != 'prepare':
        return 'other'
    fn, call = calls[0]
    in_loop = any(isinstance(n, (ast.For, ast.While)) and any(c is call for c in ast.walk(n)) for n in ast.walk(fn))
    guard = None
    for n in ast.walk(fn):
        if isinstance(n, ast.If) and any(c is call for st in n.body for c in ast.walk(st)):
            guard = n
    if in_loop or guard is None:
        return 'other'
    m = re.search(r'(\w+)\.is_empty\(\)', ast.unparse(guard.test))
    if not m:
        return 'other'
    var = m.group(1)
    fetched = any(isinstance(n, ast.Assign) and len(n.targets) == 1 and isinstance(n.targets[0], ast.Name) and
                  n.targets[0].id == var and ast.unparse(n.value).endswith('get_app_sig(self.app_label)')
                  for n in ast.walk(fn))
    arg = ast.unparse(call.args[0]) if call.args else ''
    return 'own' if fetched and arg in ('%s.app_id' % var, 'self.app_label') else 'other'


def extract_get_app_id_first(repo):
    """ProjectSignature.get_app_sig looks the app up by its id first (`self._app_sigs.get(app_id)`) and walks the
    legacy labels only when that found nothing"""
    tree = ast.parse(_src(repo, 'django_evolution/signature.py'))
    cls = _find_class(tree, 'ProjectSignature')
    fn = _find_func(cls, 'get_app_sig')
    body = [n for n in fn.body if not (isinstance(n, ast.Expr) and isinstance(n.value, ast.Constant))]
    if len(body) < 2:
        return False
    first, second = body[0], body[1]
    by_id = (isinstance(first, ast.Assign) and ast.unparse(first.value) == 'self._app_sigs.get(app_id)' and
             len(first.targets) == 1 and isinstance(first.targets[0], ast.Name))
    if not by_id:
        return False
    var = first.targets[0].id
    guarded = (isinstance(second, ast.If) and ast.unparse(second.test) == '%s is None' % var and
               any(isinstance(n, ast.For) for n in second.body) and 'legacy_app_label' in ast.unparse(second))
    return bool(guarded)


def extract_delete_model_iteration(repo):
    """DeleteModel.mutate emits one statement per many-to-many field: 'ordered' when the statements are emitted while
    walking `model_sig.field_sigs` itself, 'set' when table names are first collected into a set"""
    tree = ast.parse(_src(repo, 'django_evolution/mutations/delete_model.py'))
    cls = _find_class(tree, 'DeleteModel')
    fn = _find_func(cls, 'mutate')
    if any(isinstance(n, (ast.Set, ast.SetComp)) or
           (isinstance(n, ast.Call) and isinstance(n.func, ast.Name) and n.func.id in ('set', 'frozenset'))
           for n in ast.walk(fn)):
        return 'set'
    for n in ast.walk(fn):
        if isinstance(n, ast.For) and ast.unparse(n.iter).endswith('model_sig.field_sigs') and \
                any(isinstance(c, ast.Call) and isinstance(c.func, ast.Attribute) and c.func.attr == 'delete_table'
                    for c in ast.walk(n)):
            return 'ordered'
    return 'unknown'


def extract_diff_is_empty(repo):
    """Diff.is_empty: `if ignore_apps: return not self.changed / else: return not self.deleted and not self.changed`
    -> 'and'; anything else -> the source text of the non-ignoring return"""
    tree = ast.parse(_src(repo, 'django_evolution/diff.py'))
    cls = _find_class(tree, 'Diff')
    fn = _find_func(cls, 'is_empty')
    rets = [n for n in ast.walk(fn) if isinstance(n, ast.Return) and n.value is not None]
    texts = sorted(ast.unparse(r.value) for r in rets)
    canon = lambda t: ast.unparse(ast.parse(t, mode='eval').body)
    if texts == sorted([canon('not self.changed'), canon('not self.deleted and not self.changed')]) and \
            any(isinstance(n, ast.If) and ast.unparse(n.test) == 'ignore_apps' for n in ast.walk(fn)):
        return 'and'
    return ' | '.join(texts)


def extract_app_sig_is_empty(repo):
    """AppSignature.is_empty: a single `return not bool(self._model_sigs)` (or `not self._model_sigs`) -> 'models';
    anything else -> the source text of what it returns"""
    tree = ast.parse(_src(repo, 'django_evolution/signature.py'))
    cls = _find_class(tree, 'AppSignature')
    fn = _find_func(cls, 'is_empty')
    body = [n for n in fn.body if not (isinstance(n, ast.Expr) and isinstance(getattr(n, 'value', None), ast.Constant))]
    if len(body) == 1 and isinstance(body[0], ast.Return) and body[0].value is not None and \
            ast.unparse(body[0].value) in ('not bool(self._model_sigs)', 'not self._model_sigs'):
        return 'models'
    return ' ; '.join(ast.unparse(n) for n in body)


def extract_batch_yields_own_flag(repo):
    """SQLExecutor._prepare_transaction_batches: a new batch starts when `new_transaction or use_transaction is not
    last_use_transaction`; every `yield` (the one inside the loop and the one after it) hands out
    `(batch, last_use_transaction)` - the flag of the batch being yielded -, the loop then sets
    `last_use_transaction = use_transaction` and appends the statement outside the `if`"""
    tree = ast.parse(_src(repo, 'django_evolution/utils/sql.py'))
    cls = _find_class(tree, 'SQLExecutor')
    fn = _find_func(cls, '_prepare_transaction_batches')
    loops = [n for n in fn.body if isinstance(n, ast.For)]
    if len(loops) != 1:
        raise ExtractError('_prepare_transaction_batches: expected one loop')
    loop = loops[0]
    if ast.unparse(loop.target) != '(statement, params, use_transaction, new_transaction)':
        raise ExtractError('_prepare_transaction_batches: unexpected loop target ' + ast.unparse(loop.target))
    ifs = [n for n in loop.body if isinstance(n, ast.If)]
    if len(ifs) != 1 or len(loop.body) != 2:
        raise ExtractError('_prepare_transaction_batches: expected `if ...:` and one append in the loop')
    cond = ast.unparse(ifs[0].test)
    yields = [ast.unparse(n.value) for n in ast.walk(fn) if isinstance(n, ast.Yield)]
    assigns = [ast.unparse(n) for n in ifs[0].body if isinstance(n, ast.Assign)]
    ok = cond == 'new_transaction or use_transaction is not last_use_transaction' and \
        yields == ['(batch, last_use_transaction)'] * 2 and \
        sorted(assigns) == ['batch = []', 'last_use_transaction = use_transaction'] and \
        ast.unparse(loop.body[1]) == 'batch.append((statement, params))'
    return ok


def extract_mutation_hash_by_id(repo):
    """BaseMutation.__hash__ is `return id(self)` and no mutation class overrides it: membership in the optimiser's
    set of removed mutations (`mutation not in removed_mutations`) is membership by identity - a mutation that
    merely looks like a removed one is not removed with it"""
    import glob
    found = []
    for path in sorted(glob.glob(os.path.join(repo, 'django_evolution', 'mutations', '*.py'))):
        tree = ast.parse(open(path).read())
        for cls in [n for n in ast.walk(tree) if isinstance(n, ast.ClassDef)]:
            for fn in [n for n in cls.body if isinstance(n, ast.FunctionDef) and n.name == '__hash__']:
                body = [n for n in fn.body
                        if not (isinstance(n, ast.Expr) and isinstance(getattr(n, 'value', None), ast.Constant))]
                found.append((cls.name, ' ; '.join(ast.unparse(n) for n in body)))
    return found == [('BaseMutation', 'return id(self)')]


def extract_q_sig_kwargs(repo):
    """QSerialization.serialize_to_signature: which keyword arguments of a Q object are written, under which tests -
    `_connector` whenever the connector is not the default one (whatever it is: OR, XOR), `_negated` when negated"""
    tree = ast.parse(_src(repo, 'django_evolution/serialization.py'))
    cls = _find_class(tree, 'QSerialization')
    fn = _find_func(cls, 'serialize_to_signature')
    out = []
    for n in ast.walk(fn):
        if isinstance(n, ast.If):
            for b in n.body:
                if isinstance(b, ast.Assign) and len(b.targets) == 1 and ast.unparse(b.targets[0]).startswith('kwargs['):
                    out.append('%s: %s = %s' % (ast.unparse(n.test), ast.unparse(b.targets[0]), ast.unparse(b.value)))
    return sorted(out)


def extract_upgrade_method_identity_tests(repo):
    """every comparison of an upgrade method with one of the UpgradeMethod constants (signature.py,
    evolve_app_task.py, evolver.py, diff.py) is by value (==, !=): a value read back from the database is an equal
    string, not the same object.  Returns the comparisons that go by identity (`is` / `is not` against anything but
    None)."""
    bad = []
    for rel in ('django_evolution/signature.py', 'django_evolution/evolve/evolve_app_task.py',
                'django_evolution/evolve/evolver.py', 'django_evolution/diff.py'):
        tree = ast.parse(_src(repo, rel))
        for n in ast.walk(tree):
            if isinstance(n, ast.Compare):
                txt = ast.unparse(n)
                if 'upgrade_method' not in txt and 'UpgradeMethod' not in txt:
                    continue
                operands = [n.left] + list(n.comparators)
                for op, a, b in zip(n.ops, operands, operands[1:]):
                    if isinstance(op, (ast.Is, ast.IsNot)) and 'None' not in (ast.unparse(a), ast.unparse(b)):
                        bad.append('%s: %s' % (rel.split('/')[-1], txt))
    return sorted(set(bad))


def extract_clone_omits(repo):
    """signature.py: for every signature class with a clone() that constructs the class by keywords - the constructor
    parameters that clone() neither passes nor assigns afterwards (`cloned._x = self._x`): a clone that forgets one is
    not a copy.  Returns "Class.param" strings."""
    tree = ast.parse(_src(repo, 'django_evolution/signature.py'))
    out = []
    for cls in [n for n in tree.body if isinstance(n, ast.ClassDef)]:
        fns = {f.name: f for f in cls.body if isinstance(f, ast.FunctionDef)}
        if 'clone' not in fns or '__init__' not in fns:
            continue
        params = [a.arg for a in fns['__init__'].args.args if a.arg != 'self']
        calls = [n for n in ast.walk(fns['clone']) if isinstance(n, ast.Call) and
                 ast.unparse(n.func) in (cls.name, 'cls', 'type(self)', 'self.__class__')]
        if len(calls) != 1:
            raise ExtractError('%s.clone: expected one construction of the class' % cls.name)
        if calls[0].args:
            raise ExtractError('%s.clone: positional arguments in the construction' % cls.name)
        passed = set(k.arg for k in calls[0].keywords)
        for n in ast.walk(fns['clone']):
            if isinstance(n, ast.Assign) and len(n.targets) == 1 and isinstance(n.targets[0], ast.Attribute):
                passed.add(n.targets[0].attr.lstrip('_'))
        # sub-signatures are added one by one after the construction (add_app_sig, add_model_sig, ...)
        out += ['%s.%s' % (cls.name, p_) for p_ in params if p_ not in passed]
    return sorted(out)


def extract_meta_slots(repo):
    """AppMutator._process_mutation_batch: every `if`/`elif` on `mutation.prop_name == '<prop>'` with the tables it
    tests, writes and reads for that property - "the last ChangeMeta of a property wins" keeps ONE table per property.
    Returns strings "<prop>: <sorted table names>", one per test, in source order."""
    tree = ast.parse(_src(repo, 'django_evolution/mutators/app_mutator.py'))
    cls = _find_class(tree, 'AppMutator')
    fn = _find_func(cls, '_process_mutation_batch')
    out = []
    for n in ast.walk(fn):
        if not isinstance(n, ast.If):
            continue
        test = ast.unparse(n.test)
        props = re.findall(r"mutation\.prop_name == '(\w+)'", test)
        if len(props) != 1:
            if 'mutation.prop_name' in test:
                out.append('?: ' + test)      # a test on the property of another shape: shown as it is
            continue
        tables = set()
        for m in [n.test] + n.body:
            for x in ast.walk(m):
                if isinstance(x, ast.Subscript) and ast.unparse(x.slice) == 'mutation.model_name':
                    tables.add(ast.unparse(x.value))
                if isinstance(x, ast.Compare) and ast.unparse(x.left) == 'mutation.model_name' and \
                        isinstance(x.ops[0], (ast.In, ast.NotIn)):
                    tables.add(ast.unparse(x.comparators[0]))
        out.append('%s: %s' % (props[0], ','.join(sorted(tables))))
    return out


def extract_current_version_without_alias(repo):
    """the library code that runs for ONE database (django_evolution/evolve/*.py, utils/evolutions.py): calls of
    `current_version(...)` that do not say which database (`using=`) - each would read the default database's stored
    signature while another database is being evolved"""
    import glob
    out = []
    files = sorted(glob.glob(os.path.join(repo, 'django_evolution', 'evolve', '*.py'))) + \
        [os.path.join(repo, 'django_evolution', 'utils', 'evolutions.py')]
    for path in files:
        tree = ast.parse(open(path).read())
        for fn in [n for n in ast.walk(tree) if isinstance(n, ast.FunctionDef)]:
            for n in ast.walk(fn):
                if isinstance(n, ast.Call) and isinstance(n.func, ast.Attribute) and n.func.attr == 'current_version' and \
                        not any(k.arg == 'using' for k in n.keywords):
                    out.append('%s:%s' % (os.path.basename(path), fn.name))
    return sorted(set(out))


def extract_delete_field_pk_guard(repo):
    """DeleteField.simulate: the test under which the deletion of a field is refused as "a primary key" """
    tree = ast.parse(_src(repo, 'django_evolution/mutations/delete_field.py'))
    cls = _find_class(tree, 'DeleteField')
    fn = _find_func(cls, 'simulate')
    tests = []
    for n in ast.walk(fn):
        if isinstance(n, ast.If) and any('primary key' in ast.unparse(b) for b in n.body):
            tests.append(ast.unparse(n.test))
    if len(tests) != 1:
        raise ExtractError('DeleteField.simulate: expected one primary-key guard, found %d' % len(tests))
    return tests[0]


def extract_merge_lists_dest_first(repo):
    """utils/datastructures.merge_dicts: for a key both dictionaries have, a list is merged by `dest[key] += value`
    (the destination's items first), a dictionary by recursion with (dest[key], value), and a key the destination
    lacks is set to the source's value"""
    tree = ast.parse(_src(repo, 'django_evolution/utils/datastructures.py'))
    fn = _find_func(tree, 'merge_dicts')
    args = [a.arg for a in fn.args.args]
    loops = [n for n in fn.body if isinstance(n, ast.For)]
    if args != ['dest', 'source'] or len(loops) != 1 or ast.unparse(loops[0].iter) != 'six.iteritems(source)':
        raise ExtractError('merge_dicts: unexpected shape')
    aug = [ast.unparse(n) for n in ast.walk(loops[0]) if isinstance(n, ast.AugAssign)]
    rec = [ast.unparse(n) for n in ast.walk(loops[0]) if isinstance(n, ast.Call) and ast.unparse(n.func) == 'merge_dicts']
    plain = [ast.unparse(n) for n in ast.walk(loops[0]) if isinstance(n, ast.Assign)]
    return aug == ['dest[key] += value'] and rec == ['merge_dicts(dest[key], value)'] and plain == ['dest[key] = value']


def extract_batch_merge_body(repo):
    """EvolveAppTask._build_batches: what happens when a graph node has the type of the previous batch
    (`if batch_type == prev_batch_type:`) - the statements of that branch, asserts aside"""
    tree = ast.parse(_src(repo, 'django_evolution/evolve/evolve_app_task.py'))
    cls = _find_class(tree, 'EvolveAppTask')
    fn = _find_func(cls, '_build_batches')
    ifs = [n for n in ast.walk(fn) if isinstance(n, ast.If) and ast.unparse(n.test) == 'batch_type == prev_batch_type']
    if len(ifs) != 1:
        raise ExtractError('_build_batches: expected one `if batch_type == prev_batch_type:`')
    return [ast.unparse(n) for n in ifs[0].body if not isinstance(n, ast.Assert)]


def extract_copy_change_attrs_body(repo):
    """AppMutator._copy_change_attrs: the statements with which a later ChangeField is rolled up into an earlier
    mutation of the same field - attributes updated, type and initial value taken over when they are SET (`is not
    None`: 0, '' and False are values)"""
    tree = ast.parse(_src(repo, 'django_evolution/mutators/app_mutator.py'))
    cls = _find_class(tree, 'AppMutator')
    fn = _find_func(cls, '_copy_change_attrs')
    return [ast.unparse(n).replace('\n', ' ; ') for n in fn.body
            if not (isinstance(n, ast.Expr) and isinstance(getattr(n, 'value', None), ast.Constant))]


def extract_prepare_sql_flags(repo):
    """SQLExecutor._prepare_sql: every assignment to `use_transaction` / `new_transaction` in source order, each with
    the isinstance test it sits under (if any) and whether it follows the `yield` of its block - the flags that
    `_prepare_transaction_batches` cuts the statement stream by"""
    tree = ast.parse(_src(repo, 'django_evolution/utils/sql.py'))
    cls = _find_class(tree, 'SQLExecutor')
    fn = _find_func(cls, '_prepare_sql')
    out = []

    def walk(stmts, test):
        seen_yield = False
        for n in stmts:
            if isinstance(n, ast.Expr) and isinstance(n.value, ast.Yield):
                seen_yield = True
            if isinstance(n, ast.Assign) and len(n.targets) == 1 and \
                    ast.unparse(n.targets[0]) in ('use_transaction', 'new_transaction'):
                out.append('%s%s%s' % (('[%s] ' % test) if test else '', ast.unparse(n), ' (after yield)' if seen_yield else ''))
            elif isinstance(n, ast.Assign) and any(v in ast.unparse(n.targets[0]) for v in ('use_transaction', 'new_transaction')):
                out.append('? ' + ast.unparse(n))
            if isinstance(n, ast.If):
                t = ast.unparse(n.test)
                walk(n.body, t if 'isinstance(statements' in t else test)
                walk(n.orelse, ('not ' + t) if 'isinstance(statements' in t and not (len(n.orelse) == 1 and isinstance(n.orelse[0], ast.If)) else test)
            elif isinstance(n, (ast.For, ast.While, ast.With, ast.Try)):
                walk(n.body, test)
                walk(getattr(n, 'orelse', []), test)
    walk(fn.body, None)
    return out


def extract_rename_model_ref_walk(repo):
    """RenameModel.simulate: how the references to the renamed model are found and rewritten - the two names that are
    compared and assigned, the three nested loops (every app, every model, EVERY field), the test and what its branch
    does.  Flattened to strings in source order."""
    tree = ast.parse(_src(repo, 'django_evolution/mutations/rename_model.py'))
    cls = _find_class(tree, 'RenameModel')
    fn = _find_func(cls, 'simulate')
    out = []
    for n in fn.body:
        if isinstance(n, ast.Assign) and ast.unparse(n.targets[0]) in ('old_related_model', 'new_related_model'):
            out.append(ast.unparse(n))

    def walk(stmts, depth):
        for n in stmts:
            if isinstance(n, ast.For):
                out.append('%sfor %s in %s' % ('  ' * depth, ast.unparse(n.target), ast.unparse(n.iter)))
                walk(n.body, depth + 1)
            elif isinstance(n, ast.If):
                out.append('%sif %s' % ('  ' * depth, ast.unparse(n.test)))
                walk(n.body, depth + 1)
                if n.orelse:
                    out.append('%selse' % ('  ' * depth))
                    walk(n.orelse, depth + 1)
            else:
                out.append('%s%s' % ('  ' * depth, ast.unparse(n)))
    loops = [n for n in fn.body if isinstance(n, ast.For)]
    if len(loops) != 1:
        raise ExtractError('RenameModel.simulate: expected one top-level loop (the reference walk)')
    walk(loops, 0)
    return out


def extract_add_dependency_body(repo):
    """DependencyGraph.add_dependency: every requirement handed in is recorded - the statements of the method,
    asserts aside"""
    tree = ast.parse(_src(repo, 'django_evolution/utils/graph.py'))
    cls = _find_class(tree, 'DependencyGraph')
    fn = _find_func(cls, 'add_dependency')
    return [ast.unparse(n) for n in fn.body if not isinstance(n, ast.Assert) and
            not (isinstance(n, ast.Expr) and isinstance(getattr(n, 'value', None), ast.Constant))]


def extract_purge_queue_body(repo):
    """Evolver.queue_purge_old_apps: which apps a purge is queued for - the statements of the method"""
    tree = ast.parse(_src(repo, 'django_evolution/evolve/evolver.py'))
    cls = _find_class(tree, 'Evolver')
    fn = _find_func(cls, 'queue_purge_old_apps')
    return [ast.unparse(n).replace('\n', ' ; ') for n in fn.body
            if not (isinstance(n, ast.Expr) and isinstance(getattr(n, 'value', None), ast.Constant))]


def extract_is_mutable_database(repo):
    """BaseModelMutation.is_mutable: the database a model's mutation is attributed to (the assignment to `db_name`)
    and what is returned"""
    tree = ast.parse(_src(repo, 'django_evolution/mutations/base.py'))
    cls = _find_class(tree, 'BaseModelMutation')
    fn = _find_func(cls, 'is_mutable')
    out = []
    for n in ast.walk(fn):
        if isinstance(n, ast.Assign) and ast.unparse(n.targets[0]) == 'db_name':
            out.append(ast.unparse(n))
        if isinstance(n, ast.Return):
            out.append(ast.unparse(n))
    return out


def extract_initial_value_rule(repo):
    """Diff._get_initial_value: the test under which a hinted mutation takes the field's own default instead of
    asking the user for a value"""
    tree = ast.parse(_src(repo, 'django_evolution/diff.py'))
    cls = _find_class(tree, 'Diff')
    fn = _find_func(cls, '_get_initial_value')
    tests = [ast.unparse(n.test) for n in ast.walk(fn) if isinstance(n, ast.If) and
             any(isinstance(b, ast.Return) and 'get_default' in ast.unparse(b) for b in n.body)]
    if len(tests) != 1:
        raise ExtractError('_get_initial_value: expected one test that returns field.get_default()')
    return tests[0]


def extract_together_state_calls(repo):
    """BaseEvolutionOperations.change_meta_unique_together / change_meta_index_together: the calls with which an entry
    that goes away is dropped and an entry that arrives is created - every drop also takes the index out of the
    tracked DatabaseState (directly, or through drop_index_by_name which does), every creation puts it in (directly,
    or through create_unique_index / create_index which do).  Returns "<function>: <calls in source order>"."""
    tree = ast.parse(_src(repo, 'django_evolution/db/common.py'))
    cls = _find_class(tree, 'BaseEvolutionOperations')
    names = ('drop_index_by_name', 'get_drop_index_sql', 'get_drop_unique_constraint_sql', 'remove_index', 'add_index',
             'create_unique_index', 'create_index', 'get_new_index_name', 'get_default_index_together_name')
    out = []
    for fname in ('change_meta_unique_together', 'change_meta_index_together', 'drop_index_by_name'):
        fn = _find_func(cls, fname)
        calls = []
        for n in ast.walk(fn):
            if isinstance(n, ast.Call) and isinstance(n.func, ast.Attribute) and n.func.attr in names:
                calls.append((n.lineno, n.col_offset, n.func.attr))
        out.append('%s: %s' % (fname, ', '.join(c[2] for c in sorted(calls))))
    return out


def extract_found_reset_per_label(repo):
    """get_app_mutations: the flag that says "an SQL file was found for this label" is set to False INSIDE the loop
    over the labels (once per label), so that a label without an SQL file falls back to its Python module whatever
    the labels before it had"""
    tree = ast.parse(_src(repo, 'django_evolution/utils/evolutions.py'))
    fn = _find_func(tree, 'get_app_mutations')
    loops = [n for n in ast.walk(fn) if isinstance(n, ast.For) and ast.unparse(n.iter) == 'evolution_labels']
    if len(loops) != 1:
        raise ExtractError('get_app_mutations: expected one loop over evolution_labels')
    loop = loops[0]
    # the name tested by `if not <flag>:` in the loop body
    flags = [ast.unparse(n.test.operand) for n in loop.body
             if isinstance(n, ast.If) and isinstance(n.test, ast.UnaryOp) and isinstance(n.test.op, ast.Not)]
    if len(flags) != 1:
        raise ExtractError('get_app_mutations: expected one `if not <flag>:` in the loop over the labels')
    flag = flags[0]
    return any(isinstance(n, ast.Assign) and len(n.targets) == 1 and ast.unparse(n.targets[0]) == flag and
               ast.unparse(n.value) == 'False' for n in loop.body)


def extract_mutation_loads_pass_database(repo):
    """EvolveAppTask: every call of get_app_pending_mutations / get_app_mutations (the preview's in `prepare`, the
    execution's in `_build_batches`) hands on `database=database_name`, and `database_name` is
    `evolver.database_name` in both methods"""
    tree = ast.parse(_src(repo, 'django_evolution/evolve/evolve_app_task.py'))
    cls = _find_class(tree, 'EvolveAppTask')
    sites = []
    for fn in [n for n in ast.walk(cls) if isinstance(n, ast.FunctionDef)]:
        for n in ast.walk(fn):
            if isinstance(n, ast.Call) and ast.unparse(n.func) in ('get_app_pending_mutations', 'get_app_mutations'):
                kw = {k.arg: ast.unparse(k.value) for k in n.keywords}
                src = [ast.unparse(a.value) for a in ast.walk(fn)
                       if isinstance(a, ast.Assign) and len(a.targets) == 1 and
                       ast.unparse(a.targets[0]) == kw.get('database', '')]
                sites.append((fn.name, kw.get('database'), sorted(set(src))))
    names = sorted(set(f for f, _, _ in sites))
    ok = bool(sites) and {'prepare', '_build_batches'} <= set(names) and \
        all(db == 'database_name' and src == ['evolver.database_name'] for _, db, src in sites)
    return ok


def extract_attr_value_by_presence(repo):
    """FieldSignature.get_attr_value returns the stored value whenever the key is in field_attrs (a subscript inside
    `try`, the default only under `except KeyError`) - whatever the value, falsy ones included"""
    tree = ast.parse(_src(repo, 'django_evolution/signature.py'))
    cls = _find_class(tree, 'FieldSignature')
    fn = _find_func(cls, 'get_attr_value')
    body = [n for n in fn.body if not (isinstance(n, ast.Expr) and isinstance(getattr(n, 'value', None), ast.Constant))]
    if len(body) != 1 or not isinstance(body[0], ast.Try):
        return False
    t = body[0]
    ok_try = len(t.body) == 1 and isinstance(t.body[0], ast.Return) and \
        ast.unparse(t.body[0].value) == 'self.field_attrs[attr_name]'
    ok_exc = len(t.handlers) == 1 and t.handlers[0].type is not None and ast.unparse(t.handlers[0].type) == 'KeyError'
    return bool(ok_try and ok_exc and not t.orelse and not t.finalbody)


def extract_index_fields_default(repo):
    """IndexSignature.deserialize: what a missing `fields` key is read as ('None' when `.get('fields')` has no
    default; else the source text of the default)"""
    tree = ast.parse(_src(repo, 'django_evolution/signature.py'))
    cls = _find_class(tree, 'IndexSignature')
    fn = _find_func(cls, 'deserialize')
    for n in ast.walk(fn):
        if isinstance(n, ast.Call) and isinstance(n.func, ast.Attribute) and n.func.attr == 'get' and n.args and \
                isinstance(n.args[0], ast.Constant) and n.args[0].value == 'fields':
            return 'None' if len(n.args) == 1 and not n.keywords else ast.unparse(n.args[1] if len(n.args) > 1 else n.keywords[0].value)
    raise ExtractError("IndexSignature.deserialize: no .get('fields') found")


def extract_copy_guards(repo):
    """SQLiteAlterTableSQLResult.to_sql: (a) the tests under which an item's initial value is registered in
    `new_initial` (one per `new_initial[...] = initial` assignment: the innermost enclosing `if`), and the test of
    the `if` that encloses the whole body of the loop over `new_initial`; (b) the test that chooses
    `coalesce(col, %s)` over a bare `%s` for a bound initial value"""
    tree = ast.parse(_src(repo, 'django_evolution/db/sqlite3.py'))
    cls = _find_class(tree, 'SQLiteAlterTableSQLResult')
    fn = _find_func(cls, 'to_sql')
    parents = {}
    for n in ast.walk(fn):
        for c in ast.iter_child_nodes(n):
            parents[c] = n
    guards = []
    for n in ast.walk(fn):
        if isinstance(n, ast.Assign) and len(n.targets) == 1 and isinstance(n.targets[0], ast.Subscript) and \
                ast.unparse(n.targets[0].value) == 'new_initial':
            p = parents.get(n)
            while p is not None and not isinstance(p, ast.If):
                p = parents.get(p)
            guards.append(ast.unparse(p.test) if p is not None and n in p.body else '<unguarded>')
    loop = [n for n in ast.walk(fn) if isinstance(n, ast.For) and 'new_initial' in ast.unparse(n.iter)]
    if len(loop) != 1:
        raise ExtractError('to_sql: expected one loop over new_initial')
    body = [st for st in loop[0].body if not isinstance(st, ast.Expr)]
    loop_guard = ast.unparse(body[0].test) if len(body) == 1 and isinstance(body[0], ast.If) and not body[0].orelse \
        else '<none>'
    coalesce = []
    for n in ast.walk(loop[0]):
        if isinstance(n, ast.If) and any(isinstance(c, ast.Constant) and isinstance(c.value, str) and 'coalesce(' in c.value
                                         for st in n.body for c in ast.walk(st)) and \
                not any(isinstance(x, ast.If) for st in n.body for x in ast.walk(st)):
            coalesce.append(ast.unparse(n.test))
    return {'register': sorted(set(guards)), 'loop_guard': loop_guard, 'coalesce': sorted(set(coalesce))}


def extract_new_models_decided_by(repo):
    """EvolveAppTask.prepare: `use_migrations = supports_migrations and <name> == UpgradeMethod.MIGRATIONS` - which
    name decides whether the tables of new models are created by the package or left to the app's migrations"""
    tree = ast.parse(_src(repo, 'django_evolution/evolve/evolve_app_task.py'))
    cls = _find_class(tree, 'EvolveAppTask')
    fn = _find_func(cls, 'prepare')
    found = []
    for n in ast.walk(fn):
        if isinstance(n, ast.Assign) and len(n.targets) == 1 and ast.unparse(n.targets[0]) == 'use_migrations':
            for c in ast.walk(n.value):
                if isinstance(c, ast.Compare) and len(c.ops) == 1 and isinstance(c.ops[0], ast.Eq) and \
                        ast.unparse(c.comparators[0]) == 'UpgradeMethod.MIGRATIONS':
                    found.append(ast.unparse(c.left))
    if len(found) != 1:
        raise ExtractError('EvolveAppTask.prepare: expected one `use_migrations = ... <x> == UpgradeMethod.MIGRATIONS`')
    return found[0]


def extract_create_models_pass_database(repo):
    """every sql_create_models(...) call of EvolveAppTask passes db_name=database_name, with database_name taken from
    evolver.database_name in that method"""
    tree = ast.parse(_src(repo, 'django_evolution/evolve/evolve_app_task.py'))
    cls = _find_class(tree, 'EvolveAppTask')
    sites = []
    for fn in [n for n in ast.walk(cls) if isinstance(n, ast.FunctionDef)]:
        for n in ast.walk(fn):
            if isinstance(n, ast.Call) and ast.unparse(n.func) == 'sql_create_models':
                kw = {k.arg: ast.unparse(k.value) for k in n.keywords}
                src = sorted(set(ast.unparse(a.value) for a in ast.walk(fn)
                                 if isinstance(a, ast.Assign) and len(a.targets) == 1 and
                                 ast.unparse(a.targets[0]) == kw.get('db_name', '')))
                sites.append((kw.get('db_name'), src))
    return bool(sites) and all(db == 'database_name' and src == ['evolver.database_name'] for db, src in sites)


def extract_deleted_apps_lookup(repo):
    """ProjectSignature.diff finds the counterpart of a stored app with get_app_sig (id first, then legacy label):
    'get_app_sig'; a plain dictionary lookup by id -> 'by_id'; else 'unknown'"""
    tree = ast.parse(_src(repo, 'django_evolution/signature.py'))
    cls = _find_class(tree, 'ProjectSignature')
    fn = _find_func(cls, 'diff')
    for n in ast.walk(fn):
        if isinstance(n, ast.Assign) and len(n.targets) == 1 and isinstance(n.targets[0], ast.Name) and \
                n.targets[0].id == 'new_app_sig':
            t = ast.unparse(n.value)
            if t == 'self.get_app_sig(old_app_sig.app_id)':
                return 'get_app_sig'
            if '_app_sigs' in t:
                return 'by_id'
            return 'unknown'
    return 'unknown'


def extract_applied_migrations_key(repo):
    """the AppSignature.applied_migrations setter keeps the entries of a MigrationList whose app_label equals
    self.<key>"""
    tree = ast.parse(_src(repo, 'django_evolution/signature.py'))
    cls = _find_class(tree, 'AppSignature')
    for fn in [n for n in cls.body if isinstance(n, ast.FunctionDef) and n.name == 'applied_migrations']:
        for n in ast.walk(fn):
            if isinstance(n, ast.Compare) and ast.unparse(n.left) == "info['app_label']" and len(n.comparators) == 1:
                t = ast.unparse(n.comparators[0])
                if t.startswith('self.'):
                    return t[5:]
    return 'unknown'


def extract_optimizer_copies(repo):
    """AppMutator._preprocess_mutations rebinds `mutations` to a deep copy before anything else uses it"""
    tree = ast.parse(_src(repo, 'django_evolution/mutators/app_mutator.py'))
    cls = _find_class(tree, 'AppMutator')
    fn = _find_func(cls, '_preprocess_mutations')
    body = [n for n in fn.body if not (isinstance(n, ast.Expr) and isinstance(n.value, ast.Constant))]
    if not body:
        return False
    first = body[0]
    return (isinstance(first, ast.Assign) and len(first.targets) == 1 and isinstance(first.targets[0], ast.Name) and
            first.targets[0].id == 'mutations' and isinstance(first.value, ast.Call) and
            ast.unparse(first.value.func) == 'copy.deepcopy' and len(first.value.args) == 1 and
            isinstance(first.value.args[0], ast.Name) and first.value.args[0].id == 'mutations')


def extract_diff_evolutions_args(repo):
    """the two arguments of the `Diff(...)` that Evolver.diff_evolutions() returns, as source text"""
    tree = ast.parse(_src(repo, 'django_evolution/evolve/evolver.py'))
    cls = _find_class(tree, 'Evolver')
    fn = _find_func(cls, 'diff_evolutions')
    for n in ast.walk(fn):
        if isinstance(n, ast.Return) and isinstance(n.value, ast.Call) and isinstance(n.value.func, ast.Name) and \
                n.value.func.id == 'Diff' and len(n.value.args) == 2 and not n.value.keywords:
            return ast.unparse(n.value.args[0]), ast.unparse(n.value.args[1])
    raise ExtractError('Evolver.diff_evolutions does not end in `return Diff(a, b)`')


def regenerate(repo, outdir):
    os.makedirs(outdir, exist_ok=True)
    flags = {}
    parts = ['/-! GENERATED by tools/vlib/extract.py from /repo — do not edit. -/', '',
             'namespace DEvo.Generated', '']
    mergeable = extract_mergeable_ops(repo)
    flags['mergeable_ops'] = mergeable
    parts.append('/-- `BaseEvolutionOperations.mergeable_ops` (django_evolution/db/common.py) -/')
    parts.append('def mergeableOps : List String := ' + lean_list(lean_str(o) for o in mergeable))
    rebuild, other = extract_rebuild_items(repo)
    flags['rebuild_items'] = rebuild
    parts.append('')
    parts.append('/-- alter-table item ops for which `SQLiteAlterTableSQLResult.to_sql` sets `needs_rebuild` -/')
    parts.append('def rebuildItems : List String := ' + lean_list(lean_str(o) for o in rebuild))
    parts.append('/-- item ops it handles without a rebuild -/')
    parts.append('def nonRebuildItems : List String := ' + lean_list(lean_str(o) for o in other))
    defaults, nonlit = extract_attr_defaults(repo)
    flags['attr_defaults_nonliteral'] = nonlit
    parts.append('')
    parts.append('/-- `FieldSignature._ATTRIBUTE_DEFAULTS` (django_evolution/signature.py); values are JSON text -/')
    parts.append('def attrDefaults : List (String × List (String × String)) := ' + lean_list(
        '(%s, %s)' % (lean_str(k), lean_list('(%s, %s)' % (lean_str(a), lean_str(v)) for a, v in ents))
        for k, ents in defaults))
    seps = extract_q_separators(repo)
    flags['q_separators'] = seps
    parts.append('')
    parts.append('/-- `QSerialization.child_separators` (django_evolution/serialization.py) -/')
    parts.append('def qSeparators : List (String × String) := ' + lean_list(
        '(%s, %s)' % (lean_str(k), lean_str(v)) for k, v in seps))
    da = extract_diff_evolutions_args(repo)
    flags['diff_evolutions_args'] = list(da)
    parts.append('')
    parts.append('/-- arguments of the `Diff(...)` returned by `Evolver.diff_evolutions` -/')
    parts.append('def diffEvolutionsArgs : String × String := (%s, %s)' % (lean_str(da[0]), lean_str(da[1])))
    oc = extract_optimizer_copies(repo)
    flags['optimizer_copies'] = oc
    parts.append('')
    parts.append('/-- AppMutator._preprocess_mutations starts with `mutations = copy.deepcopy(mutations)` -/')
    parts.append('def optimizerCopies : Bool := ' + ('true' if oc else 'false'))
    ral = extract_rename_app_label_fixed(repo)
    flags['rename_app_label_fixed'] = ral
    parts.append('')
    parts.append('/-- RenameAppLabel.simulate splits references into (label, model) before comparing them -/')
    parts.append('def renameAppLabelFixed : Bool := ' + ('true' if ral else 'false'))
    gv = extract_graph_validates(repo)
    flags['graph_validates'] = gv
    parts.append('')
    parts.append('/-- DependencyGraph.get_ordered raises when its result is incomplete or violates a dependency -/')
    parts.append('def graphValidates : Bool := ' + ('true' if gv else 'false'))
    pyr = extract_py_rendering(repo)
    flags['py_rendering'] = pyr
    parts.append('/-- the single-child branch of QSerialization.serialize_to_python passes a Q child positionally and keeps a non-default connector -/')
    parts.append('def qSingleChildFull : Bool := ' + ('true' if pyr['q_single_child_full'] else 'false'))
    parts.append('/-- `CombinedExpressionSerialization._python_operators` / `_python_methods` (as consulted by serialize_to_python) -/')
    parts.append('def combOperators : List (String × String) := ' + lean_list(
        '(%s, %s)' % (lean_str(k), lean_str(v)) for k, v in pyr['comb_operators']))
    parts.append('def combMethods : List (String × String) := ' + lean_list(
        '(%s, %s)' % (lean_str(k), lean_str(v)) for k, v in pyr['comb_methods']))
    parts.append('/-- DeconstructedSerialization keeps the sub-module path below django.db.models in the written name -/')
    parts.append('def keepSubmodules : Bool := ' + ('true' if pyr['keep_submodules'] else 'false'))
    parts.append('/-- both operands of a CombinedExpression are parenthesised when they are CombinedExpressions -/')
    parts.append('def combParens : Bool := ' + ('true' if pyr['comb_parens'] else 'false'))
    titer = extract_together_iteration(repo)
    flags['together_iteration'] = titer
    parts.append('')
    parts.append('/-- how change_meta_unique_together / change_meta_index_together iterate over their entries -/')
    parts.append('def togetherIteration : String := ' + lean_str(titer))
    abp, aliases = extract_attr_load(repo)
    flags['attr_load_by_presence'] = abp
    parts.append('')
    parts.append('/-- FieldSignature.deserialize loads an attribute when its key is in the stored dictionary -/')
    parts.append('def attrLoadByPresence : Bool := ' + ('true' if abp else 'false'))
    parts.append('/-- `FieldSignature._ATTRIBUTE_ALIASES` -/')
    parts.append('def attrAliases : List (String × String) := ' + lean_list(
        '(%s, %s)' % (lean_str(k), lean_str(v)) for k, v in aliases))
    die = extract_diff_is_empty(repo)
    flags['diff_is_empty'] = die
    parts.append('')
    parts.append('/-- Diff.is_empty(ignore_apps=False) = not deleted AND not changed ("and"), or what the source says instead -/')
    parts.append('def diffIsEmpty : String := ' + lean_str(die))
    frl = extract_found_reset_per_label(repo)
    flags['found_reset_per_label'] = frl
    parts.append('/-- get_app_mutations forgets, for every label, whether an earlier label was shipped as an SQL file -/')
    parts.append('def foundResetPerLabel : Bool := ' + ('true' if frl else 'false'))
    tsc = extract_together_state_calls(repo)
    flags['together_state_calls'] = tsc
    parts.append('/-- how unique_together / index_together changes drop and create their indexes (calls in source order) -/')
    parts.append('def togetherStateCalls : List String := ' + lean_list(lean_str(x) for x in tsc))
    pqb = extract_purge_queue_body(repo)
    flags['purge_queue_body'] = pqb
    parts.append('/-- Evolver.queue_purge_old_apps -/')
    parts.append('def purgeQueueBody : List String := ' + lean_list(lean_str(x) for x in pqb))
    imd = extract_is_mutable_database(repo)
    flags['is_mutable_database'] = imd
    parts.append('/-- BaseModelMutation.is_mutable: the database a mutation is attributed to, and the answers -/')
    parts.append('def isMutableDatabase : List String := ' + lean_list(lean_str(x) for x in imd))
    ivr = extract_initial_value_rule(repo)
    flags['initial_value_rule'] = ivr
    parts.append('/-- Diff._get_initial_value: when the field\'s own default is taken -/')
    parts.append('def initialValueRule : String := ' + lean_str(ivr))
    rmw = extract_rename_model_ref_walk(repo)
    flags['rename_model_ref_walk'] = rmw
    parts.append('/-- RenameModel.simulate: the walk that re-points references to the renamed model -/')
    parts.append('def renameModelRefWalk : List String := ' + lean_list(lean_str(x) for x in rmw))
    adb = extract_add_dependency_body(repo)
    flags['add_dependency_body'] = adb
    parts.append('/-- DependencyGraph.add_dependency, asserts aside -/')
    parts.append('def addDependencyBody : List String := ' + lean_list(lean_str(x) for x in adb))
    psf = extract_prepare_sql_flags(repo)
    flags['prepare_sql_flags'] = psf
    parts.append('/-- SQLExecutor._prepare_sql: the assignments to use_transaction / new_transaction -/')
    parts.append('def prepareSqlFlags : List String := ' + lean_list(lean_str(x) for x in psf))
    cca = extract_copy_change_attrs_body(repo)
    flags['copy_change_attrs_body'] = cca
    parts.append('/-- AppMutator._copy_change_attrs, statement by statement -/')
    parts.append('def copyChangeAttrsBody : List String := ' + lean_list(lean_str(x) for x in cca))
    mdf = extract_merge_lists_dest_first(repo)
    flags['merge_lists_dest_first'] = mdf
    parts.append('/-- merge_dicts concatenates lists destination first, recurses into dictionaries, adds missing keys -/')
    parts.append('def mergeListsDestFirst : Bool := ' + ('true' if mdf else 'false'))
    bmb = extract_batch_merge_body(repo)
    flags['batch_merge_body'] = bmb
    parts.append('/-- _build_batches: the branch that folds a graph node into the previous batch of the same type -/')
    parts.append('def batchMergeBody : List String := ' + lean_list(lean_str(x) for x in bmb))
    cvw = extract_current_version_without_alias(repo)
    flags['current_version_without_alias'] = cvw
    parts.append('/-- per-database library code that asks for the current version without naming the database -/')
    parts.append('def currentVersionWithoutAlias : List String := ' + lean_list(lean_str(x) for x in cvw))
    pkg = extract_delete_field_pk_guard(repo)
    flags['delete_field_pk_guard'] = pkg
    parts.append('/-- DeleteField.simulate refuses the deletion under this test -/')
    parts.append('def deleteFieldPkGuard : String := ' + lean_str(pkg))
    msl = extract_meta_slots(repo)
    flags['meta_slots'] = msl
    parts.append('/-- the optimiser: per test on a ChangeMeta property, the tables it tests, writes and reads -/')
    parts.append('def metaSlots : List String := ' + lean_list(lean_str(x) for x in msl))
    clo = extract_clone_omits(repo)
    flags['clone_omits'] = clo
    parts.append('/-- constructor parameters of the signature classes that their clone() neither passes nor assigns -/')
    parts.append('def cloneOmits : List String := ' + lean_list(lean_str(x) for x in clo))
    umi = extract_upgrade_method_identity_tests(repo)
    flags['upgrade_method_identity_tests'] = umi
    parts.append('/-- comparisons of an upgrade method with a constant that go by object identity (there should be none) -/')
    parts.append('def upgradeMethodIdentityTests : List String := ' + lean_list(lean_str(x) for x in umi))
    qsk = extract_q_sig_kwargs(repo)
    flags['q_sig_kwargs'] = qsk
    parts.append('/-- QSerialization.serialize_to_signature: the keyword arguments written for a Q object, with their tests -/')
    parts.append('def qSigKwargs : List String := ' + lean_list(lean_str(x) for x in qsk))
    mhi = extract_mutation_hash_by_id(repo)
    flags['mutation_hash_by_id'] = mhi
    parts.append('/-- mutations hash by identity: `mutation in removed_mutations` never matches a look-alike -/')
    parts.append('def mutationHashById : Bool := ' + ('true' if mhi else 'false'))
    byf = extract_batch_yields_own_flag(repo)
    flags['batch_yields_own_flag'] = byf
    parts.append('/-- _prepare_transaction_batches hands every batch out with the flag of its own statements -/')
    parts.append('def batchYieldsOwnFlag : Bool := ' + ('true' if byf else 'false'))
    mlp = extract_mutation_loads_pass_database(repo)
    flags['mutation_loads_pass_database'] = mlp
    parts.append('/-- EvolveAppTask.prepare (preview) and _build_batches (execution) load the mutations for evolver.database_name -/')
    parts.append('def mutationLoadsPassDatabase : Bool := ' + ('true' if mlp else 'false'))
    avp = extract_attr_value_by_presence(repo)
    flags['attr_value_by_presence'] = avp
    parts.append('/-- FieldSignature.get_attr_value returns the stored value whenever the key is present -/')
    parts.append('def attrValueByPresence : Bool := ' + ('true' if avp else 'false'))
    ifd = extract_index_fields_default(repo)
    flags['index_fields_default'] = ifd
    parts.append('/-- what IndexSignature.deserialize reads a missing `fields` key as -/')
    parts.append('def indexFieldsDefault : String := ' + lean_str(ifd))
    cg = extract_copy_guards(repo)
    flags['copy_guards'] = cg
    parts.append('/-- SQLite rebuild: the tests under which an initial value is registered for the copy, the test around the '
                 'body of the loop that turns registered values into SELECT expressions, and the test that picks '
                 'coalesce(column, ?) over a bare placeholder -/')
    parts.append('def copyRegisterGuards : List String := ' + lean_list(lean_str(g) for g in cg['register']))
    parts.append('def copyLoopGuard : String := ' + lean_str(cg['loop_guard']))
    parts.append('def copyCoalesceTests : List String := ' + lean_list(lean_str(g) for g in cg['coalesce']))
    nmd = extract_new_models_decided_by(repo)
    flags['new_models_decided_by'] = nmd
    parts.append('/-- the value EvolveAppTask.prepare compares with UpgradeMethod.MIGRATIONS to leave new models to migrations -/')
    parts.append('def newModelsDecidedBy : String := ' + lean_str(nmd))
    cmp_ = extract_create_models_pass_database(repo)
    flags['create_models_pass_database'] = cmp_
    parts.append('/-- every sql_create_models call of EvolveAppTask generates its SQL for evolver.database_name -/')
    parts.append('def createModelsPassDatabase : Bool := ' + ('true' if cmp_ else 'false'))
    aie = extract_app_sig_is_empty(repo)
    flags['app_sig_is_empty'] = aie
    parts.append('/-- what AppSignature.is_empty() looks at: "models" (no model entries left), or what the source says instead -/')
    parts.append('def appSigIsEmpty : String := ' + lean_str(aie))
    dal = extract_deleted_apps_lookup(repo)
    flags['deleted_apps_lookup'] = dal
    parts.append('/-- how ProjectSignature.diff finds the current counterpart of a stored app -/')
    parts.append('def deletedAppsLookup : String := ' + lean_str(dal))
    amk = extract_applied_migrations_key(repo)
    flags['applied_migrations_key'] = amk
    parts.append('/-- the attribute of AppSignature that the applied_migrations setter matches a recorded migration\'s app label with -/')
    parts.append('def appliedMigrationsKey : String := ' + lean_str(amk))
    gaf = extract_get_app_id_first(repo)
    flags['get_app_id_first'] = gaf
    parts.append('')
    parts.append('/-- ProjectSignature.get_app_sig: an exact app id takes precedence over a legacy label -/')
    parts.append('def getAppIdFirst : Bool := ' + ('true' if gaf else 'false'))
    dmi = extract_delete_model_iteration(repo)
    flags['delete_model_iteration'] = dmi
    parts.append('/-- how DeleteModel.mutate walks the many-to-many tables it drops -/')
    parts.append('def deleteModelIteration : String := ' + lean_str(dmi))
    pc = extract_purge_cleanup(repo)
    flags['purge_cleanup'] = pc
    parts.append('')
    parts.append('/-- which signature entries PurgeAppTask removes: "own" (the purged app\'s, when it is empty), "other", "none" -/')
    parts.append('def purgeCleanup : String := ' + lean_str(pc))
    ado = extract_attr_default_order(repo)
    flags['attr_default_type_first'] = ado
    parts.append('')
    parts.append('/-- FieldSignature.get_attr_default consults the field type\'s own defaults before the generic ones -/')
    parts.append('def attrDefaultTypeFirst : Bool := ' + ('true' if ado else 'false'))
    cane = extract_collects_all_new_evolutions(repo)
    flags['collects_all_new_evolutions'] = cane
    parts.append('')
    parts.append('/-- Evolver.evolve hands the `new_evolutions` of every task of every task class to _save_project_sig -/')
    parts.append('def collectsAllNewEvolutions : Bool := ' + ('true' if cane else 'false'))
    cc = extract_copy_cfg(repo)
    flags['copy_cfg'] = cc
    parts.append('')
    parts.append('/-- SQLite rebuild, loop over `new_initial`: embedded SQL text is coalesced on existing columns / the '
                 'embed-or-bind decision is taken per initial value -/')
    parts.append('def copyEmbedCoalesces : Bool := ' + ('true' if cc['embed_coalesces'] else 'false'))
    parts.append('def copyFlagPerItem : Bool := ' + ('true' if cc['flag_per_item'] else 'false'))
    fkattr = extract_fk_reference_attr(repo)
    flags['fk_reference_attr'] = fkattr
    parts.append('')
    parts.append('/-- `related_model._meta.pk.<attr>` in the REFERENCES clause of `build_column_schema` -/')
    parts.append('def fkReferenceAttr : String := ' + lean_str(fkattr))
    parts += ['', 'end DEvo.Generated', '']
    write_if_changed(os.path.join(outdir, 'Tables.lean'), '\n'.join(parts))
    sk = ['import DEvo.Run.Skel', '', '/-! GENERATED by tools/vlib/extract.py from /repo — do not edit. -/', '',
          'namespace DEvo.Generated', 'open DEvo.Skel', '']
    for lean_name, origin, term in extract_skeletons(repo):
        sk.append('/-- control skeleton of `%s` -/' % origin)
        sk.append('def %s : Stmt :=\n  %s' % (lean_name, term))
        sk.append('')
    sk += ['end DEvo.Generated', '']
    write_if_changed(os.path.join(outdir, 'Skeletons.lean'), '\n'.join(sk))
    return flags
