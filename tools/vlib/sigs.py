"""Signatures and mutations: generators, abstraction functions (real object -> model JSON)
and concretisation (mutation JSON -> real mutation object).

Model JSON of a signature (see lean/DEvo/Codec.lean):
  {"apps":[{"id","legacy","upgrade_method","applied_migrations","models":[{"name","table",
   "pk_column","fields":[{"name","type","attrs":[[k,json]],"related"}],"unique_together",
   "ut_applied","index_together","indexes":[json],"constraints":[json],"comment","tablespace"}]}]}
Attribute values cross the protocol as canonical JSON text.
"""
import json


def _mark_tuples(v):
    if isinstance(v, tuple):
        return {'__tuple__': [_mark_tuples(x) for x in v]}
    if isinstance(v, list):
        return [_mark_tuples(x) for x in v]
    if isinstance(v, dict):
        return dict((k, _mark_tuples(x)) for k, x in v.items())
    return v


def cv(v, tuples=False):
    """canonical JSON text of an attribute value.  With `tuples`, a tuple is written differently from a list (the
    real comparison of constraint / index attributes tells them apart); otherwise tuples become lists."""
    return json.dumps(_mark_tuples(v) if tuples else v, sort_keys=True, default=_default)


def _default(o):
    if isinstance(o, (set, frozenset)):
        return sorted(o)
    return repr(o)


FIELD_TYPES = ['CharField', 'TextField', 'IntegerField', 'BigIntegerField', 'PositiveIntegerField',
               'BooleanField', 'DecimalField', 'DateTimeField', 'ForeignKey', 'OneToOneField',
               'ManyToManyField']


def ftype_cls(name):
    from django.db import models
    cls = getattr(models, name, None)
    if cls is None:
        from . import customfields
        cls = getattr(customfields, name)
    return cls


M2M_TYPES = ('ManyToManyField', 'TagsField')


# ---------------------------------------------------------------------------
# abstraction: real -> model JSON
# ---------------------------------------------------------------------------

def abs_field(fs):
    return {'name': fs.field_name, 'type': fs.field_type.__name__,
            'attrs': [[k, cv(v)] for k, v in fs.field_attrs.items()],
            'related': fs.related_model}


def abs_index(index_sig):
    return cv(index_sig.serialize())


def abs_constraint(constraint_sig):
    return cv(constraint_sig.serialize(), tuples=True)


def abs_model(ms):
    return {'name': ms.model_name, 'table': ms.table_name, 'pk_column': cv(ms.pk_column),
            'fields': [abs_field(f) for f in ms.field_sigs],
            'unique_together': [list(t) for t in ms.unique_together],
            'ut_applied': bool(ms._unique_together_applied),
            'index_together': [list(t) for t in ms.index_together],
            'indexes': [abs_index(i) for i in ms.index_sigs],
            'constraints': [abs_constraint(c) for c in ms.constraint_sigs],
            'comment': cv(ms.db_table_comment), 'tablespace': cv(ms.db_tablespace)}


def abs_app(a):
    am = a.applied_migrations
    return {'id': a.app_id, 'legacy': a.legacy_app_label, 'upgrade_method': a.upgrade_method,
            'applied_migrations': None if am is None else sorted(am),
            'models': [abs_model(m) for m in a.model_sigs]}


def abs_sig(p):
    return {'apps': [abs_app(a) for a in p.app_sigs]}


def norm_sig(js, sort_models=False, sort_attrs=False):
    """canonical form for comparison; `sort_attrs`: the order of a field's attribute dictionary is not content
    (a type-changing ChangeField replaces the dictionary, an ordinary one updates it)"""
    js = json.loads(json.dumps(js))
    if sort_models:
        for a in js['apps']:
            a['models'].sort(key=lambda m: m['name'])
    if sort_attrs:
        for a in js['apps']:
            for m in a['models']:
                for f in m['fields']:
                    f['attrs'] = sorted(f['attrs'])
    return js


# ---------------------------------------------------------------------------
# concretisation: spec -> real signature ; mutation JSON -> real mutation
# ---------------------------------------------------------------------------

def sig_from_spec(spec):
    """spec: {"apps":[{"id","models":[{"name","table","fields":[{"name","type","attrs":{},"related"}],
    "unique_together":[..],"index_together":[..],"indexes":[{...}],"constraints":[{...}]}]}]}"""
    from django_evolution.signature import (AppSignature, FieldSignature, IndexSignature,
                                            ConstraintSignature, ModelSignature, ProjectSignature)
    from django_evolution.consts import UpgradeMethod
    p = ProjectSignature()
    for a in spec['apps']:
        app = AppSignature(app_id=a['id'], legacy_app_label=a.get('legacy'),
                           upgrade_method=a.get('upgrade_method', UpgradeMethod.EVOLUTIONS))
        for m in a['models']:
            pk = [f for f in m['fields'] if f['attrs'].get('primary_key')]
            pkcol = (pk[0]['attrs'].get('db_column') or pk[0]['name']) if pk else 'id'
            ms = ModelSignature(model_name=m['name'], table_name=m['table'], pk_column=pkcol,
                                unique_together=[tuple(t) for t in m.get('unique_together', [])],
                                index_together=[tuple(t) for t in m.get('index_together', [])],
                                unique_together_applied=bool(m.get('ut_applied', True)),
                                db_table_comment=m.get('comment'))
            for f in m['fields']:
                ms.add_field_sig(FieldSignature(field_name=f['name'], field_type=ftype_cls(f['type']),
                                                field_attrs=dict(f['attrs']), related_model=f.get('related')))
            for ix in m.get('indexes', []):
                ms.add_index_sig(index_sig_from_data(ix))
            for c in m.get('constraints', []):
                ms.add_constraint_sig(constraint_sig_from_data(c))
            app.add_model_sig(ms)
        p.add_app_sig(app)
    return p


def index_sig_from_data(index_data):
    """exactly what ChangeMeta.simulate does with one entry of an `indexes` value"""
    from django_evolution.signature import IndexSignature
    attrs = dict(index_data)
    expressions = attrs.pop('expressions', None)
    name = attrs.pop('name', None)
    fields = attrs.pop('fields', None)
    return IndexSignature(attrs=attrs, expressions=expressions, fields=fields, name=name)


def constraint_sig_from_data(data):
    from django_evolution.signature import ConstraintSignature
    attrs = dict(data)
    attrs.pop('name')
    ctype = attrs.pop('type')
    if isinstance(ctype, str):
        from django.db import models
        ctype = getattr(models, ctype)
    return ConstraintSignature(name=data['name'], constraint_type=ctype, attrs=attrs)


def real_mutation(mj):
    from django_evolution import mutations as M
    t = mj['t']
    if t == 'AddField':
        kw = {k: json.loads(v) for k, v in mj['attrs']}
        init = None if mj.get('initial') is None else json.loads(mj['initial'])
        if mj.get('initial_sql') is not None:
            # a callable initial value: its string result is SQL to embed as it is
            init = (lambda text: (lambda: text))(mj['initial_sql'])
        return M.AddField(mj['model'], mj['field'], ftype_cls(mj['ftype']), initial=init, **kw)
    if t == 'ChangeField':
        kw = {k: json.loads(v) for k, v in mj['attrs']}
        init = None if mj.get('initial') is None else json.loads(mj['initial'])
        if mj.get('initial_sql') is not None:
            init = (lambda text: (lambda: text))(mj['initial_sql'])
        ft = ftype_cls(mj['ftype']) if mj.get('ftype') else None
        return M.ChangeField(mj['model'], mj['field'], field_type=ft, initial=init, **kw)
    if t == 'DeleteField':
        return M.DeleteField(mj['model'], mj['field'])
    if t == 'RenameField':
        return M.RenameField(mj['model'], mj['old'], mj['new'], db_column=mj.get('db_column'),
                             db_table=mj.get('db_table'))
    if t == 'ChangeMeta':
        val = mj['py_value']
        if mj['prop'] == 'constraints':
            # replay files keep the constraint class by name
            from django.db import models as _dm
            val = [dict(d, type=getattr(_dm, d['type'])) if isinstance(d.get('type'), str) else d for d in val]
        return M.ChangeMeta(mj['model'], mj['prop'], val)
    if t == 'RenameModel':
        return M.RenameModel(mj['old'], mj['new'], db_table=mj['db_table'])
    if t == 'DeleteModel':
        return M.DeleteModel(mj['model'])
    if t == 'DeleteApplication':
        return M.DeleteApplication()
    if t == 'RenameAppLabel':
        return M.RenameAppLabel(mj['old'], mj['new'], legacy_app_label=mj.get('legacy'),
                                model_names=mj.get('models'))
    if t == 'SQLMutation':
        if mj.get('no_tx_sql'):
            # statements that have to run outside any transaction, after the ordinary ones of the same evolution
            from django_evolution.utils.sql import NoTransactionSQL
            return M.SQLMutation(mj['tag'], [NoTransactionSQL(list(mj['no_tx_sql']))],
                                 update_func=lambda simulation: None)
        if mj.get('can_simulate'):
            return M.SQLMutation(mj['tag'], mj.get('sql', []), update_func=lambda simulation: None)
        return M.SQLMutation(mj['tag'], mj.get('sql', []))
    raise ValueError(t)


def abs_mutation_obj(mu):
    """real mutation object -> model JSON (the inverse of sigs.real_mutation, for hinted lists)"""
    from django_evolution import mutations as M
    from django_evolution.placeholders import BasePlaceholder
    t = type(mu).__name__

    def init(v):
        if v is None:
            return None
        if isinstance(v, BasePlaceholder) or callable(v):
            return '"<<USER VALUE REQUIRED>>"'
        return cv(v)
    if t == 'AddField':
        return {'t': t, 'model': mu.model_name, 'field': mu.field_name, 'ftype': mu.field_type.__name__,
                'initial': init(mu.initial), 'attrs': [[k, cv(v)] for k, v in mu.field_attrs.items()]}
    if t == 'ChangeField':
        return {'t': t, 'model': mu.model_name, 'field': mu.field_name,
                'ftype': mu.field_type.__name__ if mu.field_type else None,
                'initial': init(mu.initial), 'attrs': [[k, cv(v)] for k, v in mu.field_attrs.items()]}
    if t == 'DeleteField':
        return {'t': t, 'model': mu.model_name, 'field': mu.field_name}
    if t == 'DeleteModel':
        return {'t': t, 'model': mu.model_name}
    if t == 'ChangeMeta':
        return model_mutation({'t': t, 'model': mu.model_name, 'prop': mu.prop_name, 'py_value': mu.new_value})
    if t == 'RenameField':
        return {'t': t, 'model': mu.model_name, 'old': mu.old_field_name, 'new': mu.new_field_name,
                'db_column': mu.db_column, 'db_table': mu.db_table}
    if t == 'RenameModel':
        return {'t': t, 'old': mu.old_model_name, 'new': mu.new_model_name, 'db_table': mu.db_table,
                'model_name_attr': mu.model_name}
    if t == 'DeleteApplication':
        return {'t': t}
    if t == 'SQLMutation':
        return {'t': t, 'tag': mu.tag, 'can_simulate': mu.update_func is not None}
    if t == 'RenameAppLabel':
        return {'t': t, 'old': mu.old_app_label, 'new': mu.new_app_label, 'legacy': mu.legacy_app_label,
                'models': None}
    return {'t': t}



def model_mutation(mj):
    """strip harness-only keys; compute the model-side value of ChangeMeta"""
    out = {k: v for k, v in mj.items() if k not in ('py_value', 'sql', 'no_tx_sql')}
    if mj['t'] == 'ChangeMeta':
        prop, val = mj['prop'], mj['py_value']
        if prop in ('unique_together', 'index_together'):
            out['kind'] = 'together'
            out['value'] = norm_together(val)
        elif prop == 'indexes':
            out['kind'] = 'sigs'
            out['value'] = [abs_index(index_sig_from_data(d)) for d in val]
        elif prop == 'constraints':
            out['kind'] = 'sigs'
            out['value'] = [abs_constraint(constraint_sig_from_data(d)) for d in val]
        else:
            out['kind'] = 'raw'
            out['value'] = cv(val)
    return out


def norm_together(t):
    if not t:
        return []
    if not isinstance(t[0], (tuple, list)):
        t = (t,)
    return [[str(x) for x in item] for item in t]


ERR_KINDS = [
    ('application could not be found', 'app-not-found'),
    ('model could not be found', 'model-not-found'),
    ('field could not be found', 'field-not-found'),
    ('already exists', 'field-exists'),
    ('non-null initial value', 'need-initial'),
    ('primary key and cannot be deleted', 'pk-delete'),
    ('cannot be modified on this database', 'meta-unsupported'),
    ('cannot be changed on a model', 'meta-unknown'),
]


def classify_error(e):
    from django_evolution.errors import CannotSimulate, SimulationFailure, MissingSignatureError
    if isinstance(e, CannotSimulate):
        return 'cannot-simulate'
    if isinstance(e, SimulationFailure):
        msg = str(e)
        for needle, kind in ERR_KINDS:
            if needle in msg:
                return kind
        return 'simulation-failure:' + msg[:60]
    if isinstance(e, MissingSignatureError):
        return 'missing-sig'
    return 'crash'


def real_simulate(sig, app_label, muts, legacy=None, database='default'):
    """one mutation at a time on a clone; returns ('ok', sig', app_label) or ('err', kind, index)"""
    p = sig.clone()
    label = app_label
    for i, mu in enumerate(muts):
        from django_evolution.mutations.base import Simulation
        sim = Simulation(mu, app_label=label, project_sig=p, database_state=None,
                         legacy_app_label=legacy, database=database)
        try:
            mu.simulate(sim)
        except Exception as e:
            return ('err', classify_error(e), i)
        label = sim.app_label
    return ('ok', p, label)


# ---------------------------------------------------------------------------
# generators
# ---------------------------------------------------------------------------

def gen_field(rng, name, model_names, app_id, allow_rel=True, force_type=None):
    t = force_type or rng.choice(['CharField', 'CharField', 'IntegerField', 'IntegerField', 'TextField',
                                  'BooleanField', 'BigIntegerField', 'PositiveIntegerField', 'DecimalField',
                                  'DateTimeField'] + (['ForeignKey', 'ForeignKey', 'OneToOneField',
                                                       'ManyToManyField'] if allow_rel and model_names else []))
    attrs = {}
    related = None
    if t == 'CharField':
        attrs['max_length'] = rng.choice([10, 20, 50])
    if t == 'DecimalField':
        attrs['max_digits'] = rng.choice([6, 10])
        attrs['decimal_places'] = rng.choice([2, 3])
    if t in ('ForeignKey', 'OneToOneField', 'ManyToManyField'):
        related = '%s.%s' % (app_id, rng.choice(model_names))
    if t != 'ManyToManyField':
        if rng.random() < 0.4:
            attrs['null'] = True
        if t not in ('TextField', 'OneToOneField') and rng.random() < 0.25:
            if t in ('ForeignKey',):
                if rng.random() < 0.3:
                    attrs['db_index'] = False
            else:
                attrs['db_index'] = True
        if t not in ('TextField', 'BooleanField', 'ForeignKey', 'OneToOneField') and rng.random() < 0.15:
            attrs['unique'] = True
        if t == 'OneToOneField':
            attrs['unique'] = True
        if rng.random() < 0.12:
            attrs['db_column'] = name + '_col'
    return {'name': name, 'type': t, 'attrs': attrs, 'related': related}


FIELD_NAMES = ['a', 'b', 'c', 'd', 'e']
MODEL_NAMES = ['Alpha', 'Beta', 'Gamma', 'Al']


def gen_spec(rng, app_id='vapp', n_models=None, with_meta=True, with_rel=True, other_app=None):
    n_models = n_models or rng.randint(1, 3)
    names = rng.sample(MODEL_NAMES, n_models)
    models = []
    for i, mn in enumerate(names):
        fields = [{'name': 'id', 'type': 'AutoField', 'attrs': {'primary_key': True}, 'related': None}]
        for fn in rng.sample(FIELD_NAMES, rng.randint(1, 4)):
            fields.append(gen_field(rng, fn, names[:i] if with_rel else [], app_id, allow_rel=with_rel))
        m = {'name': mn, 'table': '%s_%s' % (app_id, mn.lower()), 'fields': fields,
             'unique_together': [], 'index_together': [], 'indexes': [], 'constraints': []}
        plain = [f['name'] for f in fields if f['type'] not in ('ManyToManyField', 'TextField') and f['name'] != 'id']
        if with_meta and len(plain) >= 2:
            if rng.random() < 0.3:
                m['unique_together'] = [rng.sample(plain, 2)]
                if rng.random() < 0.4:
                    # a second entry, in whatever order (lists of entries are ordered, and need not be sorted)
                    e = rng.sample(plain, 2)
                    if e not in m['unique_together']:
                        m['unique_together'].insert(rng.randint(0, 1), e)
            if rng.random() < 0.2:
                m['index_together'] = [rng.sample(plain, 2)]
                if rng.random() < 0.4:
                    e = rng.sample(plain, 2)
                    if e not in m['index_together']:
                        m['index_together'].insert(rng.randint(0, 1), e)
            if rng.random() < 0.25:
                m['indexes'] = [{'name': '%s_ix%d' % (mn.lower(), rng.randint(1, 2)), 'fields': rng.sample(plain, rng.randint(1, 2))}]
        models.append(m)
    apps = [{'id': app_id, 'models': models}]
    if other_app:
        apps.append(other_app)
    return {'apps': apps}


def gen_mutation(rng, sig, app_label, kinds=None):
    """propose one mutation given the *real* current signature (mostly valid by construction)"""
    app = sig.get_app_sig(app_label)
    models = list(app.model_sigs) if app is not None else []
    if not models:
        return {'t': 'DeleteModel', 'model': 'Nope'}
    kinds = kinds or ['AddField'] * 5 + ['ChangeField'] * 5 + ['DeleteField'] * 3 + ['RenameField'] * 3 + \
        ['ChangeMeta'] * 2 + ['RenameModel', 'DeleteModel']
    k = rng.choice(kinds)
    m = rng.choice(models)
    mname = m.model_name
    fields = [f for f in m.field_sigs]
    nonpk = [f for f in fields if not f.get_attr_value('primary_key')]
    existing = set(f.field_name for f in fields)
    invalid = rng.random() < 0.06
    if k == 'AddField':
        free = [n for n in FIELD_NAMES + ['f', 'g'] if n not in existing]
        if invalid and existing:
            name = rng.choice(sorted(existing))
        elif free:
            name = rng.choice(free)
        else:
            return gen_mutation(rng, sig, app_label, ['DeleteField'])
        others = [x.model_name for x in models]
        f = gen_field(rng, name, others, app_label)
        attrs = dict(f['attrs'])
        if f['related']:
            attrs['related_model'] = f['related']
        init = None
        if f['type'] != 'ManyToManyField' and (not attrs.get('null') or rng.random() < 0.3):
            init = gen_initial(rng, f['type'])
            if invalid and rng.random() < 0.5:
                init = None
        return {'t': 'AddField', 'model': mname, 'field': name, 'ftype': f['type'],
                'initial': None if init is None else cv(init), 'attrs': [[a, cv(v)] for a, v in attrs.items()]}
    if k == 'ChangeField' and nonpk:
        f = rng.choice(nonpk)
        t = f.field_type.__name__
        attrs = {}
        init = None
        choices = ['null', 'db_index', 'db_column']
        if t == 'CharField':
            choices += ['max_length', 'max_length']
        if t == 'DecimalField':
            choices += ['max_digits']
        if t not in ('TextField', 'BooleanField', 'ForeignKey', 'OneToOneField', 'ManyToManyField'):
            choices += ['unique']
        if t == 'ManyToManyField':
            choices = ['db_table']
        for a in rng.sample(choices, min(len(choices), rng.choice([1, 1, 1, 2]))):
            if a == 'null':
                attrs['null'] = not bool(f.get_attr_value('null')) if rng.random() < 0.8 else bool(f.get_attr_value('null'))
                if not attrs['null'] and not (invalid and rng.random() < 0.5):
                    init = gen_initial(rng, t)
            elif a == 'db_index':
                attrs['db_index'] = not bool(f.get_attr_value('db_index'))
            elif a == 'unique':
                attrs['unique'] = not bool(f.get_attr_value('unique'))
            elif a == 'db_column':
                attrs['db_column'] = f.field_name + rng.choice(['_c', '_col', '_x'])
            elif a == 'max_length':
                attrs['max_length'] = rng.choice([15, 30, 60])
            elif a == 'max_digits':
                attrs['max_digits'] = rng.choice([8, 12])
            elif a == 'db_table':
                attrs['db_table'] = '%s_%s_%s_t' % (app_label, mname.lower(), f.field_name)
        if init is None and t != 'ManyToManyField' and rng.random() < 0.2:
            # an initial value on a change that does not make the column NOT NULL: it must not touch any row
            init = gen_initial(rng, t)
        name = f.field_name if not invalid else rng.choice([f.field_name, 'zz'])
        return {'t': 'ChangeField', 'model': mname, 'field': name, 'ftype': None,
                'initial': None if init is None else cv(init), 'attrs': [[a, cv(v)] for a, v in attrs.items()]}
    if k == 'DeleteField' and (nonpk or invalid):
        if invalid:
            name = rng.choice(['zz'] + [f.field_name for f in fields])
        else:
            name = rng.choice(nonpk).field_name
        return {'t': 'DeleteField', 'model': mname, 'field': name}
    if k == 'RenamePK':
        # rename the primary key (explicit or the automatic `id`), optionally with a new column name
        pks = [f for f in fields if f.get_attr_value('primary_key')]
        free = [n for n in ['ident', 'key', 'pk1'] if n not in existing]
        if not pks or not free:
            return gen_mutation(rng, sig, app_label, ['RenameField'])
        new = rng.choice(free)
        return {'t': 'RenameField', 'model': mname, 'old': pks[0].field_name, 'new': new,
                'db_column': (new + '_col') if rng.random() < 0.3 else None, 'db_table': None}
    if k == 'RenameField' and nonpk:
        f = rng.choice(nonpk)
        free = [n for n in FIELD_NAMES + ['f', 'g'] if n not in existing]
        if not free:
            return gen_mutation(rng, sig, app_label, ['DeleteField'])
        new = rng.choice(free)
        out = {'t': 'RenameField', 'model': mname, 'old': f.field_name if not invalid else 'zz', 'new': new,
               'db_column': None, 'db_table': None}
        if f.field_type.__name__ == 'ManyToManyField':
            if rng.random() < 0.5:
                out['db_table'] = '%s_%s_%s' % (app_label, mname.lower(), new)
        elif rng.random() < 0.3:
            out['db_column'] = new + '_col'
        return out
    if k == 'ChangeMeta':
        plain = [f.field_name for f in nonpk if f.field_type.__name__ not in ('ManyToManyField', 'TextField')]
        prop = rng.choice(['unique_together', 'index_together', 'indexes'])
        if len(plain) < 2:
            val = []
        elif prop == 'indexes':
            val = [] if rng.random() < 0.3 else [{'name': '%s_ix%d' % (mname.lower(), rng.randint(1, 3)),
                                                   'fields': rng.sample(plain, rng.randint(1, 2))}]
        else:
            val = [] if rng.random() < 0.3 else [tuple(rng.sample(plain, 2))]
        return {'t': 'ChangeMeta', 'model': mname, 'prop': prop, 'py_value': val}
    if k == 'RenameModel':
        free = [n for n in MODEL_NAMES + ['Delta'] if app.get_model_sig(n) is None]
        if not free:
            return gen_mutation(rng, sig, app_label, ['DeleteModel'])
        new = rng.choice(free)
        table = m.table_name if rng.random() < 0.4 else '%s_%s' % (app_label, new.lower())
        return {'t': 'RenameModel', 'old': mname if not invalid else 'Nope', 'new': new, 'db_table': table}
    if k == 'DeleteModel':
        return {'t': 'DeleteModel', 'model': mname if not invalid else 'Nope'}
    return gen_mutation(rng, sig, app_label, ['AddField'])


def gen_initial(rng, t):
    if t in ('CharField', 'TextField'):
        return rng.choice(['x', 'abc', "it's", '50%', 'q"uote', ''])
    if t == 'BooleanField':
        return rng.choice([True, False])
    if t == 'DecimalField':
        return rng.choice([1, 7])
    if t == 'DateTimeField':
        return '2020-01-02 03:04:05'
    if t in ('ForeignKey', 'OneToOneField'):
        return 1
    return rng.choice([0, 1, 7, -3, 42])


def gen_sequence(rng, sig, app_label, length, kinds=None, keep_invalid=False):
    """returns (list of mutation JSON, final real signature or None if a mutation was rejected)"""
    cur = sig.clone()
    out = []
    label = app_label
    for _ in range(length):
        mj = gen_mutation(rng, cur, label, kinds)
        r = real_simulate(cur, label, [real_mutation(mj)])
        if r[0] == 'ok':
            cur, label = r[1], r[2]
            out.append(mj)
        elif keep_invalid:
            out.append(mj)
            return out, None
    return out, cur
