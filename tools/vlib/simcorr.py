"""Correspondence of `simulate` (one mutation at a time): real mutation classes vs Lean model."""
from . import sigs


def fixed_cases():
    """renames onto the same name (what the optimiser makes of a rename and its reversal; the one way to move a table or
    a column without renaming the model or field), alone and followed by another mutation"""
    def fld(name, t, related=None, **attrs):
        return {'name': name, 'type': t, 'attrs': attrs, 'related': related}
    spec = {'apps': [{'id': 'vapp', 'models': [
        {'name': 'Alpha', 'table': 'vapp_alpha', 'unique_together': [['a', 'b']], 'index_together': [], 'indexes': [],
         'constraints': [], 'fields': [fld('id', 'AutoField', primary_key=True), fld('a', 'IntegerField'),
                                       fld('b', 'CharField', max_length=10, null=True)]},
        {'name': 'Beta', 'table': 'vapp_beta', 'unique_together': [], 'index_together': [], 'indexes': [],
         'constraints': [], 'fields': [fld('id', 'AutoField', primary_key=True),
                                       fld('ref', 'ForeignKey', 'vapp.Alpha', null=True)]}]}]}
    rf = {'t': 'RenameField', 'model': 'Alpha', 'old': 'b', 'new': 'b', 'db_column': 'b_col', 'db_table': None}
    rm = {'t': 'RenameModel', 'old': 'Alpha', 'new': 'Alpha', 'db_table': 'vapp_alphas'}
    df = {'t': 'DeleteField', 'model': 'Alpha', 'field': 'a'}
    out = []
    for muts in ([rf], [rm], [rf, df], [rm, df], [rf, rm, rf]):
        sig = sigs.sig_from_spec(spec)
        out.append((spec, sig, muts, True))
    return out


def gen_cases(ctx, n, max_len=5, kinds=None, with_invalid=True):
    cases = fixed_cases() if kinds is None else []
    for _ in range(n):
        spec = sigs.gen_spec(ctx.rng)
        sig = sigs.sig_from_spec(spec)
        muts, final = sigs.gen_sequence(ctx.rng, sig, 'vapp', ctx.rng.randint(1, max_len), kinds=kinds,
                                        keep_invalid=with_invalid)
        cases.append((spec, sig, muts, final))
    return cases


def check_cases(ctx, cases, name='simulate'):
    reqs = []
    for spec, sig, muts, final in cases:
        reqs.append({'op': 'simulate', 'sig': sigs.abs_sig(sig), 'ctx': {'app': 'vapp'},
                     'mutations': [sigs.model_mutation(m) for m in muts],
                     'flags': {'rename_app_label_fixed': bool(ctx.variant.get('rename_app_label_fixed'))}})
    outs = ctx.driver.ask(reqs) if ctx.driver else [None] * len(reqs)
    results = []
    for (spec, sig, muts, final), req, out in zip(cases, reqs, outs):
        real = sigs.real_simulate(sig, 'vapp', [sigs.real_mutation(m) for m in muts])
        # RenameAppLabel keeps its model_names in a set: the order in which the named models arrive under the
        # new label depends on the process's hash seed, so it is not compared for such sequences
        unordered = any(m['t'] == 'RenameAppLabel' and m.get('models') for m in muts)
        if real[0] == 'ok':
            impl = {'ok': sigs.norm_sig(sigs.abs_sig(real[1]), sort_models=unordered), 'app': real[2]}
        else:
            impl = {'err': real[1], 'at': real[2]}
        ok = None
        if out is not None:
            if 'ok' in out:
                out = {'ok': sigs.norm_sig(out['ok'], sort_models=unordered), 'app': out.get('app')}
            ok = (out == impl)
            ctx.corr_case(name, ok, case={'spec': spec, 'mutations': muts}, model=out, impl=impl)
        for m in muts:
            ctx.count('mut:' + m['t'])
        ctx.count('sim:' + ('ok' if real[0] == 'ok' else real[1]))
        results.append((real, out, ok))
    return results
