"""C08 worker: one upgrade run in which an app's pending evolutions fall into TWO evolution batches with a batch of
migrations of another app between them (`before_migrations` / `after_migrations` dependencies on a migration of the
migration-managed app `mapp`), the later batch having nothing to execute for the app (its evolution concerns a model
that is new in this release).  Prints how often each evolution's SQL ran and what was recorded.

usage: c08_worker.py <out.json>
"""
import json
import os
import sys

sys.path.insert(0, os.path.dirname(os.path.dirname(os.path.abspath(__file__))))

from vlib import dbrig, evorig  # noqa: E402


def main(out_path):
    evorig.setup(migration_app=True)
    from django.db import connection, models
    from django.db.migrations.recorder import MigrationRecorder
    from django_evolution.models import Evolution
    from django_evolution.mutations import AddField, SQLMutation

    def fld(name, t, **attrs):
        return {'name': name, 'type': t, 'attrs': attrs, 'related': None}

    def mdl(name, fields):
        return {'name': name, 'table': 'vapp_%s' % name.lower(), 'unique_together': [], 'index_together': [],
                'indexes': [], 'constraints': [], 'fields': [fld('id', 'AutoField', primary_key=True)] + fields}
    alpha = mdl('Alpha', [fld('price', 'IntegerField', null=True)])
    spec0 = {'apps': [{'id': 'vapp', 'models': [alpha]}, evorig.MAPP_SPEC]}
    spec1 = {'apps': [{'id': 'vapp', 'models': [alpha, mdl('Bin', [fld('note', 'IntegerField', null=True)])]},
                      evorig.MAPP_SPEC]}
    # release 1: vapp installed, mapp at 0001 only (its table without `pages`, 0001 recorded)
    evorig.fresh_databases()
    evorig.clear_evolutions()
    with connection.cursor() as cur:
        cur.execute('CREATE TABLE "mapp_book" ("id" integer NOT NULL PRIMARY KEY AUTOINCREMENT, "title" varchar(50) NULL)')
    rec = MigrationRecorder(connection)
    rec.ensure_schema()
    rec.record_applied('mapp', '0001_initial')
    evorig.install_models(spec0)
    # (only vapp is brought under the package's control now: mapp's second migration stays pending for release 2)
    from django_evolution.compat.apps import get_app
    from django_evolution.evolve import Evolver
    evorig._hygiene()
    try:
        ev = Evolver()
        ev.queue_evolve_app(get_app('vapp'))
        ev.evolve()
        r0 = ('ok',)
    except Exception as e:
        r0 = ('error: %s' % e,)
    with connection.cursor() as cur:
        cur.execute('INSERT INTO "vapp_alpha" ("price") VALUES (5)')
    # release 2
    evorig.install_models(spec1)
    evorig.set_evolutions('vapp', [
        {'label': 'price_in_cents', 'before_migrations': [('mapp', '0002_book_pages')],
         'mutations': [SQLMutation('price_in_cents', ['UPDATE "vapp_alpha" SET "price" = "price" * 100;'],
                                   update_func=lambda simulation: None)]},
        {'label': 'bin_note', 'after_migrations': [('mapp', '0002_book_pages')],
         'mutations': [AddField('Bin', 'note', models.IntegerField, null=True)]}])
    tr = evorig.Trace()
    r = evorig.run_evolver(trace=tr)
    updates = [s for s in tr.write_statements() if s.startswith('UPDATE "vapp_alpha"')]
    with connection.cursor() as cur:
        cur.execute('SELECT "price" FROM "vapp_alpha"')
        prices = [row[0] for row in cur.fetchall()]
    order = [(e[1], e[2].get('app') or (e[2].get('migration') or [None])[0]) for e in tr.events
             if e[0] == 'signal' and e[1] in ('applying_evolution', 'applying_migration')]
    out = {'baseline': r0[0], 'outcome': r[0], 'error': None if r[0] == 'ok' else str(r[1])[:300],
           'update_statements': len(updates), 'prices': prices, 'order': order,
           'recorded': sorted(Evolution.objects.filter(app_label='vapp').values_list('label', flat=True)),
           'columns': sorted(dbrig.abs_schema().get('mapp_book', {}).get('columns', {}))}
    with open(out_path, 'w') as f:
        json.dump(out, f)


if __name__ == '__main__':
    main(sys.argv[1])
