"""A project-defined field class for the rigs: a ManyToManyField subclass (like
sortedm2m.SortedManyToManyField or modelcluster.ParentalManyToManyField).  It owns an
automatically created table exactly like a plain ManyToManyField."""
from django.db import models


class TagsField(models.ManyToManyField):
    pass
