"""A project-defined field class for the rigs: a ManyToManyField subclass (like
sortedm2m.SortedManyToManyField or modelcluster.ParentalManyToManyField).  It owns an
automatically created table exactly like a plain ManyToManyField."""
from django.db import models


class TagsField(models.ManyToManyField):
    pass


class ShortCodeField(models.CharField):
    """project-defined column fields (same column types as their bases): several of them in one module, so that a
    written evolution has to import more than one name from it"""


class CountField(models.IntegerField):
    pass


class AmountField(models.IntegerField):
    pass


class JSONField(models.TextField):
    """a project's own field class that happens to share its name with one that django.db.models exports (a
    legacy JSON field kept from before Django had one)"""


class UUIDField(models.CharField):
    pass


class TreeKey(models.ForeignKey):
    """a project-defined relation class (like mptt's TreeForeignKey or modelcluster's ParentalKey): a ForeignKey in
    every respect"""
