"""C17 worker: runs of a project that contains an app on Django migrations from its first release
(`mapp`, migrations on disk, no evolutions): fresh database, and a legacy database whose `mapp` table
exists although no migration is recorded (Django then records the initial migration without running it).
Each fault-free and with a failure injected at every write statement.  Prints one JSON document with
the interleaved signal / statement traces; tools/vlib/props/c17.py judges them.

usage: c17_worker.py <out.json>
"""
import json
import os
import sys

sys.path.insert(0, os.path.dirname(os.path.dirname(os.path.abspath(__file__))))

from vlib import evorig  # noqa: E402


def events(tr):
    out = []
    for e in tr.events:
        if e[0] == 'signal':
            out.append(['signal', e[1], {k: (list(v) if isinstance(v, tuple) else v) for k, v in e[2].items()}])
        elif e[0] in ('sql', 'fault'):
            out.append([e[0], e[1]])
    return out


def main(out_path):
    evorig.setup(migration_app=True)
    from django.db import connection
    spec = {'apps': [{'id': 'vapp', 'models': []}, evorig.MAPP_SPEC]}

    def start_fresh():
        evorig.fresh_databases()
        evorig.clear_evolutions()

    def start_legacy():
        start_fresh()
        with connection.cursor() as cur:
            cur.execute('CREATE TABLE "mapp_book" ("id" integer NOT NULL PRIMARY KEY AUTOINCREMENT, '
                        '"title" varchar(50) NULL)')
            cur.execute('INSERT INTO "mapp_book" ("title") VALUES (\'kept\')')

    def start_upgrade():
        # the first release (0001 only) was installed normally; the app now ships 0002 as well
        start_fresh()
        evorig.install_models(spec)
        from django.db.migrations.recorder import MigrationRecorder
        start_legacy()
        rec = MigrationRecorder(connection)
        rec.ensure_schema()
        rec.record_applied('mapp', '0001_initial')

    results = []
    for name, start in (('fresh_on_migrations', start_fresh), ('legacy_tables_unrecorded', start_legacy),
                        ('initial_recorded', start_upgrade)):
        start()
        evorig.install_models(spec)
        tr = evorig.Trace()
        r = evorig.run_evolver(trace=tr)
        n = len(tr.write_statements())
        results.append({'scenario': name, 'fault': None, 'outcome': r[0],
                        'error': None if r[0] == 'ok' else str(r[1])[:300], 'events': events(tr)})
        # a second run has nothing to do
        tr2 = evorig.Trace()
        r2 = evorig.run_evolver(trace=tr2)
        results.append({'scenario': name + ':again', 'fault': None, 'outcome': r2[0],
                        'error': None if r2[0] == 'ok' else str(r2[1])[:300], 'events': events(tr2)})
        if r[0] != 'ok':
            continue
        for k in range(n):
            start()
            evorig.install_models(spec)
            trk = evorig.Trace(fail_at=k)
            rk = evorig.run_evolver(trace=trk)
            results.append({'scenario': name, 'fault': k, 'of': n, 'outcome': rk[0], 'failed_sql': trk.failed_sql,
                            'error': None if rk[0] == 'ok' else str(rk[1])[:300], 'events': events(trk)})
    with open(out_path, 'w') as f:
        json.dump({'results': results}, f)


if __name__ == '__main__':
    main(sys.argv[1])
