"""Shared machinery of every check: context, Lean side (translator, build, axiom audit,
driver), known-findings classification, replay files, evidence writer, verdict."""
import fcntl
import hashlib
import json
import os
import random
import re
import subprocess
import sys
import time

VERIF = os.path.dirname(os.path.dirname(os.path.dirname(os.path.abspath(__file__))))
LEAN_DIR = os.path.join(VERIF, 'lean', 'DEvo')
REPO = os.environ.get('VERIF_REPO', '/repo')
ALLOWED_AXIOMS = {'propext', 'Classical.choice', 'Quot.sound'}
FORBIDDEN = re.compile(r'\b(sorry|admit|native_decide|bv_decide|implemented_by|unsafe)\b|^axiom\s|maxHeartbeats\s+0',
                       re.M)

TRUSTED_BASE = [
    'Lean 4.33.0 kernel (proof terms re-checked when the .olean files are built; leanchecker in thorough tier)',
    'axioms allowed in property theorems: propext, Classical.choice, Quot.sound (audited with #print axioms on every run); no sorry/admit/axiom/native_decide/bv_decide',
    'tools/vlib/extract.py (translator from /repo source to DEvo/Generated/*.lean)',
    'the correspondence harness (abstraction functions, canonicalisers, generators) and the compiled Lean driver (Lean compiler + JSON glue)',
    'Python, Django 4.2 (SQL generation for CREATE TABLE, migration loader/executor, transaction layer) and SQLite 3.40 (statement execution, transactional DDL)',
]


def canon(obj):
    return json.dumps(obj, sort_keys=True, default=str, ensure_ascii=False)


def digest(obj):
    return hashlib.sha1(canon(obj).encode()).hexdigest()[:12]


class Timeout(Exception):
    pass


class Ctx(object):
    def __init__(self, prop, tier, seed):
        self.prop = prop
        self.tier = tier
        self.seed = seed
        self.rng = random.Random(seed * 1000003 + sum(map(ord, prop)))
        self.t0 = time.time()
        self.budget_s = float(os.environ.get('VERIF_BUDGET_S', 240 if tier == 'quick' else 1500))
        # proof side
        self.theorems = []          # (name, axioms or None)
        self.obligations = 0
        self.discharged = 0
        self.broken = []            # [(kind, name, detail)] proof obligations / correspondences that no longer check
        # correspondence / exploration side
        self.evaluations = 0
        self.nontrivial = set()
        self.samples = []
        self.counters = {}
        self.corr = {}              # name -> {'cases': n, 'mismatches': m}
        self.failures = []          # [(finding_id or None, what, replay_obj)]
        self.variant = {}
        self.notes = []
        self.assumptions = []
        self.exhaustive = False
        self.rule = ''
        self.lean_ok = False
        self.driver = None

    # ---- bookkeeping helpers -------------------------------------------------
    def time_left(self):
        return self.budget_s - (time.time() - self.t0)

    def count(self, key, n=1):
        self.counters[key] = self.counters.get(key, 0) + n

    def case(self, obj, nontrivial=True, sample_cap=6):
        """Record one explored case; returns its digest."""
        self.evaluations += 1
        d = digest(obj)
        if nontrivial:
            self.nontrivial.add(d)
        if len(self.samples) < sample_cap:
            self.samples.append(obj)
        return d

    def corr_case(self, name, ok, case=None, model=None, impl=None):
        c = self.corr.setdefault(name, {'cases': 0, 'mismatches': 0, 'first_mismatch': None})
        c['cases'] += 1
        if not ok:
            c['mismatches'] += 1
            if c['first_mismatch'] is None:
                c['first_mismatch'] = {'case': case, 'model': model, 'impl': impl}

    def fail(self, finding, what, replay):
        """A property-level failure observed on the REAL code (oracle verdict).
        `finding` is the id of the known finding whose predicate matches, or None."""
        self.failures.append((finding, what, replay))

    def brk(self, kind, name, detail=''):
        self.broken.append((kind, name, detail))


# ---------------------------------------------------------------------------
# Lean side
# ---------------------------------------------------------------------------

class LeanSide(object):
    def __init__(self, ctx):
        self.ctx = ctx
        self.build_log = ''

    def _lock(self):
        f = open(os.path.join(LEAN_DIR, '.build.lock'), 'w')
        fcntl.flock(f, fcntl.LOCK_EX)
        return f

    def extract(self):
        from . import extract
        return extract.regenerate(REPO, os.path.join(LEAN_DIR, 'DEvo', 'Generated'))

    def build(self, targets):
        lock = self._lock()
        try:
            p = subprocess.run(['lake', 'build'] + targets, cwd=LEAN_DIR, stdout=subprocess.PIPE,
                               stderr=subprocess.STDOUT, universal_newlines=True, timeout=1500)
        finally:
            lock.close()
        self.build_log = p.stdout
        return p.returncode == 0

    def failing_modules(self):
        return sorted(set(re.findall(r'^- (\S+)$', self.build_log, re.M)))

    def first_errors(self, n=6):
        return [l for l in self.build_log.splitlines() if 'error' in l][:n]

    def theorem_names(self, module):
        """Names of theorems declared in a Props file (with their namespace)."""
        path = os.path.join(LEAN_DIR, *module.split('.')) + '.lean'
        src = open(path).read()
        ns = re.search(r'^namespace\s+(\S+)', src, re.M)
        prefix = (ns.group(1) + '.') if ns else ''
        names = re.findall(r'^theorem\s+([A-Za-z0-9_\.\']+)', src, re.M)
        return [prefix + n for n in names], src

    def grep_forbidden(self):
        hits = []
        for root, _, files in os.walk(os.path.join(LEAN_DIR, 'DEvo')):
            for fn in files:
                if fn.endswith('.lean'):
                    p = os.path.join(root, fn)
                    src = open(p).read()
                    # strip comments (block and line) before grepping
                    src = re.sub(r'/-.*?-/', '', src, flags=re.S)
                    src = re.sub(r'--.*', '', src)
                    for m in FORBIDDEN.finditer(src):
                        hits.append('%s: %s' % (os.path.relpath(p, LEAN_DIR), m.group(0).strip()))
        return hits

    def audit(self, module):
        """#print axioms for every theorem of the property module."""
        ctx = self.ctx
        names, _ = self.theorem_names(module)
        tmp = os.path.join(LEAN_DIR, '.audit_%s_%d.lean' % (module.split('.')[-1], os.getpid()))
        with open(tmp, 'w') as f:
            f.write('import %s\n' % module)
            for n in names:
                f.write('#print axioms %s\n' % n)
        try:
            p = subprocess.run(['lake', 'env', 'lean', tmp], cwd=LEAN_DIR, stdout=subprocess.PIPE,
                               stderr=subprocess.STDOUT, universal_newlines=True, timeout=900)
        finally:
            os.unlink(tmp)
        out = p.stdout
        res = {}
        for m in re.finditer(r"'([^']+)' depends on axioms: \[([^\]]*)\]", out, re.S):
            res[m.group(1)] = [a.strip() for a in m.group(2).replace('\n', ' ').split(',') if a.strip()]
        for m in re.finditer(r"'([^']+)' does not depend on any axioms", out):
            res[m.group(1)] = []
        ctx.obligations = len(names)
        ctx.discharged = 0
        for n in names:
            ax = res.get(n)
            ctx.theorems.append((n, ax))
            if ax is not None and set(ax) <= ALLOWED_AXIOMS:
                ctx.discharged += 1
            else:
                ctx.brk('proof', n, 'axioms: %r' % (ax,))
        for h in self.grep_forbidden():
            ctx.brk('proof', 'forbidden-token', h)
        return res


    def leanchecker(self, module):
        """thorough tier: the toolchain's independent re-checker over the compiled property module"""
        ctx = self.ctx
        try:
            p = subprocess.run(['lake', 'env', 'leanchecker', module], cwd=LEAN_DIR, stdout=subprocess.PIPE,
                               stderr=subprocess.STDOUT, universal_newlines=True, timeout=1200)
        except Exception as e:      # not a verdict about the property
            ctx.notes.append('leanchecker could not be run: %r' % (e,))
            return
        ctx.variant['leanchecker'] = 'ok' if p.returncode == 0 else 'failed'
        if p.returncode != 0:
            ctx.brk('proof', 'leanchecker %s' % module, p.stdout[-400:])


class Driver(object):
    """Batch client of the compiled Lean model driver (one JSON line in, one out)."""

    def __init__(self):
        self.exe = os.path.join(LEAN_DIR, '.lake', 'build', 'bin', 'devo-driver')

    def available(self):
        return os.path.exists(self.exe)

    def ask(self, reqs):
        if not reqs:
            return []
        data = '\n'.join(json.dumps(r, sort_keys=True) for r in reqs) + '\n'
        p = subprocess.run([self.exe], input=data, stdout=subprocess.PIPE, stderr=subprocess.PIPE,
                           universal_newlines=True, timeout=900)
        lines = [l for l in p.stdout.split('\n') if l]
        if len(lines) != len(reqs):
            raise RuntimeError('driver returned %d lines for %d requests: %s'
                               % (len(lines), len(reqs), p.stderr[-500:]))
        return [json.loads(l) for l in lines]


# ---------------------------------------------------------------------------
# known findings, replay, evidence, verdict
# ---------------------------------------------------------------------------

def load_known():
    path = os.path.join(VERIF, 'known_findings.json')
    if not os.path.exists(path):
        return {}
    data = json.load(open(path))
    return {(f['id'], f.get('property')): f for f in data.get('findings', [])}


def write_replay(prop, obj):
    d = os.path.join(VERIF, 'replays')
    os.makedirs(d, exist_ok=True)
    path = os.path.join(d, '%s-%s.json' % (prop, digest(obj)))
    with open(path, 'w') as f:
        json.dump(obj, f, indent=1, sort_keys=True, default=str)
    return path


def write_evidence(ctx, violations, known_reported, checker_cmd):
    cov = {
        'obligations': ctx.obligations,
        'discharged': ctx.discharged,
        'checker_cmd': checker_cmd,
        'trusted_base': TRUSTED_BASE,
        'theorems': [{'name': n, 'axioms': a} for n, a in ctx.theorems],
        'evaluations': ctx.evaluations,
        'distinct_nontrivial': len(ctx.nontrivial),
        'rule': ctx.rule,
        'samples': ctx.samples[:8] if ctx.samples else ['(no correspondence cases were run)'],
        'correspondence': ctx.corr,
        'distribution': ctx.counters,
        'variant_flags': ctx.variant,
        'broken': [{'kind': k, 'name': n, 'detail': str(d)[:2000]} for k, n, d in ctx.broken],
        'known_findings_reported': known_reported,
        'exhaustive': bool(ctx.exhaustive),
        'notes': ctx.notes,
    }
    ev = {
        'property_id': ctx.prop,
        'tier': ctx.tier,
        'seed': ctx.seed,
        'level': 'proof',
        'coverage': cov,
        'assumptions': ctx.assumptions,
        'wall_s': round(time.time() - ctx.t0, 2),
        'violations': violations,
    }
    os.makedirs(os.path.join(VERIF, 'evidence'), exist_ok=True)
    path = os.path.join(VERIF, 'evidence', '%s.json' % ctx.prop)
    tmp = path + '.tmp%d' % os.getpid()
    with open(tmp, 'w') as f:
        json.dump(ev, f, indent=1, sort_keys=True, default=str)
    os.replace(tmp, path)
    return path


def verdict(ctx):
    """Print KNOWN-FINDING / VIOLATION lines; return the exit code."""
    known = load_known()
    violations = 0
    known_reported = []
    seen_known = set()
    seen_viol = set()
    for finding, what, replay in ctx.failures:
        entry = known.get((finding, ctx.prop)) if finding else None
        if entry is not None and entry.get('status') == 'known' and entry.get('property') == ctx.prop:
            if finding not in seen_known:
                seen_known.add(finding)
                print('KNOWN-FINDING: property=%s %s: %s' % (ctx.prop, finding, entry.get('what', what)))
                known_reported.append(finding)
            continue
        key = (finding, what)
        if key in seen_viol:
            continue
        seen_viol.add(key)
        if len(seen_viol) > 5:
            continue
        obj = {'property': ctx.prop, 'what': what, 'finding': finding, 'seed': ctx.seed, 'tier': ctx.tier,
               'replay': replay}
        if entry is not None and entry.get('status') == 'fixed':
            obj['note'] = 'finding %s was recorded as fixed (%s) and has returned' % (finding, entry.get('commit'))
        path = write_replay(ctx.prop, obj)
        print('VIOLATION property=%s replay=%s' % (ctx.prop, path))
        print('  what: %s' % what)
        violations += 1
    if ctx.broken and violations == 0:
        obj = {'property': ctx.prop, 'seed': ctx.seed, 'tier': ctx.tier,
               'no_longer_checks': [{'kind': k, 'name': n, 'detail': d} for k, n, d in ctx.broken],
               'note': 'a proof obligation or correspondence no longer checks; the failing-input search on the '
                       'real code found no input on which the property fails'}
        path = write_replay(ctx.prop, obj)
        print('VIOLATION property=%s replay=%s no-failing-input-found' % (ctx.prop, path))
        for k, n, d in ctx.broken[:5]:
            print('  broken %s: %s %s' % (k, n, str(d)[:300]))
        violations += 1
    return violations, known_reported
