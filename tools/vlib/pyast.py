"""Python's own parser as the reference for the Lean model of "how Python reads the hint text":
`ast.parse` output converted to the JSON shape of `Codec.pyJ`, and the model's tree rewritten
to the names that appear in the text."""
import ast

OPS = {ast.Add: '+', ast.Sub: '-', ast.Mult: '*', ast.Div: '/', ast.Mod: '%', ast.BitAnd: '&', ast.BitOr: '|',
       ast.BitXor: '^', ast.LShift: '<<', ast.RShift: '>>', ast.Pow: '**', ast.FloorDiv: '//', ast.MatMult: '@'}


def dotted(node):
    if isinstance(node, ast.Name):
        return node.id
    if isinstance(node, ast.Attribute):
        return dotted(node.value) + '.' + node.attr
    raise ValueError('not a dotted name: %s' % ast.dump(node))


def conv(node):
    if isinstance(node, ast.Expression):
        return conv(node.body)
    if isinstance(node, ast.Constant):
        return {'k': 'lit', 'v': node.value}
    if isinstance(node, ast.UnaryOp) and isinstance(node.op, ast.USub) and isinstance(node.operand, ast.Constant):
        return {'k': 'lit', 'v': -node.operand.value}
    if isinstance(node, ast.UnaryOp) and isinstance(node.op, ast.Invert):
        return {'k': 'inv', 'e': conv(node.operand)}
    if isinstance(node, ast.BinOp):
        return {'k': 'bin', 'op': OPS[type(node.op)], 'l': conv(node.left), 'r': conv(node.right)}
    if isinstance(node, ast.Call) and isinstance(node.func, ast.Attribute) and \
            not isinstance(node.func.value, (ast.Name, ast.Attribute)) and len(node.args) == 1 and not node.keywords:
        return {'k': 'meth', 'recv': conv(node.func.value), 'name': node.func.attr, 'arg': conv(node.args[0])}
    if isinstance(node, ast.Call):
        return {'k': 'call', 'path': dotted(node.func), 'args': [conv(a) for a in node.args],
                'kwargs': [[k.arg, conv(k.value)] for k in node.keywords]}
    if isinstance(node, ast.List):
        return {'k': 'list', 'v': [conv(x) for x in node.elts]}
    if isinstance(node, ast.Tuple):
        return {'k': 'tuple', 'v': [conv(x) for x in node.elts]}
    if isinstance(node, ast.Dict):
        return {'k': 'dict', 'v': [[k.value, conv(v)] for k, v in zip(node.keys, node.values)]}
    if isinstance(node, (ast.Attribute, ast.Name)):
        d = dotted(node)
        head, _, member = d.rpartition('.')
        return {'k': 'enum', 'type': head, 'member': member}
    raise ValueError('outside the modelled subset: %s' % ast.dump(node)[:120])


def parse(text):
    """-> tree, or None when the text is not a Python expression"""
    try:
        return conv(ast.parse(text, mode='eval'))
    except SyntaxError:
        return None


KEEP_SUBMODULES = False


def printed_name(path):
    """the name `serialize_to_python` writes for a class with this dotted path"""
    cls = path.rsplit('.', 1)[1] if '.' in path else path
    if KEEP_SUBMODULES and path.startswith('django.db.models.'):
        return 'models.' + path[len('django.db.models.'):]
    return ('models.' + cls) if path.startswith('django.db.models') else cls


def printed_enum(path):
    mod, _, cls = path.rpartition('.')
    return ('models.' + cls) if mod.startswith('django.db.models') else path


def as_text_names(tree):
    """the model's tree (full dotted paths, explicit parentheses) -> names as written, no parens"""
    k = tree['k']
    if k == 'paren':
        return as_text_names(tree['e'])
    if k == 'call':
        return {'k': 'call', 'path': printed_name(tree['path']), 'args': [as_text_names(a) for a in tree['args']],
                'kwargs': [[n, as_text_names(v)] for n, v in tree['kwargs']]}
    if k == 'enum':
        return {'k': 'enum', 'type': printed_enum(tree['type']), 'member': tree['member']}
    if k in ('list', 'tuple'):
        return {'k': k, 'v': [as_text_names(x) for x in tree['v']]}
    if k == 'dict':
        return {'k': k, 'v': [[n, as_text_names(v)] for n, v in tree['v']]}
    if k == 'inv':
        return {'k': 'inv', 'e': as_text_names(tree['e'])}
    if k == 'bin':
        return {'k': 'bin', 'op': tree['op'], 'l': as_text_names(tree['l']), 'r': as_text_names(tree['r'])}
    if k == 'meth':
        return {'k': 'meth', 'recv': as_text_names(tree['recv']), 'name': tree['name'], 'arg': as_text_names(tree['arg'])}
    return tree
