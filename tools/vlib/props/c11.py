"""C11 — renames and deletions keep every cross-reference consistent.

Lean: DEvo/Mut/{Basic,Refs}.lean, DEvo/Props/C11.lean.
Tie: simulate correspondence on relation-rich two-app signatures (incl. RenameAppLabel,
DeleteApplication), dangling-reference oracle on the real signatures, foreign-key oracle on
the real SQLite database after RenameModel/RenameField/DeleteField/DeleteModel.
"""
from .. import dbrig, dj, sigs, simcorr

FINDING_LABEL = 'F12'
KINDS = ['RenameModel'] * 3 + ['RenameField'] * 2 + ['DeleteField'] * 2 + ['DeleteModel'] + ['RenameAppLabel'] * 2 + \
    ['DeleteApplication']


def gen_spec2(rng):
    """app `vapp` (evolved) and app `wapp`, with relations in both directions"""
    spec = sigs.gen_spec(rng, 'vapp', n_models=rng.randint(1, 3), with_meta=False)
    vnames = [m['name'] for m in spec['apps'][0]['models']]
    wmodels = []
    for mn in rng.sample(['Woo', 'Wa', 'W'], rng.randint(1, 2)):
        fields = [{'name': 'id', 'type': 'AutoField', 'attrs': {'primary_key': True}, 'related': None}]
        for fn in rng.sample(['p', 'q', 'r'], rng.randint(1, 2)):
            t = rng.choice(['ForeignKey', 'ForeignKey', 'OneToOneField', 'ManyToManyField', 'IntegerField'])
            f = {'name': fn, 'type': t, 'attrs': {}, 'related': None}
            if t != 'IntegerField':
                f['related'] = 'vapp.%s' % rng.choice(vnames)
                if t == 'OneToOneField':
                    f['attrs']['unique'] = True
                if t != 'ManyToManyField' and rng.random() < 0.5:
                    f['attrs']['null'] = True
            wmodels.append(None) if False else None
            fields.append(f)
        wmodels.append({'name': mn, 'table': 'wapp_%s' % mn.lower(), 'fields': fields, 'unique_together': [],
                        'index_together': [], 'indexes': [], 'constraints': []})
    # some vapp fields point into wapp
    for m in spec['apps'][0]['models']:
        if rng.random() < 0.4:
            m['fields'].append({'name': 'w', 'type': 'ForeignKey', 'attrs': {'null': True},
                                'related': 'wapp.%s' % rng.choice(wmodels)['name']})
    spec['apps'].append({'id': 'wapp', 'models': [w for w in wmodels if w]})
    return spec


def gen_c11_mutation(rng, cur, label):
    k = rng.choice(KINDS)
    if k == 'RenameAppLabel':
        new = rng.choice(['napp', 'zapp', 'n'])
        if cur.get_app_sig(new) is not None or new == label:
            return None
        names = None
        app = cur.get_app_sig(label)
        if app is not None and rng.random() < 0.5:
            # the split-an-app form: only the named models move to the new label
            all_names = [m.model_name for m in app.model_sigs]
            if all_names:
                names = rng.sample(all_names, rng.randint(1, len(all_names)))
        return {'t': 'RenameAppLabel', 'old': label, 'new': new, 'legacy': rng.choice([None, label]), 'models': names}
    if k == 'DeleteApplication':
        return {'t': 'DeleteApplication'}
    return sigs.gen_mutation(rng, cur, label, [k])


def dangling(final_sig, deleted):
    """relations that name neither an existing model nor an explicitly deleted one"""
    out = []
    for a in final_sig.app_sigs:
        for m in a.model_sigs:
            for f in m.field_sigs:
                r = f.related_model
                if not r:
                    continue
                parts = r.split('.', 1)
                ok = False
                if len(parts) == 2:
                    target_app = None
                    for b in final_sig.app_sigs:
                        if b.app_id == parts[0]:
                            target_app = b
                    ok = target_app is not None and target_app.get_model_sig(parts[1]) is not None
                if not ok and r not in deleted:
                    out.append('%s.%s.%s -> %s' % (a.app_id, m.model_name, f.field_name, r))
    return sorted(out)


def gen_case(rng):
    spec = gen_spec2(rng)
    sig = sigs.sig_from_spec(spec)
    cur = sig.clone()
    label = 'vapp'
    muts = []
    deleted = set()
    for _ in range(rng.randint(1, 4)):
        mj = gen_c11_mutation(rng, cur, label)
        if mj is None:
            continue
        before = cur.clone()
        r = sigs.real_simulate(cur, label, [sigs.real_mutation(mj)])
        if r[0] != 'ok':
            if mj['t'] == 'RenameAppLabel':
                muts.append(mj)      # a crash inside RenameAppLabel is part of finding F12
                return spec, sig, muts, None, deleted, r
            continue
        if mj['t'] == 'DeleteModel':
            deleted.add('%s.%s' % (label, mj['model']))
        if mj['t'] == 'DeleteApplication':
            app = before.get_app_sig(label)
            if app is not None:
                deleted.update('%s.%s' % (app.app_id, m.model_name) for m in app.model_sigs)
        cur, label = r[1], r[2]
        muts.append(mj)
    return spec, sig, muts, cur, deleted, None


def family():
    """deterministic cases: renames and deletes around models that refer to themselves and to each other"""
    def fld(name, t, related=None, **attrs):
        return {'name': name, 'type': t, 'attrs': attrs, 'related': related}

    def mdl(app, name, fields):
        return {'name': name, 'table': '%s_%s' % (app, name.lower()), 'unique_together': [], 'index_together': [],
                'indexes': [], 'constraints': [], 'fields': [fld('id', 'AutoField', primary_key=True)] + fields}
    spec = {'apps': [
        {'id': 'vapp', 'models': [
            mdl('vapp', 'Category', [fld('parent', 'ForeignKey', 'vapp.Category', null=True),
                                     fld('see_also', 'ManyToManyField', 'vapp.Category'),
                                     fld('twin', 'OneToOneField', 'vapp.Category', null=True)]),
            mdl('vapp', 'Item', [fld('cat', 'ForeignKey', 'vapp.Category', null=True)])]},
        {'id': 'wapp', 'models': [mdl('wapp', 'Listing', [fld('cat', 'ForeignKey', 'vapp.Category', null=True),
                                                          fld('cats', 'ManyToManyField', 'vapp.Category')])]}]}
    rm = lambda old, new: {'t': 'RenameModel', 'old': old, 'new': new, 'db_table': 'vapp_%s' % new.lower()}
    seqs = [
        [rm('Category', 'Section')],
        [rm('Category', 'Section'), rm('Section', 'Topic')],
        [rm('Item', 'Product'), rm('Category', 'Section')],
        [rm('Category', 'Section'), {'t': 'RenameField', 'model': 'Section', 'old': 'parent', 'new': 'up',
                                     'db_column': None, 'db_table': None}],
        [rm('Category', 'Section'), {'t': 'RenameAppLabel', 'old': 'vapp', 'new': 'lib', 'legacy': None, 'models': None}],
        [{'t': 'DeleteField', 'model': 'Category', 'field': 'twin'}, rm('Category', 'Section')],
        [{'t': 'RenameAppLabel', 'old': 'vapp', 'new': 'lib', 'legacy': None, 'models': ['Category']}],
        [{'t': 'RenameAppLabel', 'old': 'vapp', 'new': 'lib', 'legacy': None, 'models': ['Category', 'Item']}],
        [{'t': 'RenameAppLabel', 'old': 'vapp', 'new': 'lib', 'legacy': 'vapp', 'models': ['Item']}],
        # a rename that only moves the table (old name == new name): the one way to evolve a Meta.db_table change
        [{'t': 'RenameModel', 'old': 'Category', 'new': 'Category', 'db_table': 'shop_categories'}],
        [{'t': 'RenameModel', 'old': 'Item', 'new': 'Item', 'db_table': 'vapp_things'}, rm('Category', 'Section')],
    ]
    out = [(spec, q) for q in seqs]
    # an app that used to carry the label `vapp` (legacy_app_label) listed BEFORE the app whose id is `vapp`:
    # a label names the app with that id first, a legacy label only when no app has the id
    import copy
    spec_l = copy.deepcopy(spec)
    spec_l['apps'].insert(0, {'id': 'myv', 'legacy': 'vapp', 'models': [
        mdl('myv', 'Category', [fld('note', 'IntegerField', null=True)]),
        mdl('myv', 'Item', [fld('cat', 'ForeignKey', 'myv.Category', null=True)])]})
    for q in ([rm('Category', 'Section')], [rm('Item', 'Product')],
              [{'t': 'DeleteField', 'model': 'Category', 'field': 'twin'}],
              [{'t': 'DeleteModel', 'model': 'Item'}]):
        out.append((spec_l, q))
    # the destination label of a RenameAppLabel already has an entry without models (an installed app that has no
    # models, or one whose last model was deleted)
    spec_e = copy.deepcopy(spec)
    spec_e['apps'].append({'id': 'lib', 'models': []})
    out.append((spec_e, [{'t': 'RenameAppLabel', 'old': 'vapp', 'new': 'lib', 'legacy': None, 'models': None}]))
    out.append((spec_e, [rm('Category', 'Section'),
                         {'t': 'RenameAppLabel', 'old': 'vapp', 'new': 'lib', 'legacy': None, 'models': None}]))
    # models whose NAMES contain the app label they are moved away from (label `vapp`, models `Evapps`, `vappNote`):
    # the label is a prefix of a reference, never a part of the model's name
    spec_n = {'apps': [
        {'id': 'vapp', 'models': [
            mdl('vapp', 'Evapps', [fld('parent', 'ForeignKey', 'vapp.Evapps', null=True),
                                   fld('peers', 'ManyToManyField', 'vapp.Evapps')]),
            mdl('vapp', 'vappNote', [fld('about', 'ForeignKey', 'vapp.Evapps', null=True)])]},
        {'id': 'wapp', 'models': [mdl('wapp', 'Listing', [fld('ev', 'ForeignKey', 'vapp.Evapps', null=True),
                                                          fld('note', 'OneToOneField', 'vapp.vappNote', null=True)])]}]}
    out.append((spec_n, [{'t': 'RenameAppLabel', 'old': 'vapp', 'new': 'lib', 'legacy': None, 'models': None}]))
    out.append((spec_n, [{'t': 'RenameAppLabel', 'old': 'vapp', 'new': 'lib', 'legacy': None, 'models': ['Evapps', 'vappNote']}]))
    out.append((spec_n, [{'t': 'RenameAppLabel', 'old': 'vapp', 'new': 'lib', 'legacy': 'vapp', 'models': None},
                         {'t': 'RenameModel', 'old': 'Evapps', 'new': 'Events', 'db_table': 'vapp_evapps'}]))
    # relations declared with project-defined SUBCLASSES of the relation classes (a ForeignKey subclass, a
    # ManyToManyField subclass): they are relations like any other
    spec_s = {'apps': [
        {'id': 'vapp', 'models': [
            mdl('vapp', 'Category', [fld('parent', 'TreeKey', 'vapp.Category', null=True)]),
            mdl('vapp', 'Item', [fld('cat', 'TreeKey', 'vapp.Category', null=True),
                                 fld('cats', 'TagsField', 'vapp.Category')])]},
        {'id': 'wapp', 'models': [mdl('wapp', 'Listing', [fld('cat', 'TreeKey', 'vapp.Category', null=True),
                                                          fld('plain', 'ForeignKey', 'vapp.Category', null=True)])]}]}
    out.append((spec_s, [rm('Category', 'Section')]))
    out.append((spec_s, [{'t': 'RenameAppLabel', 'old': 'vapp', 'new': 'lib', 'legacy': None, 'models': None}]))
    out.append((spec_s, [rm('Category', 'Section'),
                         {'t': 'RenameAppLabel', 'old': 'vapp', 'new': 'lib', 'legacy': None, 'models': ['Section']}]))
    # the referring app is managed by Django's migrations (its signature is stored all the same, and its relations are
    # resolved through it): its references follow a rename like any other
    spec_m = copy.deepcopy(spec)
    spec_m['apps'][1]['upgrade_method'] = 'migrations'
    out.append((spec_m, [rm('Category', 'Section')]))
    out.append((spec_m, [rm('Category', 'Section'), rm('Item', 'Product')]))
    # an app installed under a custom label goes back to the label it used to have (its own legacy label)
    spec_own = copy.deepcopy(spec)
    spec_own['apps'][0]['legacy'] = 'core'
    out.append((spec_own, [{'t': 'RenameAppLabel', 'old': 'vapp', 'new': 'core', 'legacy': None, 'models': None}]))
    out.append((spec_own, [{'t': 'RenameAppLabel', 'old': 'vapp', 'new': 'core', 'legacy': 'core', 'models': ['Category']}]))
    return out


def family_case(spec, seq):
    sig = sigs.sig_from_spec(spec)
    r = sigs.real_simulate(sig, 'vapp', [sigs.real_mutation(m) for m in seq])
    if r[0] != 'ok':
        return spec, sig, seq, None, set(), r
    return spec, sig, seq, r[1], set(), None


def run(ctx):
    dj.setup()
    quick = ctx.tier == 'quick'
    ctx.rule = ('two-app signatures with ForeignKey/OneToOne/ManyToMany relations in both directions (model names '
                'that are prefixes of each other: Al/Alpha, W/Wa) x sequences of RenameModel/RenameAppLabel/'
                'RenameField/DeleteField/DeleteModel/DeleteApplication accepted by the real simulation; a case is '
                'non-trivial when the start signature has at least one relation and the sequence is non-empty')
    n = 500 if quick else 8000
    cases = []
    req_cases = []
    fam = family()
    for _ in range(n):
        spec, sig, muts, final, deleted, crash = family_case(*fam.pop(0)) if fam else gen_case(ctx.rng)
        if not muts:
            continue
        cases.append((spec, sig, muts, final, deleted, crash))
        req_cases.append((spec, sig, muts, final))
    res = simcorr.check_cases(ctx, req_cases, name='simulate(relations)')
    label_witness = None
    for (spec, sig, muts, final, deleted, crash), (real, model_out, agree) in zip(cases, res):
        nrel = sum(1 for a in sig.app_sigs for m in a.model_sigs for f in m.field_sigs if f.related_model)
        ctx.case({'models': {a['id']: [m['name'] for m in a['models']] for a in spec['apps']},
                  'mutations': [sigs.model_mutation(m) for m in muts]}, nontrivial=nrel > 0)
        has_label = any(m['t'] == 'RenameAppLabel' for m in muts)
        if final is None:
            # real RenameAppLabel crashed
            if has_label and agree:
                label_witness = label_witness or {'spec': spec, 'mutations': muts, 'observed': 'crash: %r' % (crash,)}
            else:
                ctx.fail(None, 'RenameAppLabel raised an unexpected error', {'spec': spec, 'mutations': muts,
                                                                             'observed': repr(crash)})
            continue
        d = dangling(final, deleted)
        ctx.count('dangling' if d else 'consistent')
        if d:
            rep = {'spec': spec, 'mutations': muts, 'dangling': d}
            if has_label and agree:
                # exactly what the model of today's RenameAppLabel reference loop predicts
                if label_witness is None or len(muts) < len(label_witness['mutations']):
                    label_witness = rep
            else:
                ctx.fail(None, 'a relation names a model that no longer exists: %s' % d[0], rep)
    # Lean witness of F12 on the real code
    w = f12_witness()
    ctx.variant['rename_app_label_rewrites_refs'] = not w['dangling']
    if w['dangling']:
        ctx.fail(FINDING_LABEL, 'RenameAppLabel leaves %s' % w['dangling'][0], w)
    elif label_witness is not None:
        ctx.fail(None, 'dangling reference after RenameAppLabel', label_witness)
    if label_witness is not None and w['dangling']:
        ctx.fail(FINDING_LABEL, 'RenameAppLabel does not rewrite references', label_witness)

    # ---- database side: foreign keys after renames ---------------------------------------
    ndb = 60 if quick else 800
    done = 0
    tries = 0
    while done < ndb and tries < ndb * 6 and ctx.time_left() > 30:
        tries += 1
        spec = sigs.gen_spec(ctx.rng, 'vapp', n_models=ctx.rng.randint(2, 3), with_meta=False)
        models = dbrig.build_models(spec)
        sig = dbrig.sig_from_models(models)
        nrel = sum(1 for a in sig.app_sigs for m in a.model_sigs for f in m.field_sigs
                   if f.related_model and f.field_type.__name__ != 'ManyToManyField')
        if not nrel:
            continue
        muts, final = sigs.gen_sequence(ctx.rng, sig, 'vapp', ctx.rng.randint(1, 3),
                                        kinds=['RenameModel'] * 3 + ['RenameField'] * 2 + ['DeleteField', 'DeleteModel'])
        if final is None or not muts or not any(m['t'].startswith('Rename') for m in muts):
            continue
        done += 1
        rep = {'kind': 'db', 'spec': spec, 'mutations': muts}
        bad = db_fk_case(spec, muts)
        ctx.case({'db': True, 'mutations': [sigs.model_mutation(m) for m in muts]}, nontrivial=True, sample_cap=8)
        ctx.count('db_fk_cases')
        if bad:
            ctx.count('db_fk_bad')
            ctx.fail(bad[0], bad[1], dict(rep, observed=bad[2]))


def db_fk_case(spec, muts):
    """returns None or (finding, what, observed)"""
    models = dbrig.build_models(spec)
    sig = dbrig.sig_from_models(models)
    dbrig.reset_db('default')
    dbrig.create_tables(models, 'default')
    try:
        out = dbrig.evolve(sig, 'vapp', [sigs.real_mutation(m) for m in muts], one_at_a_time=True)
    except Exception as e:
        # failures to execute are C01's business; C11 only judges foreign keys of completed runs
        return None
    schema = dbrig.abs_schema('default')
    # tables of explicitly deleted models are exempt (the property says so)
    deleted_tables = set()
    cur = sig.clone()
    for mj in muts:
        if mj['t'] == 'DeleteModel':
            ms = cur.get_app_sig('vapp').get_model_sig(mj['model'])
            if ms is not None:
                deleted_tables.add(ms.table_name)
        r = sigs.real_simulate(cur, 'vapp', [sigs.real_mutation(mj)])
        if r[0] == 'ok':
            cur = r[1]
    problems = []
    for t, info in schema.items():
        for col, tt, tc in info['fks']:
            if tt in deleted_tables:
                continue
            if tt not in schema:
                problems.append('%s.%s references missing table %s' % (t, col, tt))
            elif tc not in schema[tt]['columns']:
                problems.append('%s.%s references missing column %s.%s' % (t, col, tt, tc))
    viol = [v for v in dbrig.fk_check('default') if v[2] not in deleted_tables]
    if viol:
        problems.append('foreign_key_check: %r' % viol[:3])
    if problems:
        return (None, 'after the evolution a foreign key no longer points at an existing table/column: %s'
                % problems[0], problems)
    return None


def f12_witness():
    """Lean `C11_cex_renameAppLabel_not_rewritten` on the real code"""
    spec = {'apps': [
        {'id': 'a', 'models': [{'name': 'Book', 'table': 'a_book', 'fields': [
            {'name': 'id', 'type': 'AutoField', 'attrs': {'primary_key': True}, 'related': None}]}]},
        {'id': 'b', 'models': [{'name': 'Page', 'table': 'b_page', 'fields': [
            {'name': 'id', 'type': 'AutoField', 'attrs': {'primary_key': True}, 'related': None},
            {'name': 'book', 'type': 'ForeignKey', 'attrs': {}, 'related': 'a.Book'}]}]}]}
    sig = sigs.sig_from_spec(spec)
    mj = {'t': 'RenameAppLabel', 'old': 'a', 'new': 'lib', 'legacy': None, 'models': None}
    r = sigs.real_simulate(sig, 'a', [sigs.real_mutation(mj)])
    if r[0] != 'ok':
        return {'spec': spec, 'mutations': [mj], 'dangling': ['error: %r' % (r,)]}
    return {'spec': spec, 'mutations': [mj], 'dangling': dangling(r[1], set())}


def replay(ctx, obj):
    dj.setup()
    r = obj.get('replay', obj)
    if r.get('kind') == 'db':
        bad = db_fk_case(r['spec'], r['mutations'])
        print('db case:', bad)
        return 1 if bad else 0
    sig = sigs.sig_from_spec(r['spec'])
    res = sigs.real_simulate(sig, r['spec']['apps'][0]['id'], [sigs.real_mutation(m) for m in r['mutations']])
    if res[0] != 'ok':
        print('simulation error:', res)
        return 1
    d = dangling(res[1], set())
    print('dangling references (deleted models not discounted in replay):', d)
    return 1 if d else 0
