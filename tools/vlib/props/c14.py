"""C14 — the SQL preview is exactly what an execution would run; output is deterministic.

Lean: DEvo/Props/C14.lean (`C14_perm_invariant`: statements emitted per element of a set are
independent of the set's iteration order iff the iteration is sorted; `C14_equal_if_defs_unchanged`:
a second generation over unchanged definitions equals the first; counterexamples for both).
Tie: `Generated.togetherIteration` is read from the source of `change_meta_unique_together` /
`change_meta_index_together` each run; the optimiser model (`optimize` driver op, tied by C03's
correspondence) says whether the first pass rewrote the definitions.
Oracle on the real code: every case is run in several processes with different PYTHONHASHSEED;
each runs `evolve --sql`, `evolve --hint` and `evolve --execute` (tools/vlib/c14_worker.py);
preview vs executed statements per process, and preview / executed / hint across processes.
"""
import json
import os
import subprocess
import sys
import tempfile

from .. import dbrig, evocases, evorig, sigs

F_DEFS = 'F4'
F_SETORDER = 'F14'
HERE = os.path.dirname(os.path.dirname(os.path.abspath(__file__)))


def fld(name, t, related=None, **attrs):
    return {'name': name, 'type': t, 'attrs': attrs, 'related': related}


def together_family():
    """deterministic family: unique_together / index_together go from one set of 0-3 pairs to another"""
    pairs = [['a', 'b'], ['c', 'd'], ['a', 'c'], ['b', 'd']]
    moves = [([], pairs[:3]), (pairs[:3], []), (pairs[:2], pairs[2:]), ([pairs[0]], pairs), (pairs, [pairs[3]])]
    out = []
    for prop in ('unique_together', 'index_together'):
        for old, new in moves:
            m0 = {'name': 'Alpha', 'table': 'vapp_alpha', 'unique_together': [], 'index_together': [], 'indexes': [],
                  'constraints': [],
                  'fields': [fld('id', 'AutoField', primary_key=True)] + [fld(n, 'IntegerField') for n in 'abcd']}
            m1 = dict(m0)
            m0 = dict(m0, **{prop: old})
            m1 = dict(m1, **{prop: new})
            out.append({'spec0': {'apps': [{'id': 'vapp', 'models': [m0]}]},
                        'spec1': {'apps': [{'id': 'vapp', 'models': [m1]}]},
                        'muts': [{'t': 'ChangeMeta', 'model': 'Alpha', 'prop': prop, 'py_value': [tuple(p) for p in new]}],
                        'rows': False, 'family': 'together'})
    return out


def index_family():
    """deterministic family: db_index switched on or off on 2-5 columns of one model in one evolution (the
    statements then concern several single-column indexes of one table; their order must not depend on how
    the field objects happen to hash)"""
    out = []
    for n in (2, 3, 4, 5):
        for extra in (False, True):
            for on in (False, True):
                cols = list('abcde')[:n]
                others = [fld('z', 'CharField', max_length=10, null=True)] if extra else []
                m0 = {'name': 'Alpha', 'table': 'vapp_alpha', 'unique_together': [], 'index_together': [], 'indexes': [],
                      'constraints': [], 'fields': [fld('id', 'AutoField', primary_key=True)] + others +
                      [fld(c, 'IntegerField', **({} if on else {'db_index': True})) for c in cols]}
                m1 = dict(m0, fields=[fld('id', 'AutoField', primary_key=True)] + others +
                          [fld(c, 'IntegerField', **({'db_index': True} if on else {})) for c in cols])
                out.append({'spec0': {'apps': [{'id': 'vapp', 'models': [m0]}]},
                            'spec1': {'apps': [{'id': 'vapp', 'models': [m1]}]},
                            'muts': [{'t': 'ChangeField', 'model': 'Alpha', 'field': c, 'ftype': None, 'initial': None,
                                      'attrs': [['db_index', 'true' if on else 'false']]} for c in cols],
                            'rows': False, 'family': 'column-indexes'})
    return out


def meta_indexes_family():
    """deterministic family: Meta.indexes (and Meta.constraints) of one model go from one list of 2-5 named entries to
    another in one ChangeMeta - several entries dropped, several created: the statements come in the declared order in
    every process"""
    out = []
    names = ['alpha', 'beta', 'gamma', 'delta', 'epsilon']
    cols = list('abcde')
    base_fields = [fld('id', 'AutoField', primary_key=True)] + [fld(c, 'IntegerField', null=True) for c in cols]
    ix = lambda k: {'name': 'vapp_alpha_%s_idx' % names[k], 'fields': [cols[k]]}
    for old, new in (([0, 1, 2, 3], []), ([0, 1, 2, 3, 4], [2]), ([3, 1, 0], [4, 2]), ([], [0, 1, 2, 3]), ([4, 3, 2, 1, 0], [])):
        m0 = {'name': 'Alpha', 'table': 'vapp_alpha', 'unique_together': [], 'index_together': [],
              'indexes': [ix(k) for k in old], 'constraints': [], 'fields': base_fields}
        m1 = dict(m0, indexes=[ix(k) for k in new])
        out.append({'spec0': {'apps': [{'id': 'vapp', 'models': [m0]}]},
                    'spec1': {'apps': [{'id': 'vapp', 'models': [m1]}]},
                    'muts': [{'t': 'ChangeMeta', 'model': 'Alpha', 'prop': 'indexes', 'py_value': [ix(k) for k in new]}],
                    'rows': False, 'family': 'meta-indexes'})
    return out


def delete_m2m_family():
    """deterministic family: a model with several many-to-many fields is deleted (one DROP TABLE per join table)"""
    out = []
    for n in (2, 3, 4):
        alpha = {'name': 'Alpha', 'table': 'vapp_alpha', 'unique_together': [], 'index_together': [], 'indexes': [],
                 'constraints': [], 'fields': [fld('id', 'AutoField', primary_key=True), fld('a', 'IntegerField', null=True)]}
        doomed = {'name': 'Doomed', 'table': 'vapp_doomed', 'unique_together': [], 'index_together': [], 'indexes': [],
                  'constraints': [], 'fields': [fld('id', 'AutoField', primary_key=True)] +
                  [fld(nm, 'ManyToManyField', 'vapp.Alpha') for nm in ['tags', 'authors', 'editors', 'zones'][:n]]}
        out.append({'spec0': {'apps': [{'id': 'vapp', 'models': [alpha, doomed]}]},
                    'spec1': {'apps': [{'id': 'vapp', 'models': [alpha]}]},
                    'muts': [{'t': 'DeleteModel', 'model': 'Doomed'}], 'rows': False, 'family': 'delete-m2m'})
    return out


def delete_model_family():
    """deterministic family: one upgrade deletes a model and changes another one (two evolutions' worth of work in
    one preview): the DROP TABLE is previewed like everything else"""
    out = []
    alpha = {'name': 'Alpha', 'table': 'vapp_alpha', 'unique_together': [], 'index_together': [], 'indexes': [],
             'constraints': [], 'fields': [fld('id', 'AutoField', primary_key=True), fld('a', 'IntegerField', null=True)]}
    alpha1 = dict(alpha, fields=alpha['fields'] + [fld('b', 'IntegerField', null=True)])
    coupon = {'name': 'Coupon', 'table': 'vapp_coupon', 'unique_together': [], 'index_together': [], 'indexes': [],
              'constraints': [], 'fields': [fld('id', 'AutoField', primary_key=True), fld('code', 'IntegerField', null=True)]}
    add = {'t': 'AddField', 'model': 'Alpha', 'field': 'b', 'ftype': 'IntegerField', 'initial': None, 'attrs': [['null', 'true']]}
    dele = {'t': 'DeleteModel', 'model': 'Coupon'}
    for muts in ([add, dele], [dele, add]):
        out.append({'spec0': {'apps': [{'id': 'vapp', 'models': [alpha, coupon]}]},
                    'spec1': {'apps': [{'id': 'vapp', 'models': [alpha1]}]},
                    'muts': muts, 'rows': True, 'family': 'delete-model-next-to-a-change'})
    return out


def two_app_family():
    """deterministic family: two apps with pending evolutions in one run, listed in INSTALLED_APPS in an order that is
    not the alphabetical one (vapp before lapp): the preview shows the apps in the order the execution takes them"""
    def m(app, name, fields):
        return {'name': name, 'table': '%s_%s' % (app, name.lower()), 'unique_together': [], 'index_together': [],
                'indexes': [], 'constraints': [], 'fields': [fld('id', 'AutoField', primary_key=True)] + fields}
    v0, l0 = m('vapp', 'Alpha', [fld('a', 'IntegerField', null=True)]), m('lapp', 'Thing', [fld('t', 'IntegerField', null=True)])
    v1 = m('vapp', 'Alpha', [fld('a', 'IntegerField', null=True), fld('b', 'IntegerField', null=True)])
    l1 = m('lapp', 'Thing', [fld('t', 'IntegerField', null=True), fld('u', 'IntegerField', null=True)])
    add = lambda model, field: {'t': 'AddField', 'model': model, 'field': field, 'ftype': 'IntegerField', 'initial': None,
                                'attrs': [['null', 'true']]}
    return [{'spec0': {'apps': [{'id': 'vapp', 'models': [v0]}, {'id': 'lapp', 'models': [l0]}]},
             'spec1': {'apps': [{'id': 'vapp', 'models': [v1]}, {'id': 'lapp', 'models': [l1]}]},
             'muts': [add('Alpha', 'b')], 'extra_evolutions': {'lapp': [add('Thing', 'u')]},
             'rows': False, 'family': 'two-apps-not-alphabetical'},
            # ... and the second app's only pending evolution concerns a model that is new in this release (its table is
            # created from the model, the evolution is merely recorded): nothing of the first app runs under its name
            {'spec0': {'apps': [{'id': 'vapp', 'models': [v0]}, {'id': 'lapp', 'models': [l0]}]},
             'spec1': {'apps': [{'id': 'vapp', 'models': [v1]},
                                {'id': 'lapp', 'models': [l0, m('lapp', 'Shelf', [fld('note', 'IntegerField', null=True)])]}]},
             'muts': [add('Alpha', 'b')], 'extra_evolutions': {'lapp': [add('Shelf', 'note')]},
             'rows': False, 'family': 'two-apps-not-alphabetical'},
            # ... and the first app has two pending evolutions, the later of which has to wait for the second app,
            # which has a model to create: the dependency graph comes back to the first app's task a second time
            {'spec0': {'apps': [{'id': 'vapp', 'models': [v0]}, {'id': 'lapp', 'models': [l0]}]},
             'spec1': {'apps': [{'id': 'vapp', 'models': [m('vapp', 'Alpha', [fld('a', 'IntegerField', null=True),
                                                                              fld('b', 'IntegerField', null=True),
                                                                              fld('c', 'CharField', max_length=30, null=True)])]},
                                {'id': 'lapp', 'models': [l0, m('lapp', 'Shelf', [fld('note', 'IntegerField', null=True)])]}]},
             'muts': [add('Alpha', 'b'), {'t': 'AddField', 'model': 'Alpha', 'field': 'c', 'ftype': 'CharField',
                                          'initial': None, 'attrs': [['max_length', '30'], ['null', 'true']]}],
             'evolutions': [{'label': 'e1', 'muts': [add('Alpha', 'b')]},
                            {'label': 'e2', 'after_evolutions': ['lapp'],
                             'muts': [{'t': 'AddField', 'model': 'Alpha', 'field': 'c', 'ftype': 'CharField',
                                       'initial': None, 'attrs': [['max_length', '30'], ['null', 'true']]}]}],
             'rows': False, 'family': 'two-apps-not-alphabetical'},
            # ... and both apps have pending evolutions, the first app's LATER one waiting for the second app's
            {'spec0': {'apps': [{'id': 'vapp', 'models': [v0]}, {'id': 'lapp', 'models': [l0]}]},
             'spec1': {'apps': [{'id': 'vapp', 'models': [m('vapp', 'Alpha', [fld('a', 'IntegerField', null=True),
                                                                              fld('b', 'IntegerField', null=True),
                                                                              fld('c', 'CharField', max_length=30, null=True)])]},
                                {'id': 'lapp', 'models': [l1]}]},
             'muts': [add('Alpha', 'b'), {'t': 'AddField', 'model': 'Alpha', 'field': 'c', 'ftype': 'CharField',
                                          'initial': None, 'attrs': [['max_length', '30'], ['null', 'true']]}],
             'evolutions': [{'label': 'e1', 'muts': [add('Alpha', 'b')]},
                            {'label': 'e2', 'after_evolutions': [('lapp', 'e1')],
                             'muts': [{'t': 'AddField', 'model': 'Alpha', 'field': 'c', 'ftype': 'CharField',
                                       'initial': None, 'attrs': [['max_length', '30'], ['null', 'true']]}]}],
             'extra_evolutions': {'lapp': [add('Thing', 'u')]},
             'rows': False, 'family': 'two-apps-not-alphabetical'},
            # ... and the second app is up to date, with raw SQL in an evolution applied long ago: nothing of that is
            # previewed or executed when the first app is upgraded
            {'spec0': {'apps': [{'id': 'vapp', 'models': [v0]}, {'id': 'lapp', 'models': [l0]}]},
             'spec1': {'apps': [{'id': 'vapp', 'models': [v1]}, {'id': 'lapp', 'models': [l0]}]},
             'muts': [add('Alpha', 'b')],
             'applied_first': {'lapp': [{'t': 'SQLMutation', 'tag': 'old_fix', 'can_simulate': True,
                                         'sql': ['UPDATE lapp_thing SET t = 1;', 'UPDATE lapp_thing SET t = t + 1;']}]},
             'rows': False, 'family': 'two-apps-not-alphabetical'}]


def custom_field_family():
    """deterministic family: fields of two or three project-defined field classes (one module) are added: the written
    evolution imports them; its text must not depend on the hash seed either"""
    out = []
    for kinds in (['ShortCodeField', 'CountField'], ['CountField', 'AmountField', 'ShortCodeField'],
                  ['AmountField', 'CountField']):
        base = {'name': 'Alpha', 'table': 'vapp_alpha', 'unique_together': [], 'index_together': [], 'indexes': [],
                'constraints': [], 'fields': [fld('id', 'AutoField', primary_key=True), fld('a', 'IntegerField', null=True)]}
        new_fields = [fld('x%d' % i, k, null=True, **({'max_length': 8} if k == 'ShortCodeField' else {}))
                      for i, k in enumerate(kinds)]
        m1 = dict(base, fields=base['fields'] + new_fields)
        out.append({'spec0': {'apps': [{'id': 'vapp', 'models': [base]}]},
                    'spec1': {'apps': [{'id': 'vapp', 'models': [m1]}]},
                    'muts': [{'t': 'AddField', 'model': 'Alpha', 'field': f['name'], 'ftype': f['type'], 'initial': None,
                              'attrs': [['null', 'true']] + ([['max_length', '8']] if f['type'] == 'ShortCodeField' else [])}
                             for f in new_fields],
                    'rows': False, 'family': 'custom-field-imports'})
    return out


def bound_value_family():
    """deterministic family: initial values that reach the database as bound parameters of the table copy (booleans,
    strings with quotes and percent signs, negative numbers): the preview must show them as the execution binds them"""
    out = []
    base = {'name': 'Alpha', 'table': 'vapp_alpha', 'unique_together': [], 'index_together': [], 'indexes': [],
            'constraints': [], 'fields': [fld('id', 'AutoField', primary_key=True), fld('a', 'IntegerField', null=True),
                                          fld('ok', 'BooleanField', null=True)]}
    for initial in ('true', 'false'):
        m1 = dict(base, fields=base['fields'] + [fld('flag', 'BooleanField')])
        out.append({'spec0': {'apps': [{'id': 'vapp', 'models': [base]}]},
                    'spec1': {'apps': [{'id': 'vapp', 'models': [m1]}]},
                    'muts': [{'t': 'AddField', 'model': 'Alpha', 'field': 'flag', 'ftype': 'BooleanField',
                              'initial': initial, 'attrs': []}],
                    'rows': True, 'family': 'bound-values'})
    m1 = dict(base, fields=[fld('id', 'AutoField', primary_key=True), fld('a', 'IntegerField', null=True),
                            fld('ok', 'BooleanField')])
    out.append({'spec0': {'apps': [{'id': 'vapp', 'models': [base]}]},
                'spec1': {'apps': [{'id': 'vapp', 'models': [m1]}]},
                'muts': [{'t': 'ChangeField', 'model': 'Alpha', 'field': 'ok', 'ftype': None, 'initial': 'true',
                          'attrs': [['null', 'false']]}],
                'rows': True, 'family': 'bound-values'})
    m1 = dict(base, fields=base['fields'] + [fld('note', 'CharField', max_length=30), fld('n', 'IntegerField')])
    out.append({'spec0': {'apps': [{'id': 'vapp', 'models': [base]}]},
                'spec1': {'apps': [{'id': 'vapp', 'models': [m1]}]},
                'muts': [{'t': 'AddField', 'model': 'Alpha', 'field': 'note', 'ftype': 'CharField',
                          'initial': '"it\'s 100% \\"x\\""', 'attrs': [['max_length', '30']]},
                         {'t': 'AddField', 'model': 'Alpha', 'field': 'n', 'ftype': 'IntegerField', 'initial': '-5',
                          'attrs': []}],
                'rows': True, 'family': 'bound-values'})
    return out


def set_order_sensitive(case):
    """a ChangeMeta(unique_together/index_together) that adds or removes at least two entries"""
    old = {}
    for m in case['spec0']['apps'][0]['models']:
        for prop in ('unique_together', 'index_together'):
            old[(m['name'], prop)] = set(tuple(x) for x in m.get(prop) or [])
    for mu in case['muts']:
        if mu['t'] == 'ChangeMeta' and mu['prop'] in ('unique_together', 'index_together'):
            new = set(tuple(x) for x in sigs.norm_together(mu['py_value']))
            cur = old.get((mu['model'], mu['prop']), set())
            if len(new - cur) >= 2 or len(cur - new) >= 2:
                return True
            old[(mu['model'], mu['prop'])] = new
    return False


def sql_file_family():
    """an evolution shipped as SQL files, one per database alias with different contents (and, in one case, a
    generic file next to them): what `evolve --sql --database X` prints is what `--execute --database X` runs"""
    def fld(name, t, **attrs):
        return {'name': name, 'type': t, 'attrs': attrs, 'related': None}
    spec0 = {'apps': [{'id': 'vapp', 'models': [
        {'name': 'Note', 'table': 'vapp_note', 'unique_together': [], 'index_together': [], 'indexes': [],
         'constraints': [], 'fields': [fld('id', 'AutoField', primary_key=True),
                                       fld('title', 'CharField', max_length=20, null=True),
                                       fld('created', 'IntegerField', null=True)]}]}]}
    d = ['CREATE INDEX "vapp_note_title_idx" ON "vapp_note" ("title");']
    o = ['CREATE INDEX "vapp_note_title_oth" ON "vapp_note" ("title");',
         'CREATE INDEX "vapp_note_created_oth" ON "vapp_note" ("created");']
    g = ['CREATE INDEX "vapp_note_title_any" ON "vapp_note" ("title");']
    out = []
    for alias, files in (('other', {'default': d, 'other': o}), ('default', {'default': d, 'other': o}),
                         ('other', {'': g, 'default': d, 'other': o}), ('other', {'other': o})):
        out.append({'family': 'sql_files', 'spec0': spec0, 'spec1': spec0, 'muts': [], 'alias': alias,
                    'sql_files': files, 'rows': False})
    return out


def adjacent_sql_family():
    """SQLMutations next to each other (in one evolution, and at the end of one evolution / start of the next is the
    same list of pending mutations), alone and around a model mutation: each statement is previewed once and executed
    once"""
    base = {'name': 'Alpha', 'table': 'vapp_alpha', 'unique_together': [], 'index_together': [], 'indexes': [],
            'constraints': [], 'fields': [fld('id', 'AutoField', primary_key=True), fld('a', 'IntegerField', null=True),
                                          fld('b', 'IntegerField', null=True)]}
    spec0 = {'apps': [{'id': 'vapp', 'models': [base]}]}
    def sq(tag, stmt):
        return {'t': 'SQLMutation', 'tag': tag, 'sql': [stmt], 'can_simulate': True}
    s1 = sq('fill_a', 'UPDATE vapp_alpha SET a = 1;')
    s2 = sq('bump_b', 'UPDATE vapp_alpha SET b = COALESCE(b, 0) + 1;')
    s3 = sq('bump_a', 'UPDATE vapp_alpha SET a = a + 1;')
    out = []
    for muts in ([s1, s2], [s1, s2, s3]):
        out.append({'spec0': spec0, 'spec1': spec0, 'muts': muts, 'rows': True, 'family': 'adjacent-sql'})
    m1 = dict(base, fields=base['fields'] + [fld('n', 'IntegerField', null=True)])
    out.append({'spec0': spec0, 'spec1': {'apps': [{'id': 'vapp', 'models': [m1]}]},
                'muts': [{'t': 'AddField', 'model': 'Alpha', 'field': 'n', 'ftype': 'IntegerField', 'initial': None,
                          'attrs': [['null', 'true']]}, s2, s3],
                'rows': True, 'family': 'adjacent-sql'})
    return out


def merge_correspondence(ctx):
    """utils.datastructures.merge_dicts on generated batch infos of the shape _build_batches produces
    ({'task_evolutions': {task: {'evolutions', 'mutations'}}, 'new_models_tasks': [...]}), 2-5 consecutive nodes folded
    into the first, against the Lean model `mergeBatch`; and, on the real result alone, the rule C14 rests on: every
    task's evolutions come out in node order"""
    import random
    from collections import OrderedDict
    from django_evolution.utils.datastructures import merge_dicts
    rng = random.Random(ctx.seed * 211 + 5)
    n = 200 if ctx.tier == 'quick' else 4000
    tasks_pool = ['vapp', 'lapp', 'wapp']
    reqs, reals, cases = [], [], []
    for i in range(n):
        infos = []
        counter = 0
        for _ in range(rng.randint(2, 5)):
            ts = []
            for t in rng.sample(tasks_pool, rng.randint(0, 3)):
                k = rng.randint(0, 2)
                evs = ['%s_e%d' % (t, counter + j) for j in range(k)]
                counter += k
                ts.append([t, evs, ['mut(%s)' % e for e in evs]])
            infos.append({'tasks': ts, 'new_models': rng.sample(tasks_pool, rng.randint(0, 1))})
        if i == 0:
            infos = [{'tasks': [['vapp', ['e1'], ['m1']]], 'new_models': []},
                     {'tasks': [['lapp', ['x1'], []], ['vapp', ['e2'], ['m2']]], 'new_models': ['lapp']}]
        real = None
        for b in infos:
            d = {'task_evolutions': OrderedDict((t, {'evolutions': list(ev), 'mutations': list(mu)}) for t, ev, mu in b['tasks']),
                 'new_models_tasks': list(b['new_models'])}
            if real is None:
                real = d
            else:
                merge_dicts(real, d)
        impl = {'tasks': [[t, v['evolutions'], v['mutations']] for t, v in real['task_evolutions'].items()],
                'new_models': real['new_models_tasks']}
        cases.append(infos)
        reals.append(impl)
        reqs.append({'op': 'merge_batches', 'infos': infos})
    outs = ctx.driver.ask(reqs) if ctx.driver else [None] * n
    for infos, impl, out in zip(cases, reals, outs):
        ctx.count('merge_cases')
        if out is not None:
            ctx.corr_case('batch_merge', out == impl, case={'infos': infos}, model=out, impl=impl)
        for t in tasks_pool:
            want = [e for b in infos for tt, ev, _ in b['tasks'] if tt == t for e in ev]
            got = [e for tt, ev, _ in impl['tasks'] if tt == t for e in ev]
            if want != got:
                ctx.fail(None, 'merging consecutive graph nodes into one batch puts the evolutions of %s in the order %r, '
                         'the nodes came in the order %r' % (t, got, want), {'scenario': 'merge_dicts', 'infos': infos})
                break


def flat(groups):
    return [s for g in groups for s in g[1]]


def run_workers(cases, seeds, ctx):
    d = tempfile.mkdtemp(prefix='devo-c14-')
    inp = os.path.join(d, 'cases.json')
    json.dump(cases, open(inp, 'w'))
    procs = []
    for hs in seeds:
        out = os.path.join(d, 'out-%s.json' % hs)
        env = dict(os.environ, PYTHONHASHSEED=str(hs))
        p = subprocess.Popen([sys.executable, '-B', os.path.join(HERE, 'c14_worker.py'), inp, out], env=env,
                             stdout=subprocess.PIPE, stderr=subprocess.STDOUT)
        procs.append((hs, p, out))
    res = {}
    for hs, p, out in procs:
        log = p.communicate(timeout=max(60, ctx.time_left()))[0]
        if p.returncode != 0 or not os.path.exists(out):
            raise RuntimeError('C14 worker (PYTHONHASHSEED=%s) failed: %s' % (hs, log.decode()[-600:]))
        res[hs] = json.load(open(out))['results']
    import shutil
    shutil.rmtree(d, True)
    return res


def run(ctx):
    evorig.setup()
    from .c16 import load_correspondence
    load_correspondence(ctx)
    merge_correspondence(ctx)
    quick = ctx.tier == 'quick'
    seeds = [1, 2, 3, 4] if quick else list(range(1, 17))
    ctx.rule = ('upgrades V0 -> V1 of one generated app (1-3 mutations incl. ChangeMeta, rows present) plus the '
                'deterministic family "unique_together/index_together from one set of 0-4 pairs to another"; every case '
                'run in %d processes with different PYTHONHASHSEED, each doing `evolve --sql`, `evolve --hint`, '
                '`evolve --execute`; non-trivial = the preview has at least one statement' % len(seeds))
    flag = ctx.variant.get('together_iteration')
    n = 82 if quick else 600
    cases = [{'case': c, 'seed': i} for i, c in enumerate(together_family() + index_family() + meta_indexes_family() + delete_m2m_family() + custom_field_family() + sql_file_family() + bound_value_family() + delete_model_family() + two_app_family() + adjacent_sql_family())]
    tries = 0
    while len(cases) < n + 10 and tries < n * 6:
        tries += 1
        c = evocases.gen_upgrade(ctx.rng, with_meta=True, max_len=3,
                                 kinds=['AddField'] * 3 + ['ChangeField'] * 3 + ['DeleteField'] + ['RenameField'] +
                                 ['ChangeMeta'] * 3)
        if c is not None:
            cases.append({'case': c, 'seed': ctx.seed * 977 + tries})
    # the optimiser model: does the first generation rewrite the definitions?
    reqs = []
    for c in cases:
        ex = [m['name'] for m in c['case']['spec0']['apps'][0]['models']]
        reqs.append({'op': 'optimize', 'existing': ex, 'copies': bool(ctx.variant.get('optimizer_copies')),
                     'mutations': [sigs.model_mutation(m) for m in c['case']['muts']]})
    outs = ctx.driver.ask(reqs) if ctx.driver else [None] * len(cases)
    res = run_workers(cases, seeds, ctx)
    w_defs = w_set = None
    for i, c in enumerate(cases):
        case = c['case']
        rs = {hs: res[hs][i] for hs in seeds}
        rep = {'case': case, 'rig_seed': c['seed'], 'hashseeds': seeds}
        if any('rig_error' in r for r in rs.values()):
            ctx.count('rig_error')
            continue
        r0 = rs[seeds[0]]
        mm = [sigs.model_mutation(m) for m in case['muts']]
        defs_changed = None
        if outs[i] is not None and 'arr' in outs[i]:
            defs_changed = outs[i]['arr'] != mm
        ctx.case({'mutations': mm, 'family': case.get('family', 'generated')}, nontrivial=bool(flat(r0['preview'])),
                 sample_cap=6)
        ctx.count('family:%s' % case.get('family', 'generated'))
        for m in case['muts']:
            ctx.count('mut:' + m['t'])
        sens = set_order_sensitive(case)
        # ---- per process: preview = execution, preview does not touch the database ----------
        for hs in seeds:
            r = rs[hs]
            rr = dict(rep, hashseed=hs)
            if r['preview_touched_db'] or r['preview_writes']:
                ctx.fail(None, '`evolve --sql` modified the database: %s' % (r['preview_writes'][:2],), rr)
            if r['preview_status'] != 'ok' and r['execute_status'] != 'ok':
                ctx.count('both_rejected')
                if case.get('family') in ('delete-m2m', 'delete-model-next-to-a-change', 'bound-values', 'sql_files',
                                          'two-apps-not-alphabetical', 'adjacent-sql'):
                    # these upgrades are valid by construction
                    ctx.fail(None, 'a valid upgrade is refused by the preview (%s) and by the execution (%s)'
                             % (r['preview_error'], r['execute_error']), rr)
                continue
            if r['preview_status'] == 'ok' and r['execute_status'] != 'ok':
                if 'Error applying evolution' in (r['execute_error'] or ''):
                    # the database rejected a statement (existing rows violate a new constraint, or one of the
                    # SQL-generation findings recorded under C01): what ran up to and including the rejected
                    # statement must still be exactly the beginning of the preview
                    ctx.count('database rejected a previewed statement')
                    ex, pv = flat(r['executed']), flat(r['preview'])
                    if not ex or ex != pv[:len(ex)]:
                        ctx.fail(None, 'the statements executed before the database error are not a prefix of the '
                                 'preview: executed %r, preview %r' % (ex[-1:], pv[len(ex) - 1:len(ex)]), rr)
                    continue
                ctx.fail(None, 'the preview succeeds but the execution fails: %s' % r['execute_error'], rr)
                continue
            if r['preview_status'] != 'ok':
                ctx.fail(None, 'the preview fails (%s) but the execution succeeds' % r['preview_error'], rr)
                continue
            pv, ex = flat(r['preview']), flat(r['executed'])
            ctx.count('preview==executed' if pv == ex else 'preview!=executed')
            if pv != ex:
                k = next((j for j in range(min(len(pv), len(ex))) if pv[j] != ex[j]), min(len(pv), len(ex)))
                what = ('preview and execution differ at statement %d: preview %r, executed %r'
                        % (k, (pv[k:k + 1] or ['<end>'])[0][:120], (ex[k:k + 1] or ['<end>'])[0][:120]))
                if defs_changed:
                    w_defs = w_defs or (what, rr)
                else:
                    ctx.fail(None, what, rr)
            # the hinted path
            if r.get('hpreview_status') == 'ok' and r.get('hexecute_status') == 'ok':
                hp, hx = flat(r['hpreview']), flat(r['hexecuted'])
                ctx.count('hinted preview==executed' if hp == hx else 'hinted preview!=executed')
                if hp != hx:
                    ctx.fail(None, '`evolve --hint --sql` and `evolve --hint --execute` differ: preview %r, executed %r'
                             % (hp[:2], hx[:2]), rr)
            elif r.get('hpreview_status') == 'ok' and 'Error applying evolution' in (r.get('hexecute_error') or ''):
                ctx.count('database rejected a previewed statement')
                hp, hx = flat(r['hpreview']), flat(r['hexecuted'])
                if not hx or hx != hp[:len(hx)]:
                    ctx.fail(None, 'hinted path: the statements executed before the database error are not a prefix '
                             'of the preview: executed %r, preview %r' % (hx[-1:], hp[len(hx) - 1:len(hx)]), rr)
            elif (r.get('hpreview_status') == 'ok') != (r.get('hexecute_status') == 'ok'):
                ctx.fail(None, 'hinted preview %s (%s) but hinted execution %s (%s)'
                         % (r.get('hpreview_status'), r.get('hpreview_error'), r.get('hexecute_status'),
                            r.get('hexecute_error')), rr)
            else:
                ctx.count('hinted path rejected (needs initial value)')
        # ---- across processes: same preview, same execution, same hint ---------------------
        for key, name in (('preview', '`evolve --sql` output'), ('executed', 'executed statements'),
                          ('hint', '`evolve --hint` output'), ('hpreview', '`evolve --hint --sql` output'),
                          ('hexecuted', 'statements executed by `evolve --hint --execute`')):
            vals = {}
            for hs in seeds:
                vals.setdefault(json.dumps(rs[hs][key]), []).append(hs)
            ctx.count('%s:%s' % (key, 'same for all seeds' if len(vals) == 1 else 'differs across seeds'))
            if len(vals) > 1:
                groups = sorted(vals.values())
                a, b = json.loads([k for k, v in vals.items() if v == groups[0]][0]), \
                    json.loads([k for k, v in vals.items() if v == groups[1]][0])
                rr = dict(rep, differing=key, hashseed_groups=groups)
                what = '%s differs between PYTHONHASHSEED %s and %s' % (name, groups[0], groups[1])
                fa, fb = (flat(a), flat(b)) if key != 'hint' else (a.splitlines(), b.splitlines())
                same_multiset = sorted(fa) == sorted(fb)
                # model: with unsorted iteration the statements of one set are emitted in some permutation
                ctx.corr_case('set_iteration(permutation only)', same_multiset, case={'mutations': mm},
                              model='same statements in another order', impl=[fa[:6], fb[:6]])
                if sens and same_multiset and flag != 'sorted':
                    w_set = w_set or (what, rr)
                else:
                    ctx.fail(None, what, rr)
    ctx.variant['processes_per_case'] = len(seeds)
    if w_defs:
        ctx.fail(F_DEFS, 'the first generation (preview, task.sql) and the second (the batch that is executed) run the '
                 'optimiser over the same mutation objects, which the first pass rewrote: ' + w_defs[0], w_defs[1])
    if w_set:
        ctx.fail(F_SETORDER, w_set[0], w_set[1])


def replay(ctx, obj):
    evorig.setup()
    r = obj.get('replay', obj)
    cases = [{'case': r['case'], 'seed': r.get('rig_seed', 0)}]
    seeds = r.get('hashseeds', [1, 2, 3, 4])
    res = run_workers(cases, seeds, ctx)
    bad = 0
    outs = {}
    for hs in seeds:
        x = res[hs][0]
        pv, ex = flat(x.get('preview', [])), flat(x.get('executed', []))
        print('PYTHONHASHSEED=%s preview==executed: %s (%d/%d statements)' % (hs, pv == ex, len(pv), len(ex)))
        if x.get('preview_status') == 'ok' and x.get('execute_status') == 'ok' and pv != ex:
            bad = 1
        outs[hs] = json.dumps([x.get('preview'), x.get('executed'), x.get('hint')])
    if len(set(outs.values())) > 1:
        print('output differs across hash seeds')
        bad = 1
    return bad
