"""C09 — execution order respects every evolution/migration dependency.

Lean: DEvo/Graph/{Basic,Topo,Ordered,Batches}.lean, DEvo/Props/C09.lean.
Tie: differential correspondence of `DependencyGraph.get_ordered`/`get_leaf_nodes` and of
`EvolutionGraph.iter_batches` + `EvolveAppTask._build_batches` against the Lean model
(exhaustive over small digraphs, random larger), plus the property oracle on the real code.
"""
import itertools

from .. import dj
from ..core import canon

FINDING_CYCLE = 'F11'
FINDING_REGROUP = 'F16'


# ---------------------------------------------------------------------------
# real code
# ---------------------------------------------------------------------------

def real_order(n, adj, anchors=()):
    """Run the real DependencyGraph; returns ('ok', leaves, order) or ('error', type).  Nodes in `anchors` carry the
    state that EvolutionGraph gives its `__first__` / `__last__` nodes."""
    from django_evolution.utils.graph import DependencyGraph
    g = DependencyGraph()
    for i in range(n):
        if i in anchors:
            g.add_node('n%d' % i, {'anchor': True, 'type': 'anchor'})
        else:
            g.add_node('n%d' % i)
    for x, ds in enumerate(adj):
        for d in ds:
            g.add_dependency('n%d' % x, 'n%d' % d)
    g.finalize()
    # the order is asked for three times: a finalized graph gives the same answer (or the same error) every time,
    # and it is the LAST answer that is judged
    answers = []
    for _ in range(3):
        try:
            leaves = [int(nd.key[1:]) for nd in g.get_leaf_nodes()]
            order = [int(nd.key[1:]) for nd in g.get_ordered()]
            answers.append(('ok', leaves, order))
        except Exception as e:  # a (repaired) implementation may report cycles
            answers.append(('error', type(e).__name__))
    return answers[-1]


def real_order_late(n, adj, late):
    """the same graph built the way the class documents it may be: dependencies may name nodes that are added
    later.  The nodes in `late` are added only after a first finalize() complained about them; the second
    finalize() must link everything."""
    from django_evolution.utils.graph import DependencyGraph
    g = DependencyGraph()
    for i in range(n):
        if i not in late:
            g.add_node('n%d' % i)
    for x, ds in enumerate(adj):
        if x in late:
            continue
        for d in ds:
            g.add_dependency('n%d' % x, 'n%d' % d)
    complained = False
    try:
        g.finalize()
    except AssertionError:
        complained = True
    if not complained:
        return ('skip', None, False)       # nothing named a late node: the graph is closed now
    for i in sorted(late):
        g.add_node('n%d' % i)
    for x in sorted(late):
        for d in adj[x]:
            g.add_dependency('n%d' % x, 'n%d' % d)
    try:
        g.finalize()
        order = [int(nd.key[1:]) for nd in g.get_ordered()]
    except Exception as e:
        return ('error', type(e).__name__, complained)
    return ('ok', order, complained)


def late_node_cases(ctx, quick):
    """acyclic graphs, some of whose nodes arrive after a first finalize(): every requirement still holds"""
    import itertools
    done = 0
    for n in (2, 3, 4):
        for adj in graphs_exhaustive(n, False):
            if not is_acyclic(n, adj) or not any(adj):
                continue
            for k in (1, 2):
                for late in itertools.combinations(range(n), k):
                    if quick and n == 4 and (done % 5):
                        done += 1
                        continue
                    done += 1
                    r = real_order_late(n, adj, set(late))
                    ctx.count('late_nodes:%s' % r[0])
                    if r[0] == 'skip':
                        continue
                    ctx.case({'n': n, 'adj': adj, 'late': list(late)}, nontrivial=True, sample_cap=3)
                    rep = {'kind': 'late', 'n': n, 'adj': adj, 'late': list(late), 'observed': list(r)}
                    if r[0] != 'ok':
                        ctx.fail(None, 'an acyclic graph whose nodes %s were added after a first finalize() cannot be '
                                 'ordered: %s' % (list(late), r[1]), rep)
                    elif not order_ok(n, adj, r[1]):
                        ctx.fail(None, 'a requirement registered before its node existed is not respected once the node '
                                 'was added: order %s' % (r[1],), rep)


def real_order_rewired(n, adj, k):
    """the same graph, but the requirements of node k are registered twice: first a set that is withdrawn again
    (remove_dependencies, what marking something as applied does), then the real ones"""
    from django_evolution.utils.graph import DependencyGraph
    g = DependencyGraph()
    for i in range(n):
        g.add_node('n%d' % i)
    for x, ds in enumerate(adj):
        for d in ds:
            g.add_dependency('n%d' % x, 'n%d' % d)
    for d in range(n):
        if d != k:
            g.add_dependency('n%d' % k, 'n%d' % d)       # to be withdrawn
    g.remove_dependencies({'n%d' % k})                    # drops every pending requirement that names k
    for x, ds in enumerate(adj):
        for d in ds:
            if x == k or d == k:
                g.add_dependency('n%d' % x, 'n%d' % d)
    try:
        g.finalize()
        order = [int(nd.key[1:]) for nd in g.get_ordered()]
    except Exception as e:
        return ('error', type(e).__name__)
    return ('ok', order)


def rewired_cases(ctx, quick):
    """acyclic graphs one of whose nodes had its requirements withdrawn and registered again: every requirement in
    force at finalize() holds in the order"""
    done = 0
    for n in (2, 3, 4):
        for adj in graphs_exhaustive(n, False):
            if not is_acyclic(n, adj) or not any(adj):
                continue
            for k in range(n):
                if not adj[k] and not any(k in ds for ds in adj):
                    continue
                if quick and n == 4 and (done % 4):
                    done += 1
                    continue
                done += 1
                r = real_order_rewired(n, adj, k)
                ctx.count('rewired:%s' % r[0])
                ctx.case({'n': n, 'adj': adj, 'rewired': k}, nontrivial=True, sample_cap=3)
                rep = {'kind': 'rewired', 'n': n, 'adj': adj, 'node': k, 'observed': list(r)}
                if r[0] != 'ok':
                    ctx.fail(None, 'an acyclic graph in which node %d had its requirements withdrawn and registered again '
                             'cannot be ordered: %s' % (k, r[1]), rep)
                elif not order_ok(n, adj, r[1]):
                    ctx.fail(None, 'a requirement registered after an earlier one of the same node was withdrawn is not '
                             'respected: order %s' % (r[1],), rep)


def real_order_restated(n, adj, times):
    """the same graph with every requirement stated `times` times (two apps may each declare the same requirement:
    A's BEFORE_EVOLUTIONS and B's AFTER_EVOLUTIONS): a requirement stated twice is the requirement"""
    from django_evolution.utils.graph import DependencyGraph
    g = DependencyGraph()
    for i in range(n):
        g.add_node('n%d' % i)
    for _ in range(times):
        for x, ds in enumerate(adj):
            for d in ds:
                g.add_dependency('n%d' % x, 'n%d' % d)
    try:
        g.finalize()
        order = [int(nd.key[1:]) for nd in g.get_ordered()]
    except Exception as e:
        return ('error', type(e).__name__)
    return ('ok', order)


def restated_cases(ctx, quick):
    """acyclic graphs whose requirements are stated two and three times: the order respects every one of them;
    cyclic graphs stated twice are still reported"""
    done = 0
    for n in (2, 3, 4):
        for adj in graphs_exhaustive(n, False):
            if not any(adj):
                continue
            acyclic = is_acyclic(n, adj)
            for times in (2, 3):
                if quick and n == 4 and (done % 6):
                    done += 1
                    continue
                done += 1
                r = real_order_restated(n, adj, times)
                ctx.count('restated:%s' % r[0])
                ctx.case({'n': n, 'adj': adj, 'stated': times}, nontrivial=True, sample_cap=3)
                rep = {'kind': 'restated', 'n': n, 'adj': adj, 'times': times, 'observed': list(r)}
                if acyclic and r[0] != 'ok':
                    ctx.fail(None, 'an acyclic graph whose requirements are stated %d times cannot be ordered: %s'
                             % (times, r[1]), rep)
                elif acyclic and not order_ok(n, adj, r[1]):
                    ctx.fail(None, 'a requirement stated %d times is not respected: order %s' % (times, r[1]), rep)
                elif not acyclic and r[0] == 'ok':
                    ctx.fail(None, 'cyclic requirements stated %d times are not reported as an error: order %s'
                             % (times, r[1]), rep)


def is_acyclic(n, adj):
    state = [0] * n

    def visit(x):
        if state[x] == 1:
            return False
        if state[x] == 2:
            return True
        state[x] = 1
        for d in adj[x]:
            if not visit(d):
                return False
        state[x] = 2
        return True
    return all(visit(x) for x in range(n))


def order_ok(n, adj, order):
    """The property itself, on an acyclic graph: permutation + every dependency earlier."""
    if sorted(order) != list(range(n)):
        return False
    pos = {x: i for i, x in enumerate(order)}
    return all(pos[d] < pos[x] for x in range(n) for d in adj[x])


def graphs_exhaustive(n, self_loops):
    pairs = [(x, d) for x in range(n) for d in range(n) if self_loops or x != d]
    for mask in range(1 << len(pairs)):
        adj = [[] for _ in range(n)]
        for i, (x, d) in enumerate(pairs):
            if mask >> i & 1:
                adj[x].append(d)
        yield adj


def graph_random(rng, n, acyclic_bias):
    adj = [[] for _ in range(n)]
    p = rng.choice([0.1, 0.2, 0.35, 0.5])
    perm = list(range(n))
    rng.shuffle(perm)
    rank = {x: i for i, x in enumerate(perm)}
    for x in range(n):
        for d in range(n):
            if x == d:
                continue
            if rng.random() < p:
                if acyclic_bias and rank[d] >= rank[x]:
                    continue
                adj[x].append(d)
    return adj


# ---------------------------------------------------------------------------
# batches: real iter_batches + _build_batches on a hand-fed EvolutionGraph
# ---------------------------------------------------------------------------

class _FakeTask(object):
    def __init__(self, idx, labels):
        self.idx = idx
        self.app_label = 'app%d' % idx
        self._evolutions = [{'label': l, 'mutations': []} for l in labels]

    def __repr__(self):
        return '<task %d>' % self.idx


class _FakeEvolver(object):
    database_name = 'default'
    project_sig = None
    target_project_sig = None


def real_batches(units):
    """units: list of {'id','kind','task'} in the order the graph must return them
    (a chain of dependencies forces that order).  Returns the batches as built by the real
    code, flattened to lists of unit ids in the order execute_tasks would walk them."""
    from django_evolution.consts import UpgradeMethod
    from django_evolution.evolve.evolve_app_task import EvolveAppTask
    from django_evolution.models import Evolution
    from django_evolution.utils.graph import EvolutionGraph

    g = EvolutionGraph()
    tasks = {}
    for u in units:
        if u['kind'] == 'evolution':
            tasks.setdefault(u['task'], []).append('e%d' % u['id'])
    tasks = {t: _FakeTask(t, labels) for t, labels in tasks.items()}
    prev = None
    for u in units:
        key = 'u%d' % u['id']
        if u['kind'] == 'anchor':
            state = {'anchor': True}
        elif u['kind'] == 'evolution':
            t = tasks[u['task']]
            state = {'type': g.NODE_TYPE_EVOLUTION, 'task': t,
                     'evolution': Evolution(app_label=t.app_label, label='e%d' % u['id'])}
        elif u['kind'] == 'migration':
            state = {'type': g.NODE_TYPE_MIGRATION, 'migration_plan_item': ('m%d' % u['id'], False),
                     'migration_target': ('mig', 'm%d' % u['id'])}
        else:
            raise ValueError(u['kind'])
        g.add_node(key, state=state)
        if prev is not None:
            g.add_dependency(key, prev)
        prev = key
    g.finalize()
    batches = EvolveAppTask._build_batches(evolver=_FakeEvolver(), graph=g, hinted=False)
    out = []
    for b in batches:
        if b['type'] == UpgradeMethod.EVOLUTIONS:
            ids = []
            for task, info in b.get('task_evolutions', {}).items():
                ids += [int(l[1:]) for l in info['evolutions']]
            out.append(['E', ids])
        else:
            out.append(['M', [int(t[1][1:]) for t in b['migration_targets']]])
    return out


def units_random(rng, n):
    ntasks = rng.randint(1, 3)
    kinds = ['evolution'] * 5 + ['migration'] * 3 + ['anchor'] * 2
    return [{'id': i, 'kind': rng.choice(kinds), 'task': rng.randrange(ntasks)} for i in range(n)]


def units_exhaustive(n):
    opts = [('anchor', 0), ('migration', 0), ('evolution', 0), ('evolution', 1), ('evolution', 2)]
    for combo in itertools.product(opts, repeat=n):
        yield [{'id': i, 'kind': k, 'task': t} for i, (k, t) in enumerate(combo)]


def respects_graph_order(units, exec_ids):
    want = [u['id'] for u in units if u['kind'] != 'anchor']
    return exec_ids == want


# ---------------------------------------------------------------------------

def check_graph(ctx, n, adj, reqs, cases):
    reqs.append({'op': 'graph_order', 'n': n, 'adj': adj})
    cases.append((n, adj))


def run(ctx):
    dj.setup()
    ctx.rule = ('core: every digraph on <=N nodes (exhaustive) plus random digraphs up to 9 nodes, through the '
                'real DependencyGraph and the Lean model; batches: unit sequences (anchor/evolution/migration x '
                'task) through the real iter_batches/_build_batches and the Lean model; a case is non-trivial '
                'when it has at least one dependency edge (core) or two units (batches); distinct by canonical JSON')
    ctx.assumptions += ['node identity = insertion index; the dependency *set* of a node is iterated sorted by '
                        'insert_index (as the code does), so set iteration order is not observable',
                        'execute_tasks walks batches in list order, new models first, then task_evolutions in '
                        'OrderedDict order (read from the source; exercised end-to-end by the Evolver rig in C08/C17)']
    quick = ctx.tier == 'quick'
    late_node_cases(ctx, quick)
    rewired_cases(ctx, quick)
    restated_cases(ctx, quick)
    # ---- core: exhaustive + random -----------------------------------------
    reqs, cases = [], []
    for n, loops in ((1, True), (2, True), (3, True), (4, False)):
        for adj in graphs_exhaustive(n, loops):
            check_graph(ctx, n, adj, reqs, cases)
    if not quick:
        for adj in graphs_exhaustive(4, True):
            check_graph(ctx, 4, adj, reqs, cases)
        for _ in range(150000):
            check_graph(ctx, 5, graph_random(ctx.rng, 5, ctx.rng.random() < 0.5), reqs, cases)
    for _ in range(1500 if quick else 30000):
        n = ctx.rng.randint(5, 9)
        check_graph(ctx, n, graph_random(ctx.rng, n, ctx.rng.random() < 0.7), reqs, cases)
    ctx.exhaustive = False
    model = ctx.driver.ask(reqs) if ctx.driver else [None] * len(reqs)
    cyc_witness = None
    for (n, adj), m in zip(cases, model):
        real = real_order(n, adj)
        acyc = is_acyclic(n, adj)
        nontrivial = any(adj)
        ctx.case({'graph': {'n': n, 'adj': adj}}, nontrivial=nontrivial, sample_cap=3)
        ctx.count('acyclic' if acyc else 'cyclic')
        ctx.count('nodes=%d' % n)
        if m is not None:
            if real[0] == 'ok':
                ok = (m.get('order') == real[2] and m.get('leaves') == real[1])
            else:
                ok = (not acyc)   # an implementation that reports cycles is outside the model's `validate=false`
                ctx.variant['cycle_error_raised'] = True
            ctx.corr_case('get_ordered', ok, case={'n': n, 'adj': adj}, model=m, impl=real)
        # what a node carries (the anchor mark of the `__first__` / `__last__` nodes) has no say in the order or in
        # whether a cycle is reported: small graphs are run again with every second node, and with every node, marked
        if n <= 4:
            for anchors in (set(range(0, n, 2)), set(range(n))):
                real_a = real_order(n, adj, anchors)
                if real_a != real:
                    ctx.fail(None, 'the answer for a graph depends on which nodes are marked as anchors: %s, unmarked %s'
                             % (('no error, order %s' % (real_a[2],)) if real_a[0] == 'ok' else real_a[1],
                                ('order %s' % (real[2],)) if real[0] == 'ok' else real[1]),
                             {'kind': 'graph', 'n': n, 'adj': adj, 'anchors': sorted(anchors), 'observed': list(real_a)})
                    break
        # property oracle on the real code
        if acyc:
            if real[0] != 'ok' or not order_ok(n, adj, real[2]):
                ctx.fail(None, 'acyclic dependency graph is not linearised correctly',
                         {'kind': 'graph', 'n': n, 'adj': adj, 'observed': real})
        else:
            if real[0] == 'ok':
                ctx.count('cyclic_returned_order')
                if m is not None and m.get('order') == real[2]:
                    if cyc_witness is None:
                        cyc_witness = {'kind': 'graph', 'n': n, 'adj': adj, 'observed': real}
                else:
                    ctx.fail(None, 'cyclic requirements are not reported (and the returned order is not the '
                             'one the model of the unrepaired algorithm predicts)',
                             {'kind': 'graph', 'n': n, 'adj': adj, 'observed': real})
    # Lean witnesses of F11 replayed on the real code
    for name, (n, adj) in (('C09_cex_cycle_misordered', (3, [[1], [0], [0]])),
                           ('C09_cex_cycle_dropped', (2, [[1], [0]]))):
        real = real_order(n, adj)
        ctx.variant[name + '_reproduces'] = (real[0] == 'ok')
        if real[0] == 'ok':
            ctx.fail(FINDING_CYCLE, 'cyclic requirements are not reported: get_ordered returned %r' % (real[2],),
                     {'kind': 'graph', 'n': n, 'adj': adj, 'observed': real, 'lean_witness': name})
    if cyc_witness is not None:
        ctx.fail(FINDING_CYCLE, 'cyclic requirements are not reported as an error', cyc_witness)
    ctx.variant['validate'] = not ctx.counters.get('cyclic_returned_order')

    # ---- batches -------------------------------------------------------------
    ucases = []
    for n in (1, 2, 3, 4) if quick else (1, 2, 3, 4, 5):
        ucases += list(units_exhaustive(n))
    for _ in range(300 if quick else 5000):
        ucases.append(units_random(ctx.rng, ctx.rng.randint(4, 10)))
    model = ctx.driver.ask([{'op': 'exec_order', 'units': u} for u in ucases]) if ctx.driver else [None] * len(ucases)
    regroup_witness = None
    for units, m in zip(ucases, model):
        real = real_batches(units)
        real_exec = [i for _, ids in real for i in ids]
        ctx.case({'units': [(u['kind'][0], u['task']) for u in units]}, nontrivial=len(units) >= 2, sample_cap=6)
        ctx.count('batch_units=%d' % min(len(units), 6))
        if m is not None:
            ctx.corr_case('build_batches', m.get('exec') == real_exec, case=units, model=m, impl=real)
        # oracle: exactly once, and in graph order
        want = sorted(u['id'] for u in units if u['kind'] != 'anchor')
        if sorted(real_exec) != want:
            ctx.fail(None, 'a pending unit is dropped or duplicated by batching',
                     {'kind': 'units', 'units': units, 'observed': real})
        elif not respects_graph_order(units, real_exec):
            ctx.count('regrouped')
            if m is not None and m.get('exec') == real_exec:
                # exactly the deviation the model of per-task regrouping predicts (finding F16)
                if regroup_witness is None or len(units) < len(regroup_witness['units']):
                    regroup_witness = {'kind': 'units', 'units': units, 'observed': real}
            else:
                ctx.fail(None, 'units are executed in an order that differs from the dependency order '
                         '(and not in the way per-task regrouping explains)',
                         {'kind': 'units', 'units': units, 'observed': real})
    if regroup_witness is not None:
        ctx.fail(FINDING_REGROUP, 'an evolutions batch is regrouped per task, so units run in an order that '
                 'differs from the dependency order', regroup_witness)


def replay(ctx, obj):
    dj.setup()
    r = obj.get('replay', obj)
    if r.get('kind') == 'graph':
        real = real_order(r['n'], r['adj'], set(r.get('anchors') or ()))
        print('graph n=%d adj=%r -> %r (acyclic=%s)' % (r['n'], r['adj'], real, is_acyclic(r['n'], r['adj'])))
        bad = (real[0] == 'ok' and not order_ok(r['n'], r['adj'], real[2]))
        return 1 if bad else 0
    if r.get('kind') == 'late':
        real = real_order_late(r['n'], r['adj'], set(r['late']))
        print('graph n=%d adj=%r late=%r -> %r' % (r['n'], r['adj'], r['late'], real))
        return 0 if real[0] == 'ok' and order_ok(r['n'], r['adj'], real[1]) else 1
    if r.get('kind') == 'rewired':
        real = real_order_rewired(r['n'], r['adj'], r['node'])
        print('graph n=%d adj=%r rewired node=%r -> %r' % (r['n'], r['adj'], r['node'], real))
        return 0 if real[0] == 'ok' and order_ok(r['n'], r['adj'], real[1]) else 1
    if r.get('kind') == 'restated':
        real = real_order_restated(r['n'], r['adj'], r['times'])
        print('graph n=%d adj=%r stated %d times -> %r' % (r['n'], r['adj'], r['times'], real))
        acyclic = is_acyclic(r['n'], r['adj'])
        return 0 if (acyclic and real[0] == 'ok' and order_ok(r['n'], r['adj'], real[1])) or (not acyclic and real[0] != 'ok') else 1
    if r.get('kind') == 'units':
        real = real_batches(r['units'])
        ex = [i for _, ids in real for i in ids]
        print('units=%s -> batches %r' % (canon(r['units']), real))
        return 0 if respects_graph_order(r['units'], ex) else 1
    print('nothing to replay in this file (no concrete input)')
    return 0
