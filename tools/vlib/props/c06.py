"""C06 — stored project signatures read back exactly as written.

Lean: DEvo/Ser/Sig.lean (serialize_to_signature, the JSON/OrderedDict storage trip,
deserialize_from_signature with the dispatch variant), DEvo/Props/C06.lean.
Tie: the dispatch variant is read from the source (AST) and probed; differential correspondence
of stored text, reloaded value and re-serialised text on generated values; signature-level
oracle through Version.save()/reload on SQLite and v2 -> v1 -> v2.
"""
import ast
import json
from collections import OrderedDict

from .. import dbrig, evorig, sigs, values
from ..core import REPO

F_DISPATCH = 'F7'
F_TUPLE = 'F8'


def dispatch_strict_from_source():
    """does `_get_serializer_for_value` test `cls is dict` (strict) in its deserialising branches?"""
    src = open(REPO + '/django_evolution/serialization.py').read()
    tree = ast.parse(src)
    for n in ast.walk(tree):
        if isinstance(n, ast.FunctionDef) and n.name == '_get_serializer_for_value':
            for c in ast.walk(n):
                if isinstance(c, ast.Compare) and isinstance(c.left, ast.Name) and c.left.id == 'cls' and \
                        len(c.ops) == 1 and isinstance(c.ops[0], ast.Is) and \
                        isinstance(c.comparators[0], ast.Name) and c.comparators[0].id == 'dict':
                    return True
            return False
    return None


def storage_trip(v):
    from django_evolution.serialization import deserialize_from_signature, serialize_to_signature
    stored = json.dumps(serialize_to_signature(v))
    back = deserialize_from_signature(json.loads(stored, object_pairs_hook=OrderedDict))
    restored = json.dumps(serialize_to_signature(back))
    return stored, back, restored


def py_equal(a, b):
    try:
        return bool(a == b) and type(a) is type(b) if not isinstance(a, (dict,)) else bool(a == b)
    except Exception:
        return False


def sig_with_meta(rng):
    """a project signature whose models carry constraints and indexes with conditions/expressions"""
    from django.db import models
    from django.db.models import Deferrable, F, Q
    from django_evolution.consts import UpgradeMethod
    from django_evolution.signature import AppSignature, ModelSignature, ProjectSignature
    from django.apps.registry import Apps
    registry = Apps()
    cons = []
    idx = []
    kind = rng.choice(['check', 'unique_cond', 'unique_defer', 'index_cond', 'index_expr', 'index_plain', 'none',
                       'index_expr_list'])
    if kind == 'check':
        cons.append(models.CheckConstraint(check=values.gen_q(rng), name='chk1'))
    elif kind == 'unique_cond':
        cons.append(models.UniqueConstraint(fields=['a', 'b'], condition=Q(a__gt=1), name='uq1'))
    elif kind == 'unique_defer':
        cons.append(models.UniqueConstraint(fields=['a'], deferrable=Deferrable.DEFERRED, name='uq2'))
    elif kind == 'index_cond':
        idx.append(models.Index(fields=['a', '-b'], condition=values.gen_q(rng), name='ix_cond'))
    elif kind == 'index_expr':
        idx.append(models.Index(F('a') + 1, name='ix_expr'))
    elif kind == 'index_plain':
        idx.append(models.Index(fields=['b'], name='ix_plain'))
    meta = {'app_label': 'vapp', 'apps': registry, 'db_table': 'vapp_alpha'}
    if cons:
        meta['constraints'] = cons
    if idx:
        meta['indexes'] = idx
    if rng.random() < 0.4:
        meta['unique_together'] = [('a', 'b')]
    r = rng.random()
    if r < 0.2:
        # several groups, declared in an order that is not the sorted one: a list is stored as the list it is
        meta['index_together'] = [('b', 'a'), ('a', 'b')]
        meta['unique_together'] = [('b', 'a'), ('a', 'b')]
    elif r < 0.35:
        meta['index_together'] = [('b', 'a')]
    attrs = {'__module__': 'vapp.models',
             # column names beyond ASCII (Latin-1 range and above): legacy pickled rows store them as raw bytes
             'a': models.IntegerField(null=rng.random() < 0.5,
                                      db_column=rng.choice([None, None, 'num\u00e9ro', 'stra\u00dfe_x', 'c\u4e2d', 'was_json!_once'])),
             'b': models.CharField(max_length=rng.choice([10, 20]), db_index=rng.random() < 0.5),
             'Meta': type('Meta', (), meta)}
    m = type('Alpha', (models.Model,), attrs)
    p = ProjectSignature()
    a = AppSignature(app_id='vapp', upgrade_method=rng.choice([UpgradeMethod.EVOLUTIONS, UpgradeMethod.MIGRATIONS]))
    if a.upgrade_method == UpgradeMethod.MIGRATIONS:
        a.applied_migrations = ['0001_initial', '0002_more']
    msig = ModelSignature.from_model(m)
    if kind == 'index_expr_list':
        # expression-only indexes as a ChangeMeta('indexes', ...) evolution records them: a LIST of expressions
        # and no fields (nothing here is a tuple, so finding F8 has no part in it)
        from django.db.models.functions import Lower
        from django_evolution.signature import IndexSignature
        msig.add_index_sig(IndexSignature(fields=None, name='ix_expr_list', expressions=[F('a') + 1]))
        msig.add_index_sig(IndexSignature(fields=None, name='ix_expr_lower', expressions=[Lower('b')]))
    if rng.random() < 0.3:
        # a many-to-many field that names its table
        from django_evolution.signature import FieldSignature
        msig.add_field_sig(FieldSignature(field_name='tags', field_type=models.ManyToManyField,
                                          field_attrs={'db_table': rng.choice(['vapp_alpha_labels', 't"x', 'json!labels'])},
                                          related_model='vapp.Alpha'))
    if rng.random() < 0.5:
        # attribute values as mutations leave them in a signature (ChangeField(max_length=None), db_column=''
        # and so on): explicitly stored values that equal the default, are None, or are falsy
        for _ in range(rng.randint(1, 3)):
            fsig = msig.get_field_sig(rng.choice(['a', 'b']))
            attr = rng.choice(['max_length', 'db_column', 'db_index', 'unique', 'null'])
            fsig.field_attrs[attr] = rng.choice({'max_length': [None, 0, 7], 'db_column': [None, '', 'col_x']}
                                                .get(attr, [None, False, True]))
        kind += '+explicit_attrs'
    a.add_model_sig(msig)
    if rng.random() < 0.25:
        # an app that used to carry the label `vapp` (its legacy label) and is stored BEFORE the app whose id is
        # `vapp`: two entries that one label can mean
        from django_evolution.signature import FieldSignature
        ext = AppSignature(app_id='vapp_ext', legacy_app_label='vapp', upgrade_method=UpgradeMethod.EVOLUTIONS)
        em = ModelSignature(model_name='Note', table_name='vapp_ext_note')
        em.add_field_sig(FieldSignature(field_name='id', field_type=models.AutoField, field_attrs={'primary_key': True}))
        ext.add_model_sig(em)
        p.add_app_sig(ext)
        kind += '+legacy_label_shadows_id'
    p.add_app_sig(a)
    return p, kind


def app_by_id(sig, app_id):
    """the entry whose id is `app_id` (not what a label lookup with its legacy fallback would give)"""
    for a in sig.app_sigs:
        if a.app_id == app_id:
            return a
    return None


def attr_load_correspondence(ctx, n):
    """FieldSignature.deserialize vs the Lean `loadAttrs`: which stored attributes come back, with which values -
    stored dictionaries with explicit null / False / 0 / '' values, alias keys and keys that are not tracked"""
    from django.db import models
    from django_evolution.signature import FieldSignature
    reqs, pend = [], []
    types = [models.CharField, models.IntegerField, models.DecimalField, models.ForeignKey, models.ManyToManyField,
             models.BooleanField]
    pool = ['max_length', 'null', 'unique', 'db_index', 'db_column', 'primary_key', 'max_digits', 'decimal_places',
            'db_table', '_unique', 'remote_field', 'bogus']
    for _ in range(n):
        ft = ctx.rng.choice(types)
        stored = OrderedDict()
        for k in ctx.rng.sample(pool, ctx.rng.randint(0, 6)):
            stored[k] = ctx.rng.choice([None, None, False, True, 0, 7, '', 'x'])
        # every attribute name tracked for the type: none of them is meant to be shadowed by something defined on the
        # FieldSignature class itself (deserialize skips such names)
        known = list(FieldSignature._iter_attrs_for_field_type(ft))
        d = {'type': '%s.%s' % ('django.db.models', ft.__name__), 'attrs': stored}
        if ft in (models.ForeignKey, models.ManyToManyField):
            d['related_model'] = 'vapp.Alpha'
        real = FieldSignature.deserialize('f', json.loads(json.dumps(d), object_pairs_hook=OrderedDict), sig_version=2)
        impl = sorted([k, None if v is None else json.dumps(v)] for k, v in real.field_attrs.items())
        reqs.append({'op': 'load_attrs', 'known': known,
                     'stored': [[k, None if v is None else json.dumps(v)] for k, v in stored.items()]})
        pend.append((ft.__name__, dict(stored), impl))
    outs = ctx.driver.ask(reqs) if ctx.driver else [None] * len(reqs)
    for (ft, stored, impl), out in zip(pend, outs):
        ctx.count('attr_load:%s' % ('with_null' if any(v is None for v in stored.values()) else 'no_null'))
        if out is not None:
            ctx.corr_case('field_attr_load', sorted(out['loaded']) == impl, case={'type': ft, 'stored': stored},
                          model=sorted(out['loaded']), impl=impl)


def field_class_probe(ctx):
    """fields whose classes are project-defined - some named like a class that django.db.models exports (a project's
    own JSONField / UUIDField), some not -, next to Django's own classes of those names: stored as text and read back, every field has the very class it was stored with, the signatures are equal,
    no difference in either direction, and the re-serialised text is the stored text"""
    from collections import OrderedDict
    from django.db import models as dm
    from django_evolution.diff import Diff
    from django_evolution.signature import (AppSignature, FieldSignature, ModelSignature, ProjectSignature)
    from .. import customfields as cf
    classes = [('own_json', cf.JSONField, {}), ('dj_json', dm.JSONField, {}), ('own_uuid', cf.UUIDField, {'max_length': 36}),
               ('dj_uuid', dm.UUIDField, {}), ('code', cf.ShortCodeField, {'max_length': 8}), ('count', cf.CountField, {}),
               ('n', dm.IntegerField, {'null': True})]
    p = ProjectSignature()
    app = AppSignature(app_id='vapp')
    ms = ModelSignature(model_name='Doc', table_name='vapp_doc', pk_column='id')
    ms.add_field_sig(FieldSignature(field_name='id', field_type=dm.AutoField, field_attrs={'primary_key': True}))
    for name, cls, attrs in classes:
        ms.add_field_sig(FieldSignature(field_name=name, field_type=cls, field_attrs=dict(attrs)))
    app.add_model_sig(ms)
    p.add_app_sig(app)
    for version in (2,):      # version 1 keeps the class object itself (pickled rows), there is no name to resolve
        text = json.dumps(p.serialize(sig_version=version))
        back = ProjectSignature.deserialize(json.loads(text, object_pairs_hook=OrderedDict))
        rep = {'scenario': 'project-defined field classes, signature version %d' % version, 'stored': text[:600]}
        ctx.count('field_class_probe')
        ctx.case({'scenario': 'field classes', 'sig_version': version}, nontrivial=True, sample_cap=2)
        mb = app_by_id(back, 'vapp').get_model_sig('Doc')
        for name, cls, _ in classes:
            got = mb.get_field_sig(name).field_type
            if got is not cls:
                ctx.fail(None, 'field %s was stored with class %s.%s and reads back as %s.%s'
                         % (name, cls.__module__, cls.__name__, got.__module__, got.__name__), rep)
        if version == 2:
            if not (p == back):
                ctx.fail(None, 'a signature with project-defined field classes is not equal to its stored-and-reloaded form', rep)
            if not (Diff(p, back).is_empty() and Diff(back, p).is_empty()):
                ctx.fail(None, 'a signature with project-defined field classes differs from its stored-and-reloaded form', rep)
            if json.dumps(back.serialize(sig_version=2)) != text:
                ctx.fail(None, 'the re-serialised text of a signature with project-defined field classes changed', rep)


def run(ctx):
    evorig.setup()
    quick = ctx.tier == 'quick'
    ctx.rule = ('attribute values: str (quotes, backslashes, unicode, empty), int, bool, None, lists, tuples, '
                'dicts/OrderedDicts, nested/negated/OR/XOR Q trees, F, Value, combined expressions, Deferrable enums, '
                'nested to depth 3; non-trivial = contains a container or an object; plus project signatures with '
                'check/unique constraints and conditional/expression indexes through Version.save()/reload')
    field_class_probe(ctx)
    strict_src = dispatch_strict_from_source()
    # probe with the Lean witness Q(a=1)
    from django.db.models import Q
    _, back, _ = storage_trip(Q(a=1))
    strict_probe = not isinstance(back, Q)
    ctx.variant['dispatch_strict_source'] = strict_src
    ctx.variant['dispatch_strict_probe'] = strict_probe
    if strict_src is not None and strict_src != strict_probe:
        ctx.brk('correspondence', 'dispatch variant', 'the source says strict=%s but the probe behaves strict=%s'
                % (strict_src, strict_probe))
    strict = strict_probe
    n = 1500 if quick else 30000
    vals = [values.gen_value(ctx.rng) for _ in range(n)]
    absv = []
    keep = []
    for v in vals:
        try:
            absv.append(values.abs_value(v))
            keep.append(v)
        except TypeError:
            pass
    reqs = [{'op': 'sig_roundtrip', 'value': a, 'strict': strict} for a in absv]
    outs = ctx.driver.ask(reqs) if ctx.driver else [None] * len(reqs)
    w7 = w8 = None
    for v, a, out in zip(keep, absv, outs):
        ctx.case({'value': a}, nontrivial=a['t'] not in ('null', 'int', 'str', 'bool'), sample_cap=5)
        ctx.count('kind:' + a['t'])
        try:
            stored, back, restored = storage_trip(v)
            real = {'stored': json.loads(stored), 'back': values.abs_value(back), 'restored': json.loads(restored)}
        except Exception as e:
            real = {'error': type(e).__name__}
        if out is not None:
            if 'error' in real:
                ok = False
            else:
                ok = (out['stored'] == real['stored'] and out['back'] == real['back'] and
                      out['restored'] == real['restored'])
            ctx.corr_case('storage_trip', ok, case=a, model=out, impl=real)
        # ---- oracle on the real code -------------------------------------------------------
        if 'error' in real:
            ctx.fail(None, 'storing/reloading the value raises %s' % real['error'], {'value': a})
            continue
        rep = {'value': a, 'back': real['back']}
        if real['restored'] != real['stored']:
            ctx.fail(None, 'the reloaded value re-serialises to a different stored text', rep)
        if real['back'] != a:
            obj, tup = values.has_object(a), values.has_loose_tuple(a)
            ctx.count('not_exact')
            agrees = out is not None and out['back'] == real['back']
            if strict and obj and agrees:
                w7 = w7 or rep
            elif tup and agrees:
                w8 = w8 or rep
            else:
                # dict vs OrderedDict is not a difference (both are mappings with equal content)
                ctx.fail(None, 'the value does not read back as written', rep)
    if strict_probe:
        ctx.fail(F_DISPATCH, 'a stored Q object is not rebuilt on load (deserialiser dispatches on `cls is dict`, '
                 'the storage path produces OrderedDict)', {'value': values.abs_value(Q(a=1)),
                                                            'back': values.abs_value(back)})
    elif w7 is not None:
        ctx.fail(None, 'a deconstructed object is not rebuilt on load', w7)
    if w8 is not None:
        ctx.fail(F_TUPLE, 'a tuple-valued attribute comes back as a list (and a list is not equal to a tuple)', w8)

    attr_load_correspondence(ctx, 150 if quick else 3000)
    # ---- signature level: Version.save() / reload, v2 -> v1 -> v2 ------------------------------
    from django_evolution.diff import Diff
    from django_evolution.models import Version
    from django_evolution.signature import ProjectSignature
    evorig.fresh_databases()
    evorig.clear_evolutions()
    evorig.install_models({'apps': []})
    evorig.run_evolver()
    m = 60 if quick else 1500
    for i in range(m):
        sig, kind = sig_with_meta(ctx.rng)
        ctx.count('sig:' + kind)
        ver = Version(signature=sig)
        ver.save()
        loaded = Version.objects.get(pk=ver.pk).signature
        # attribute order inside a field is not content: compare canonical text
        text1 = json.dumps(sig.serialize(), sort_keys=True)
        text2 = json.dumps(loaded.serialize(), sort_keys=True)
        eq = (loaded == sig)
        d1 = Diff(sig, loaded).is_empty(ignore_apps=False)
        d2 = Diff(loaded, sig).is_empty(ignore_apps=False)
        ctx.case({'signature_kind': kind, 'eq': eq, 'diff_empty': [d1, d2], 'same_text': text1 == text2},
                 nontrivial=kind != 'none', sample_cap=8)
        explicit = kind.endswith('+explicit_attrs')
        kind = kind.split('+')[0]
        rep = {'kind': 'signature', 'meta': kind, 'serialized': json.loads(text1), 'eq': eq,
               'diff_empty': [d1, d2], 'same_text': text1 == text2}
        if text1 != text2:
            ctx.fail(None, 'the reloaded signature re-serialises to a different text', rep)
        else:
            # what was read is the caller's to change (the evolver simulates into it): a second read of the same,
            # untouched row must still give what was written
            la = app_by_id(loaded, 'vapp')
            if la is not None and la.get_model_sig('Alpha') is not None:
                la.remove_model_sig('Alpha')
            again = Version.objects.get(pk=ver.pk).signature
            if json.dumps(again.serialize(), sort_keys=True) != text1:
                ctx.fail(None, 'a second read of the same row gives something else after the first copy was modified '
                         'in memory', rep)
        if not (eq and d1 and d2):
            ctx.count('sig:not_equal_after_reload')
            if strict and kind in ('check', 'unique_cond', 'unique_defer', 'index_cond', 'index_expr'):
                ctx.fail(F_DISPATCH, 'a signature with a %s does not compare equal to itself after Version.save()/'
                         'reload (diff empty: %s/%s)' % (kind, d1, d2), rep)
            elif kind in ('unique_cond', 'unique_defer', 'index_expr'):
                ctx.fail(F_TUPLE, 'tuple-valued constraint/index attributes come back as lists', rep)
            else:
                ctx.fail(None, 'the stored signature does not read back equal (%s, diff empty %s/%s)'
                         % (kind, d1, d2), rep)
        # v2 -> v1 -> v2 for the v1-expressible subset (no constraints, plain indexes)
        if kind in ('none', 'index_plain'):
            v1 = ProjectSignature.deserialize(sig.serialize(sig_version=1))
            back = ProjectSignature.deserialize(json.loads(json.dumps(v1.serialize(sig_version=2)),
                                                           object_pairs_hook=OrderedDict))
            ma, mb = app_by_id(sig, 'vapp').get_model_sig('Alpha'), app_by_id(back, 'vapp').get_model_sig('Alpha')
            canon = lambda f: dict(sigs.abs_field(f), attrs=sorted(sigs.abs_field(f)['attrs']))
            same = ([canon(f) for f in ma.field_sigs] == [canon(f) for f in mb.field_sigs] and
                    ma.unique_together == mb.unique_together and ma.table_name == mb.table_name)
            ctx.count('v1_roundtrip')
            if not same:
                ctx.fail(None, 'a version-1 signature does not load to the same logical content', rep)
            # ... and as a legacy ROW: the pickled text that old releases stored in django_project_version
            from django.db import connection
            from django_evolution.compat.py23 import pickle_dumps
            legacy_text = pickle_dumps(sig.serialize(sig_version=1))
            with connection.cursor() as cur:
                cur.execute('UPDATE django_project_version SET signature = %s WHERE id = %s', [legacy_text, ver.pk])
            try:
                row = Version.objects.get(pk=ver.pk).signature
            except Exception as e:
                ctx.fail(None, 'a legacy (pickled, version 1) row does not load: %s' % type(e).__name__, rep)
                continue
            mc = app_by_id(row, 'vapp').get_model_sig('Alpha')
            ctx.count('v1_legacy_row%s' % (':non_ascii' if any(ord(ch) > 127 for ch in legacy_text) else ''))
            if not ([canon(f) for f in ma.field_sigs] == [canon(f) for f in mc.field_sigs] and
                    ma.unique_together == mc.unique_together and ma.table_name == mc.table_name):
                ctx.fail(None, 'a legacy (pickled, version 1) row does not load to the same logical content',
                         dict(rep, loaded_fields=[canon(f) for f in mc.field_sigs]))


def replay(ctx, obj):
    evorig.setup()
    _r = obj.get('replay', obj)
    if isinstance(_r, dict) and str(_r.get('scenario', '')).startswith('project-defined field classes'):
        class _C(object):
            failures = []
            def count(self, *a, **k): pass
            def case(self, *a, **k): pass
            def fail(self, finding, what, rep): self.failures.append(what)
        c = _C()
        field_class_probe(c)
        for w in c.failures:
            print(w[:400])
        return 1 if c.failures else 0
    print('re-run with VERIF_SEED=%s ./check C06; witness: %s' % (obj.get('seed'), json.dumps(obj.get('replay'))[:500]))
    from django.db.models import Q
    _, back, _ = storage_trip(Q(a=1))
    print('Q(a=1) reloads as', type(back).__name__)
    return 0 if isinstance(back, Q) else 1
