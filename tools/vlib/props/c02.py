"""C02 — evolutions preserve existing row data.

Lean: DEvo/Sql/Rebuild.lean (field_values / field_initials of the SQLite rebuild, positional
binding), DEvo/Props/C02.lean.
Tie: (1) row-level correspondence of merged rebuilds on one table (the model predicts every
cell of the rebuilt table from the real op list), under the detected parameter-order variant;
(2) the property oracle on generated multi-model cases: surviving values through renames,
row counts, initial values, NULL replacement.
"""
import json
import random

from .. import dbrig, dj, optrig, sigs

F_PARAMS = 'F3'
F_EMBED_OVERWRITES = 'F57'


def sval(v):
    if v is None:
        return None
    if isinstance(v, bool):
        return str(int(v))
    if isinstance(v, float) and v == int(v):
        return str(int(v))
    return str(v)


def rows_of(table, alias='default'):
    conn = dbrig.raw_connection(alias)
    try:
        cur = conn.cursor()
        cur.execute('SELECT * FROM "%s" ORDER BY 1' % table)
        cols = [d[0] for d in cur.description]
        return cols, [[[c, sval(v)] for c, v in zip(cols, r)] for r in cur.fetchall()]
    finally:
        conn.close()


# ---------------------------------------------------------------------------
# (1) one table, one batch, rebuild correspondence
# ---------------------------------------------------------------------------

def one_table_spec(rng):
    fields = [{'name': 'id', 'type': 'AutoField', 'attrs': {'primary_key': True}, 'related': None}]
    for n in rng.sample(['a', 'b', 'c', 'd'], rng.randint(2, 4)):
        t = rng.choice(['IntegerField', 'CharField', 'TextField', 'BooleanField'])
        attrs = {'max_length': 20} if t == 'CharField' else {}
        if rng.random() < 0.7:
            attrs['null'] = True
        fields.append({'name': n, 'type': t, 'attrs': attrs, 'related': None})
    return {'apps': [{'id': 'vapp', 'models': [{'name': 'Alpha', 'table': 'vapp_alpha', 'fields': fields,
                                                'unique_together': [], 'index_together': [], 'indexes': [],
                                                'constraints': []}]}]}


def batch_for(rng, spec):
    m = spec['apps'][0]['models'][0]
    existing = [f['name'] for f in m['fields'] if f['name'] != 'id']
    nullable = [f for f in m['fields'] if f['attrs'].get('null')]
    free = [n for n in ['a', 'b', 'c', 'd', 'e', 'f'] if n not in existing]
    muts = []
    used = set()
    for _ in range(rng.randint(2, 5)):
        k = rng.choice(['add', 'add', 'notnull', 'notnull', 'notnull', 'maxlen', 'delete'])
        if k == 'add' and free:
            n = free.pop(rng.randrange(len(free)))
            t = rng.choice(['IntegerField', 'CharField'])
            attrs = [['max_length', '20']] if t == 'CharField' else []
            init = sigs.gen_initial(rng, t)
            if rng.random() < 0.25:
                attrs.append(['null', 'true'])
                init = None if rng.random() < 0.5 else init
            mj = {'t': 'AddField', 'model': 'Alpha', 'field': n, 'ftype': t,
                  'initial': None if init is None else sigs.cv(init), 'attrs': attrs}
            if init is not None and rng.random() < 0.2:
                # a callable initial that returns SQL text
                mj['initial_sql'] = rng.choice(['40 + 2', '0'] if t == 'IntegerField' else ["'n/a'", "'x' || 'y'"])
                mj['initial'] = sigs.cv(EMBED_VALUES[mj['initial_sql']] if t != 'IntegerField'
                                        else int(EMBED_VALUES[mj['initial_sql']]))
            muts.append(mj)
            if any(a == ['null', 'true'] for a in attrs) and rng.random() < 0.6:
                # ... and made NOT NULL later in the same batch (added and modified in one rebuild when the
                # mutations reach the mutator one by one)
                muts.append({'t': 'ChangeField', 'model': 'Alpha', 'field': n, 'ftype': None,
                             'initial': sigs.cv(sigs.gen_initial(rng, t)), 'attrs': [['null', 'false']]})
        elif k == 'notnull':
            c = [f for f in nullable if f['name'] not in used]
            if c:
                f = rng.choice(c)
                used.add(f['name'])
                mj = {'t': 'ChangeField', 'model': 'Alpha', 'field': f['name'], 'ftype': None,
                      'initial': sigs.cv(sigs.gen_initial(rng, f['type'])), 'attrs': [['null', 'false']]}
                if rng.random() < 0.15 and f['type'] in ('IntegerField', 'CharField', 'TextField'):
                    mj['initial_sql'] = rng.choice(['40 + 2', '1 + 1'] if f['type'] == 'IntegerField'
                                                   else ["'n/a'", "'x' || 'y'"])
                muts.append(mj)
        elif k == 'maxlen':
            c = [f for f in m['fields'] if f['type'] == 'CharField' and f['name'] not in used]
            if c:
                f = rng.choice(c)
                used.add(f['name'])
                muts.append({'t': 'ChangeField', 'model': 'Alpha', 'field': f['name'], 'ftype': None,
                             'initial': None, 'attrs': [['max_length', '40']]})
        elif k == 'delete':
            c = [n for n in existing if n not in used]
            if c and len(existing) - len([x for x in muts if x['t'] == 'DeleteField']) > 1:
                n = rng.choice(c)
                used.add(n)
                muts.append({'t': 'DeleteField', 'model': 'Alpha', 'field': n})
    return muts


# SQL text a callable initial may return -> the value that text evaluates to (the model copies values, it
# does not evaluate SQL)
EMBED_VALUES = {"'n/a'": 'n/a', '40 + 2': '42', '1 + 1': '2', "'x' || 'y'": 'xy', '0': '0'}


def init_item(init):
    """(value text, embedded?) of an initial value as the rebuild will treat it"""
    if callable(init):
        text = init()
        if isinstance(text, str):
            return EMBED_VALUES.get(text, text), True
        return sval(text), False
    return sval(init), False


def abstract_ops(am):
    """real ModelMutator op list -> ops with the rebuild items the model needs"""
    from django_evolution.mutators.model_mutator import ModelMutator
    out = []
    for mt in am._mutators:
        if not isinstance(mt, ModelMutator):
            continue
        for op in mt._ops:
            t = op['type']
            detail, items = [], []
            if t == 'add_column':
                v, emb = init_item(op['initial'])
                items.append({'kind': 'add', 'col': op['field'].column, 'init': v, 'embed': emb})
            elif t == 'delete_column':
                items.append({'kind': 'delete', 'col': op['field'].column})
            elif t == 'change_column':
                detail = sorted(op['new_attrs'].keys())
                for a in detail:
                    if a == 'null':
                        init = op['mutation'].initial if not op['new_attrs']['null']['new_value'] else None
                        v, emb = init_item(init)
                        items.append({'kind': 'modify', 'col': op['field'].column, 'init': v, 'embed': emb})
                    elif a in ('max_length', 'unique', 'max_digits', 'decimal_places'):
                        items.append({'kind': 'modify', 'col': op['field'].column, 'init': None})
            elif t == 'change_meta':
                detail = [op['prop_name']]
            out.append({'type': t, 'detail': detail, 'items': items})
    return out


def run_one_table(spec, muts, seed):
    from django_evolution.mutators import AppMutator
    rng = random.Random(seed)
    models = dbrig.build_models(spec)
    sig = dbrig.sig_from_models(models)
    dbrig.reset_db('default')
    dbrig.create_tables(models, 'default')
    dbrig.insert_rows(models, rng, n_rows=rng.randint(1, 5))
    cols, before = rows_of('vapp_alpha')
    am = AppMutator(app_label='vapp', project_sig=sig.clone(), database_state=dbrig.scan_state(), database='default')
    if seed % 2:
        # the mutations reach the mutator one by one (no optimiser pass over the list): what several
        # run_mutation()/run_mutations() calls on one AppMutator amount to
        for m in muts:
            am.run_mutation(sigs.real_mutation(m))
    else:
        am.run_mutations([sigs.real_mutation(m) for m in muts])
    am._finalize_model_mutator()
    ops = abstract_ops(am)
    sql = am.to_sql()
    dbrig.run_sql(sql)
    cols2, after = rows_of('vapp_alpha')
    return cols, before, ops, cols2, after


def one_table_problems(muts, before, after):
    """the property itself on a one-table batch (no renames, column = field name): surviving values unchanged, NULLs
    replaced by the first NOT-NULL change's initial, new columns hold their declared initial"""
    val = lambda t: None if t is None else sval(json.loads(t))
    rows0 = {dict(r)['id']: dict(r) for r in before}
    rows1 = {dict(r)['id']: dict(r) for r in after}
    problems = []
    if set(rows0) != set(rows1):
        return ['the table gained or lost rows']
    deleted = set(m['field'] for m in muts if m['t'] == 'DeleteField')
    added = {}
    fill = {}
    embedded = set()
    for m in muts:
        if m['t'] == 'AddField':
            added[m['field']] = val(m.get('initial'))
        elif m['t'] == 'ChangeField' and ['null', 'false'] in m['attrs'] and m.get('initial') is not None:
            fill.setdefault(m['field'], val(m['initial']))
            if isinstance(m.get('initial_sql'), str):
                embedded.add(m['field'])        # (SQL text to embed; a callable that returns a number is bound like a value)
    for pk, r0 in rows0.items():
        r1 = rows1[pk]
        for c, v0 in r0.items():
            if c in deleted or c == 'id' or c not in r1:
                continue
            if c in embedded:
                continue        # finding F57 (judged on the family cases of part 2)
            want = v0 if v0 is not None else fill.get(c)
            if r1[c] != want:
                problems.append('row %s: %s was %r, is %r (expected %r)' % (pk, c, v0, r1[c], want))
        for c, init in added.items():
            if c in deleted or c not in r1 or c in r0:
                continue
            if init is not None and c in fill:
                continue        # two initial values for one new column rolled into one rebuild: C03's finding F21
            want = init if init is not None else fill.get(c)
            if r1[c] != want:
                problems.append('row %s: new column %s holds %r, expected %r' % (pk, c, r1[c], want))
    return problems


def detect_aligned():
    """the parameter-order variant of the code under test, probed with the Lean witness
    `C02_cex_param_misbinding` (a: NULL->7, new d='q', c: NULL->'zz')"""
    spec = {'apps': [{'id': 'vapp', 'models': [{'name': 'Alpha', 'table': 'vapp_alpha', 'fields': [
        {'name': 'id', 'type': 'AutoField', 'attrs': {'primary_key': True}, 'related': None},
        {'name': 'a', 'type': 'IntegerField', 'attrs': {'null': True}, 'related': None},
        {'name': 'c', 'type': 'CharField', 'attrs': {'max_length': 20, 'null': True}, 'related': None}],
        'unique_together': [], 'index_together': [], 'indexes': [], 'constraints': []}]}]}
    muts = [{'t': 'ChangeField', 'model': 'Alpha', 'field': 'a', 'ftype': None, 'initial': '7', 'attrs': [['null', 'false']]},
            {'t': 'AddField', 'model': 'Alpha', 'field': 'd', 'ftype': 'CharField', 'initial': '"q"',
             'attrs': [['max_length', '20']]},
            {'t': 'ChangeField', 'model': 'Alpha', 'field': 'c', 'ftype': None, 'initial': '"zz"',
             'attrs': [['null', 'false']]}]
    from django_evolution.mutators import AppMutator
    models = dbrig.build_models(spec)
    sig = dbrig.sig_from_models(models)
    dbrig.reset_db('default')
    dbrig.create_tables(models, 'default')
    from django.db import connections
    with connections['default'].cursor() as cur:
        cur.execute('INSERT INTO vapp_alpha (id, a, c) VALUES (1, NULL, NULL)')
    dbrig.evolve(sig, 'vapp', [sigs.real_mutation(m) for m in muts])
    cols, rows = rows_of('vapp_alpha')
    row = dict(rows[0])
    good = {'id': '1', 'a': '7', 'c': 'zz', 'd': 'q'}
    bad = {'id': '1', 'a': '7', 'c': 'q', 'd': 'zz'}
    return (row == good), {'spec': spec, 'mutations': muts, 'row_before': {'id': 1, 'a': None, 'c': None},
                           'row_after': row, 'expected': good, 'is_lean_cex_row': row == bad}


# ---------------------------------------------------------------------------
# (2) general oracle
# ---------------------------------------------------------------------------

ROLLED = '<rolled-up initial>'


def track(sig0, muts):
    """follow every original (model, field) through the sequence; returns
    ({(model, field): (final_model, final_field) or None}, added fields with their declared
    initial, null->non-null changes with initial, final signature)"""
    loc = {}
    for m in sig0.get_app_sig('vapp').model_sigs:
        for f in m.field_sigs:
            loc[(m.model_name, f.field_name)] = (m.model_name, f.field_name)
    added = {}
    notnull = {}
    cur = sig0
    for mj in muts:
        t = mj['t']
        if t == 'RenameField':
            for k, v in list(loc.items()):
                if v == (mj['model'], mj['old']):
                    loc[k] = (mj['model'], mj['new'])
            for d in (added, notnull):
                if (mj['model'], mj['old']) in d:
                    d[(mj['model'], mj['new'])] = d.pop((mj['model'], mj['old']))
        elif t == 'DeleteField':
            for k, v in list(loc.items()):
                if v == (mj['model'], mj['field']):
                    loc[k] = None
            added.pop((mj['model'], mj['field']), None)
            notnull.pop((mj['model'], mj['field']), None)
        elif t == 'RenameModel':
            for d in (loc,):
                for k, v in list(d.items()):
                    if v is not None and v[0] == mj['old']:
                        d[k] = (mj['new'], v[1])
            for d in (added, notnull):
                for k in list(d):
                    if k[0] == mj['old']:
                        d[(mj['new'], k[1])] = d.pop(k)
        elif t == 'DeleteModel':
            for k, v in list(loc.items()):
                if v is not None and v[0] == mj['model']:
                    loc[k] = None
            for d in (added, notnull):
                for k in list(d):
                    if k[0] == mj['model']:
                        d.pop(k)
        elif t == 'AddField' and mj['ftype'] != 'ManyToManyField':
            added[(mj['model'], mj['field'])] = mj.get('initial')
        elif t == 'ChangeField':
            a = dict(mj['attrs'])
            if a.get('null') == 'false' and mj.get('initial') is not None:
                # NULLs are replaced by the FIRST change that makes the column NOT NULL; after that the
                # column has no NULLs left, whatever later changes say
                msig = cur.get_app_sig('vapp').get_model_sig(mj['model'])
                fsig = msig.get_field_sig(mj['field']) if msig is not None else None
                if fsig is not None and fsig.get_attr_value('null'):
                    notnull.setdefault((mj['model'], mj['field']), mj['initial'])
            if (mj['model'], mj['field']) in added and mj.get('initial') is not None and a.get('null') == 'false':
                added[(mj['model'], mj['field'])] = ROLLED   # rolled-up initial: C03's finding F21, not judged here
        r = sigs.real_simulate(cur, 'vapp', [sigs.real_mutation(mj)])
        cur = r[1]
    return loc, added, notnull, cur


def table_and_column(sig, model, field):
    a = sig.get_app_sig('vapp')
    m = a.get_model_sig(model) if a is not None else None
    f = m.get_field_sig(field) if m is not None else None
    if f is None or f.field_type.__name__ == 'ManyToManyField':
        return None
    col = f.field_attrs.get('db_column') or (field + '_id' if f.field_type.__name__ in ('ForeignKey', 'OneToOneField') else field)
    return m.table_name, col


def family():
    """deterministic cases: every kind of attribute change that rebuilds the table, with and without an
    initial value on the mutation, on columns that hold NULLs, empty strings and ordinary values; callable
    initial values (raw SQL to embed) next to plain ones in one merged rebuild"""
    def fld(name, t, **attrs):
        return {'name': name, 'type': t, 'attrs': attrs, 'related': None}
    spec = {'apps': [{'id': 'vapp', 'models': [
        {'name': 'Alpha', 'table': 'vapp_alpha', 'unique_together': [], 'index_together': [], 'indexes': [],
         'constraints': [], 'fields': [
             fld('id', 'AutoField', primary_key=True), fld('note', 'CharField', max_length=20, null=True),
             fld('code', 'CharField', max_length=10, null=True), fld('qty', 'IntegerField', null=True),
             fld('score', 'IntegerField', null=True),
             fld('alias', 'CharField', max_length=10, null=True, db_column='alias_col')]}]}]}
    cf = lambda field, initial, *attrs: {'t': 'ChangeField', 'model': 'Alpha', 'field': field, 'ftype': None,
                                         'initial': initial, 'attrs': [list(a) for a in attrs]}
    add = lambda field, initial: {'t': 'AddField', 'model': 'Alpha', 'field': field, 'ftype': 'IntegerField',
                                  'initial': initial, 'attrs': []}
    def add_sql(field, ftype, sql, value, *attrs):
        # the initial value is a callable returning SQL text; `value` is what that SQL evaluates to
        return {'t': 'AddField', 'model': 'Alpha', 'field': field, 'ftype': ftype, 'initial': value,
                'initial_sql': sql, 'attrs': [list(a) for a in attrs]}

    def cf_sql(field, sql, value, *attrs):
        return dict(cf(field, value, *attrs), initial_sql=sql)
    rel = lambda field, ftype, initial: {'t': 'AddField', 'model': 'Alpha', 'field': field, 'ftype': ftype,
                                         'initial': initial, 'attrs': [['null', 'true'], ['related_model', '"vapp.Alpha"']] +
                                         ([['unique', 'false']] if ftype == 'OneToOneField' else [])}
    cases = [
        # a later change of the SAME column that has no initial value of its own (length, index, NULL allowed again)
        # follows the one that carries it: the value given first still fills the column
        [{'t': 'AddField', 'model': 'Alpha', 'field': 'tag', 'ftype': 'CharField', 'initial': '"n/a"',
          'attrs': [['max_length', '20'], ['null', 'true']]}, cf('tag', None, ('max_length', '40'))],
        [cf('qty', '7', ('null', 'false')), cf('qty', None, ('null', 'true'))],
        # a column that may hold NULL again, the mutation still carrying an initial value (hints always write one): the
        # values that are there stay
        [cf('qty', '7', ('null', 'false')), cf('qty', '9', ('null', 'true'))],
        [cf('note', '"x"', ('null', 'false')), add('extra', '3'), cf('note', '"n/a"', ('null', 'true'))],
        [add('extra', '3'), cf('extra', None, ('db_index', 'true')), cf('note', '"n/a"', ('null', 'false')),
         cf('note', None, ('max_length', '30'))],
        # the initial value is a callable that returns a NUMBER (not SQL text): it is a value like any other - NULLs
        # are replaced, what is there stays
        [cf_sql('qty', -1, '-1', ('null', 'false'))],
        [cf_sql('score', 0, '0', ('null', 'false')), add('extra', '3')],
        # a name that is freed by a rename and used again: each column keeps its own initial value
        [cf('code', '"LEGACY"', ('null', 'false')),
         {'t': 'RenameField', 'model': 'Alpha', 'old': 'code', 'new': 'old_code', 'db_column': None, 'db_table': None},
         {'t': 'AddField', 'model': 'Alpha', 'field': 'code', 'ftype': 'CharField', 'initial': None,
          'attrs': [['max_length', '10'], ['null', 'true']]},
         cf('code', '"NEW"', ('null', 'false'))],
        # ... the freed name goes to a new column, which is renamed in turn
        [{'t': 'RenameField', 'model': 'Alpha', 'old': 'qty', 'new': 'old_qty', 'db_column': None, 'db_table': None},
         add('qty', '0'),
         {'t': 'RenameField', 'model': 'Alpha', 'old': 'qty', 'new': 'stock', 'db_column': None, 'db_table': None}],
        # relation columns with a declared initial value (rows 1..6 exist)
        [rel('boss', 'ForeignKey', '1')],
        [rel('boss', 'ForeignKey', '2'), add('extra', '7'), cf('qty', '0', ('null', 'false'))],
        [add_sql('tag', 'CharField', "'n/a'", '"n/a"', ('max_length', '20')), cf('qty', '0', ('null', 'false'))],
        [add_sql('seq', 'IntegerField', '40 + 2', '42'), add('extra', '7'), cf('score', '-1', ('null', 'false'))],
        [cf('qty', '0', ('null', 'false')), add_sql('seq', 'IntegerField', '40 + 2', '42'),
         cf('note', '"none"', ('null', 'false'))],
        [cf_sql('qty', '1 + 1', '2', ('null', 'false')), cf('score', '-1', ('null', 'false'))],
        [cf('note', '"n/a"', ('max_length', '50'))],
        [cf('code', '"NONE"', ('unique', 'true'))],
        [cf('qty', '5', ('db_index', 'true'))],
        [cf('note', '"n/a"', ('max_length', '50')), cf('qty', '0', ('null', 'false'))],
        [add('extra', '7'), cf('note', None, ('max_length', '30')), cf('score', '-1', ('null', 'false'))],
        [cf('qty', '0', ('null', 'false')), cf('score', '-1', ('null', 'false')), add('extra', '7')],
        # a rename chain whose end is deleted, while another field takes over the name in the middle of the chain
        [add('extra', '3'), cf('note', '"n/a"', ('null', 'false')),
         {'t': 'RenameField', 'model': 'Alpha', 'old': 'score', 'new': 's1', 'db_column': None, 'db_table': None},
         {'t': 'RenameField', 'model': 'Alpha', 'old': 's1', 'new': 's2', 'db_column': None, 'db_table': None},
         {'t': 'RenameField', 'model': 'Alpha', 'old': 'qty', 'new': 's1', 'db_column': None, 'db_table': None},
         {'t': 'DeleteField', 'model': 'Alpha', 'field': 's2'}],
        # a field made NOT NULL and renamed away, its name taken over by another field that is then deleted
        [cf('qty', '0', ('null', 'false')),
         {'t': 'RenameField', 'model': 'Alpha', 'old': 'qty', 'new': 'stock', 'db_column': None, 'db_table': None},
         {'t': 'RenameField', 'model': 'Alpha', 'old': 'score', 'new': 'qty', 'db_column': None, 'db_table': None},
         {'t': 'DeleteField', 'model': 'Alpha', 'field': 'qty'}, add('extra', '7')],
        # a field renamed and renamed back in one batch (the optimiser folds the two into a rename onto itself),
        # then changes that rebuild the table
        [{'t': 'RenameField', 'model': 'Alpha', 'old': 'note', 'new': 'memo', 'db_column': None, 'db_table': None},
         {'t': 'DeleteField', 'model': 'Alpha', 'field': 'score'},
         {'t': 'RenameField', 'model': 'Alpha', 'old': 'memo', 'new': 'note', 'db_column': None, 'db_table': None},
         add('extra', '7'), cf('qty', '-1', ('null', 'false'))],
        [{'t': 'RenameField', 'model': 'Alpha', 'old': 'code', 'new': 'code', 'db_column': 'code_col', 'db_table': None},
         add('extra', '7')],
        # nullable new columns with a declared value for the rows that exist - falsy values included
        [{'t': 'AddField', 'model': 'Alpha', 'field': 'visits', 'ftype': 'IntegerField', 'initial': '0',
          'attrs': [['null', 'true']]},
         {'t': 'AddField', 'model': 'Alpha', 'field': 'active', 'ftype': 'BooleanField', 'initial': 'false',
          'attrs': [['null', 'true']]},
         {'t': 'AddField', 'model': 'Alpha', 'field': 'remark', 'ftype': 'CharField', 'initial': '""',
          'attrs': [['max_length', '10'], ['null', 'true']]},
         {'t': 'AddField', 'model': 'Alpha', 'field': 'stars', 'ftype': 'IntegerField', 'initial': '3',
          'attrs': [['null', 'true']]}],
        [{'t': 'AddField', 'model': 'Alpha', 'field': 'visits', 'ftype': 'IntegerField', 'initial': '0',
          'attrs': [['null', 'true']]}],
        # a field whose column is not called like the field: NULLs filled in, values kept
        [cf('alias', '"A"', ('null', 'false'))],
        [cf('alias', '"A"', ('null', 'false')), add('extra', '7')],
        # ... and a new column that is called like that FIELD
        [{'t': 'AddField', 'model': 'Alpha', 'field': 'other', 'ftype': 'IntegerField', 'initial': '5',
          'attrs': [['db_column', '"alias"']]}],
        # two changes of one field in a batch, the later one restating what the earlier one set
        [cf('note', None, ('max_length', '40')), add('extra', '7'), cf('qty', '-1', ('null', 'false')),
         cf('note', '"n/a 100% \'q\'"', ('max_length', '60'), ('null', 'false'))],
        [cf('qty', '3', ('null', 'false')), cf('qty', '3', ('null', 'false'))],
        [cf('code', None, ('max_length', '12')), cf('code', '"X"', ('max_length', '12'), ('null', 'false'))],
    ]
    return [(spec, c) for c in cases]


def general_case(rng, seed, fixed=None):
    if fixed is not None:
        spec, muts = fixed
        models = dbrig.build_models(spec)
        sig0 = dbrig.sig_from_models(models)
        final = True
    else:
        spec = sigs.gen_spec(rng, 'vapp', with_meta=False)
        models = dbrig.build_models(spec)
        sig0 = dbrig.sig_from_models(models)
        muts, final = sigs.gen_sequence(rng, sig0, 'vapp', rng.randint(1, 4),
                                        kinds=['AddField'] * 3 + ['ChangeField'] * 4 + ['DeleteField'] * 2 +
                                        ['RenameField'] * 3 + ['RenameModel'] * 2)
    if final is None or not muts:
        return None
    muts = [m for m in muts if not (m['t'] == 'ChangeField' and any(a == 'db_table' for a, _ in m['attrs']))]
    if not muts:
        return None
    rep = {'spec': spec, 'mutations': muts, 'seed': seed}
    for mode in ('stepwise', 'batched'):
        dbrig.reset_db('default')
        dbrig.create_tables(models, 'default')
        dbrig.insert_rows(models, random.Random(seed), n_rows=(6 if fixed is not None else None))
        before = dbrig.abs_rows()
        try:
            dbrig.evolve(sig0, 'vapp', [sigs.real_mutation(m) for m in muts], one_at_a_time=(mode == 'stepwise'))
        except Exception as e:
            if mode == 'stepwise':
                return {'skip': 'execution failed: %s' % type(e).__name__}
            rep['batched_failed'] = type(e).__name__
            continue
        after = dbrig.abs_rows()
        rep['problems_' + mode] = judge_rows(sig0, muts, before, after)
    rep['problems'] = rep.get('problems_stepwise', [])
    declared = {}
    for m in muts:
        if m.get('initial') is not None and m['t'] in ('AddField', 'ChangeField'):
            declared[(m['model'], m['field'])] = declared.get((m['model'], m['field']), 0) + 1
    # (not for sequences that declare two initial values for one column: the tool itself never puts two such
    # operations into one rebuild - the optimiser folds them first -, and which of the two a merged rebuild should
    # use is not something the property says)
    if fixed is not None and not any(n > 1 for n in declared.values()):
        # third mode, family only: ONE AppMutator fed one mutation at a time (the public run_mutation(); what a caller
        # gets who hands over an app's evolutions one by one): no optimiser, but the operations on a model are merged
        # into one table rebuild
        from django_evolution.mutators import AppMutator
        dbrig.reset_db('default')
        dbrig.create_tables(models, 'default')
        dbrig.insert_rows(models, random.Random(seed), n_rows=6)
        before = dbrig.abs_rows()
        try:
            am = AppMutator(app_label='vapp', project_sig=sig0.clone(), database_state=dbrig.scan_state('default'),
                            database='default')
            for m in muts:
                am.run_mutation(sigs.real_mutation(m))
            dbrig.run_sql(am.to_sql(), 'default')
            rep['problems_merged'] = judge_rows(sig0, muts, before, dbrig.abs_rows())
        except Exception as e:
            rep['merged_failed'] = type(e).__name__
    return rep


def judge_rows(sig0, muts, before, after):
    loc, added, notnull, final = track(sig0, muts)
    problems = []
    for (model, field), dest in loc.items():
        src = table_and_column(sig0, model, field)
        if src is None:
            continue
        t0, c0 = src
        if dest is None:
            continue
        d = table_and_column(final, dest[0], dest[1])
        if d is None:
            # no mutation deleted the field, yet the simulated signature has lost it: whatever rebuilds the table
            # next leaves its column (and every value in it) out
            if final.get_app_sig('vapp') is not None and final.get_app_sig('vapp').get_model_sig(dest[0]) is not None:
                problems.append('field %s.%s (originally %s.%s) is gone from the simulated signature although no '
                                'mutation deleted it' % (dest[0], dest[1], model, field))
            continue
        t1, c1 = d
        if t1 not in after:
            problems.append('table %s is missing after the evolution' % t1)
            continue
        rows0 = {r['id']: r for r in before.get(t0, [])}
        rows1 = {r['id']: r for r in after[t1]}
        if set(rows0) != set(rows1):
            problems.append('table %s -> %s gained or lost rows' % (t0, t1))
            continue
        if rows1 and not any(c1 in r for r in rows1.values()):
            # the table has no column of the expected name.  When the values sit in a column of ANOTHER name it is a
            # schema difference (C01 / C03 judge it, see finding F56); when no such column exists the values are gone
            msig = final.get_app_sig('vapp').get_model_sig(dest[0])
            expected = set()
            for f in msig.field_sigs:
                tc = table_and_column(final, dest[0], f.field_name)
                if tc is not None and tc[0] == t1:
                    expected.add(tc[1])
            present = set(k for r in rows1.values() for k in r)
            holders = [x for x in (present - expected)
                       if all(sval(rows1[pk].get(x)) == sval(r0.get(c0)) for pk, r0 in rows0.items())]
            if not holders:
                problems.append('column %s.%s is missing after the evolution and no other column holds its values'
                                % (t1, c1))
            continue
        nn = notnull.get(dest)
        for pk, r0 in rows0.items():
            v0, v1 = sval(r0.get(c0)), sval(rows1[pk].get(c1))
            if v0 is None and nn is not None:
                want = sval(json.loads(nn))
                if v1 != want:
                    problems.append('NULL in %s.%s should have become %r, is %r' % (t1, c1, want, v1))
            elif v0 != v1:
                problems.append('%s.%s changed from %r to %r (row %s)' % (t1, c1, v0, v1, pk))
    for (model, field), init in added.items():
        d = table_and_column(final, model, field)
        if d is None or d[0] not in after:
            continue
        if init == ROLLED:
            continue
        want = None if init is None else sval(json.loads(init))
        if init is None and (model, field) in notnull:
            continue
        for r in after[d[0]]:
            if d[1] in r and sval(r[d[1]]) != want and not (want is None and (model, field) in added and
                                                            added[(model, field)] is None and
                                                            (model, field) in notnull):
                if init is None and any(m['t'] == 'ChangeField' and m['field'] == field and m.get('initial')
                                        for m in muts):
                    continue
                problems.append('new column %s.%s holds %r instead of the declared initial %r'
                                % (d[0], d[1], sval(r[d[1]]), want))
                break
    return problems


def embedded_not_null(rep):
    """finding F57: every difference is a changed existing value in a column that a ChangeField(null=False)
    with a callable initial value (SQL text to embed) made NOT NULL"""
    cols = ['vapp_%s.%s changed from ' % (m['model'].lower(), m['field']) for m in rep['mutations']
            if m['t'] == 'ChangeField' and isinstance(m.get('initial_sql'), str) and ['null', 'false'] in m['attrs']]
    return bool(cols) and all(any(p.startswith(c) for c in cols) for p in rep['problems'])


def multi_param(muts):
    """>= 2 bound-parameter initials on one model (possible mis-binding, finding F3)"""
    per = {}
    for m in muts:
        if m['t'] in ('AddField', 'ChangeField') and m.get('initial') is not None:
            per[m['model']] = per.get(m['model'], 0) + 1
    return any(v >= 2 for v in per.values())


def run(ctx):
    dj.setup()
    quick = ctx.tier == 'quick'
    ctx.rule = ('(1) one-table batches of AddField(initial) / ChangeField(null=False, initial) / ChangeField(max_length) '
                '/ DeleteField over 1-5 rows with NULLs, empty strings, quotes, percent signs, boundary numbers: every '
                'cell of the rebuilt table predicted by the Lean rebuild model; (2) generated multi-model cases with '
                'renames of fields and models: surviving values, row counts, initial values, NULL replacement; '
                'non-trivial = at least one row and one rebuild')
    aligned, w = detect_aligned()
    ctx.variant['params_aligned'] = aligned
    if not aligned:
        ctx.fail(F_PARAMS if w['is_lean_cex_row'] else None,
                 'a merged rebuild with several parameterised initials binds them to the wrong columns: %r'
                 % (w['row_after'],), w)
    # (1)
    n1 = 150 if quick else 4000
    reqs, pend = [], []
    for i in range(n1):
        spec = one_table_spec(ctx.rng)
        muts = batch_for(ctx.rng, spec)
        if not muts:
            continue
        seed = ctx.seed * 100003 + i
        try:
            cols, before, ops, cols2, after = run_one_table(spec, muts, seed)
        except Exception as e:
            ctx.count('one_table_exec_failed:' + type(e).__name__)
            continue
        reqs.append({'op': 'rows_after', 'aligned': bool(aligned), 'cols': cols, 'rows': before, 'ops': ops})
        ctx.count('one_table:embedded_initials=%d' % min(2, sum(1 for m in muts if m.get('initial_sql'))))
        pend.append((spec, muts, seed, cols2, after, before))
    outs = ctx.driver.ask(reqs) if ctx.driver else [None] * len(reqs)
    for (spec, muts, seed, cols2, after, before), out in zip(pend, outs):
        ctx.case({'mutations': [sigs.model_mutation(m) for m in muts], 'rows': len(before)},
                 nontrivial=bool(before), sample_cap=4)
        ctx.count('params=%d' % min(3, sum(1 for m in muts if m.get('initial') is not None)))
        if out is not None:
            key = lambda r: json.dumps(sorted(r, key=lambda p: p[0]))
            model_rows = sorted(key(r) for r in out['rows'])
            real_rows = sorted(key(r) for r in after)
            ok = (sorted(out['cols']) == sorted(cols2) and model_rows == real_rows)
            ctx.corr_case('rebuild_rows', ok, case={'spec': spec, 'mutations': muts, 'seed': seed},
                          model=out, impl={'cols': cols2, 'rows': after})
        probs = one_table_problems(muts, before, after)
        if probs and not (not aligned and multi_param(muts)):
            ctx.fail(None, 'row data is not preserved by a one-table batch: %s' % probs[0],
                     {'spec': spec, 'mutations': muts, 'seed': seed, 'one_by_one': bool(seed % 2), 'problems': probs[:5]})
    # (2)
    n2 = 150 if quick else 4000
    done = 0
    fam = family()
    for i in range(n2 * 3):
        if done >= n2 or ctx.time_left() < 20:
            break
        seed = ctx.seed * 7 + i
        rep = general_case(ctx.rng, seed, fixed=fam.pop(0) if fam else None)
        if rep is None:
            continue
        if 'skip' in rep:
            ctx.count('general:' + rep['skip'])
            continue
        done += 1
        ctx.case({'mutations': [sigs.model_mutation(m) for m in rep['mutations']]}, nontrivial=True, sample_cap=8)
        ctx.count('general:cases')
        if rep['problems']:
            ctx.count('general:problems_stepwise')
            ctx.fail(F_EMBED_OVERWRITES if embedded_not_null(rep) else None,
                     'row data is not preserved (one mutation at a time): %s' % rep['problems'][0], rep)
        pm = rep.get('problems_merged', [])
        if pm and pm != rep['problems'] and pm != rep.get('problems_batched', []):
            ctx.count('general:problems_merged_only')
            ctx.fail(None, 'row data is not preserved (one mutator fed one mutation at a time, operations merged into one '
                     'rebuild): %s' % pm[0], dict(rep, mode='merged'))
        pb = rep.get('problems_batched', [])
        if pb and pb != rep['problems']:
            ctx.count('general:problems_batched_only')
            from .c03 import initial_rollup, name_reuse, touches_renamed_model
            if not aligned and multi_param(rep['mutations']):
                ctx.fail(F_PARAMS, 'row data is wrong after a rebuild with several parameterised initials: %s'
                         % pb[0], rep)
            elif optrig.model_explains_optimiser(ctx, rep['spec'], rep['mutations']) and \
                    (initial_rollup(rep['mutations']) or
                     ((name_reuse(rep['mutations']) or touches_renamed_model(rep['mutations'])) and
                      optrig.model_predicts_difference(ctx, rep['spec'], rep['mutations']))):
                # optimiser findings F20/F21/F24: the optimiser does what its model does, and either an initial value
                # was rolled up (a data-only effect) or, by the model, the optimised list ends in another signature
                ctx.count('general:batched_only_attributed_to_C03')
            else:
                ctx.fail(None, 'row data is not preserved (batched run): %s' % pb[0], rep)


def replay(ctx, obj):
    dj.setup()
    r = obj.get('replay', obj)
    if 'row_after' in r:
        aligned, w = detect_aligned()
        print('parameter order aligned:', aligned, w['row_after'])
        return 0 if aligned else 1
    if isinstance(r, dict) and 'spec' in r and 'mutations' in r and 'seed' in r:
        # a general case: run it again in every mode and report what the row oracle says
        import random as _random
        rep = general_case(_random.Random(0), r['seed'], fixed=(r['spec'], r['mutations']))
        bad = []
        for k in ('problems_stepwise', 'problems_batched', 'problems_merged'):
            for pr in (rep or {}).get(k, []):
                print('%s: %s' % (k[len('problems_'):], pr))
                bad.append(pr)
        return 1 if bad else 0
    print('re-run with VERIF_SEED=%s ./check C02 (the case is regenerated from the seed)' % obj.get('seed'))
    return 0
