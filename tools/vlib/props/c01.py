"""C01 — evolved database schema equals the schema of freshly created models.

Lean: DEvo/Sql/Schema.lean (fresh table vs rebuilt table of a model signature), DEvo/Props/C01.lean.
Tie: correspondence of the `fresh` model with really created tables and of the `rebuilt` model
with tables that the real SQLite backend has just rebuilt; property oracle evolved-vs-fresh on
generated model sets and sequences (hand-written and hinted), one mutation at a time and
batched, with the DatabaseState scanned from the real database; frame check on untouched tables.
"""
import json
import re

from .. import dbrig, evorig, sigs
from .c03 import initial_rollup, name_reuse, touches_renamed_model
from .c11 import dangling

F_TABLE_LEVEL = 'F1'
F_CHECKS = 'F22'
F_SINGLE_INDEX = 'F18'
F_RENAME_STATE = 'F23'
F_M2M_TABLE = 'F26'
F_M2M_RENAME = 'F33'
F_OPT = 'F20'
F_COLUMN_NONE = 'F34'
F_DELETED_TARGET = 'F35'
F_RETYPE_COLUMN = 'F41'
F_STALE_COLUMN = 'F47'
F_CHECK_AS_INDEX = 'F54'
F_RENAME_NAMING = 'F56'
F_RENAME_TOGETHER = 'F58'


def rebuilt_tables(trace):
    """tables rebuilt in this run, and the statement index of the last rebuild of each"""
    out = {}
    k = 0
    for sql in trace:
        for st in sql:
            s = st[0] if isinstance(st, tuple) else st
            k += 1
            if isinstance(s, str):
                m = re.match(r'ALTER TABLE "([^"]+)" RENAME TO "([^"]+)"', s)
                if m:
                    if m.group(1) == 'TEMP_TABLE':
                        out[m.group(2)] = k
                    elif m.group(1) in out:
                        out[m.group(2)] = out.pop(m.group(1))
    return out


def touched_columns(muts):
    """(model, field) pairs whose index-relevant attributes or names change in the run"""
    out = set()
    for m in muts:
        if m['t'] == 'RenameField':
            out.add((m['model'], m['old']))
            out.add((m['model'], m['new']))
        if m['t'] in ('ChangeField', 'AddField') and any(a in ('db_index', 'unique', 'db_column') for a, _ in m['attrs']):
            out.add((m['model'], m['field']))
        if m['t'] == 'AddField' and m['ftype'] in ('ForeignKey', 'OneToOneField'):
            out.add((m['model'], m['field']))
    return out


def renamed_columns(muts):
    """new column names given to existing fields in this run"""
    out = set()
    for m in muts:
        if m['t'] == 'RenameField':
            out.add(m.get('db_column') or m['new'])
        if m['t'] == 'ChangeField':
            out.update(json.loads(v) for a, v in m['attrs'] if a == 'db_column' and v != 'null')
    return out


def rename_and_index_in_one(muts):
    """one ChangeField that gives the column a new name AND changes db_index/unique: the index statement of
    that same mutation is generated against the column name the bookkeeping still has (F18)"""
    return any(m['t'] == 'ChangeField' and any(a == 'db_column' for a, _ in m['attrs']) and
               any(a in ('db_index', 'unique') for a, _ in m['attrs']) for m in muts)


def rename_with_naming(muts):
    """a RenameField in the same batch as another naming change of the same field: a second rename of it, a
    ChangeField of its db_column/db_table, or an explicit db_column/db_table on the rename after such a change
    (the optimiser folds these together and applies the names in the wrong order, finding F56)"""
    for i, m1 in enumerate(muts):
        if m1['t'] != 'RenameField':
            continue
        names = {m1['old'], m1['new']}
        for j, m2 in enumerate(muts):
            if i == j or m2.get('model') != m1['model']:
                continue
            if m2['t'] == 'RenameField' and ({m2['old'], m2['new']} & names):
                return True
            if m2['t'] == 'ChangeField' and m2['field'] in names and \
                    any(a in ('db_column', 'db_table') for a, _ in m2['attrs']):
                return True
    return False


def index_name_collision(muts):
    """a field is renamed away and a new field takes its old name: SQLite keeps the index under the name
    derived from the old column, and the new field's default index name collides with it (F18 family)"""
    for i, m1 in enumerate(muts):
        if m1['t'] == 'RenameField':
            for m2 in muts[i + 1:]:
                if m2['t'] == 'AddField' and m2['model'] == m1['model'] and m2['field'] == m1['old']:
                    return True
    return False


def index_column_touched(col, muts):
    """an index that is there although it should not be is explained by the single-column-index finding only when the
    run says something about that column's index or name: a db_index/unique/db_column attribute on its field, the field
    added, renamed or deleted-and-re-added in this run"""
    if not col:
        return True
    for m in muts:
        names = [m.get('field'), m.get('old'), m.get('new')]
        if not any(n and (col == n or col == n + '_id' or col.startswith(n + '_')) for n in names):
            continue
        if m['t'] in ('RenameField', 'AddField', 'DeleteField'):
            return True
        if m['t'] == 'ChangeField' and any(a in ('db_index', 'unique', 'db_column', 'primary_key') for a, _ in m['attrs']):
            return True
    return any(m['t'] in ('RenameModel',) for m in muts)


def classify(evolved, fresh, rebuilt, muts, stepwise=False):
    """-> list of (finding id or None, text) for every difference between evolved and fresh"""
    out = []
    renames = any(m['t'] == 'RenameModel' for m in muts)
    idx_touch = bool(touched_columns(muts))
    missing = [t for t in fresh if t not in evolved]
    extra = [t for t in evolved if t not in fresh]
    if missing or extra:
        # auto-created M2M tables keep their old name when the owning model is renamed
        if renames and missing and extra and len(missing) == len(extra) and \
                all(set(fresh[a]['columns']) and len(fresh[a]['fks']) == 2 for a in missing):
            out.append((F_M2M_RENAME, 'after RenameModel the auto-created many-to-many table keeps its old name: '
                        'missing %s, extra %s' % (missing, extra)))
        else:
            out.append((None, 'tables differ: missing %s, extra %s' % (missing, extra)))
    for t in sorted(set(fresh) & set(evolved)):
        e, f = evolved[t], fresh[t]
        rb = t in rebuilt
        is_m2m = len(f['fks']) == 2 and len(f['columns']) == 3
        if renames and is_m2m and (e['columns'] != f['columns'] or e['fks'] != f['fks'] or e['indexes'] != f['indexes']):
            out.append((F_M2M_RENAME, '%s: auto-created many-to-many table keeps column names derived from the old '
                        'model name after RenameModel' % t))
            continue
        if e['columns'] != f['columns']:
            out.append((None, '%s: columns %s != %s' % (t, json.dumps(e['columns'], sort_keys=True),
                                                        json.dumps(f['columns'], sort_keys=True))))
        if e['fks'] != f['fks']:
            out.append((None, '%s: foreign keys %s != %s' % (t, e['fks'], f['fks'])))
        if e['checks'] != f['checks']:
            if rb and set(e['checks']) <= set(f['checks']):
                out.append((F_CHECKS, '%s: CHECK %s lost in a table rebuild' % (t, sorted(set(f['checks']) - set(e['checks'])))))
            else:
                out.append((None, '%s: checks %s != %s' % (t, e['checks'], f['checks'])))
        ie = [json.dumps(x) for x in e['indexes']]
        jf = [json.dumps(x) for x in f['indexes']]
        for x in sorted(set(jf) - set(ie)) + sorted(set(ie) - set(jf)):
            ix = json.loads(x)
            multi = len(ix[0]) > 1 or ix[2] is not None
            kind = 'missing' if x in jf and x not in ie else 'extra'
            if multi and kind == 'missing' and (rb or renames):
                out.append((F_TABLE_LEVEL, '%s: table-level index %s lost (table rebuilt in this run)' % (t, ix[0])))
            elif multi and any(m['t'] == 'ChangeMeta' for m in muts) and rb:
                out.append((F_TABLE_LEVEL, '%s: table-level index %s %s around a rebuild' % (t, ix[0], kind)))
            elif multi and kind == 'extra' and any(m['t'] == 'ChangeMeta' for m in muts) and \
                    set(ix[0]) & renamed_columns(muts):
                out.append((F_STALE_COLUMN, '%s: table-level index %s is not dropped by ChangeMeta after one of its '
                            'columns was renamed in the same run' % (t, ix[0])))
            elif not multi and kind == 'missing' and not rb and ((ix[0][0] + '>=0') in f['checks'] or
                                                                 any(fk[0] == ix[0][0] for fk in f['fks'])) and any(
                    m['t'] == 'ChangeField' and any(a == 'db_index' and v == 'true' for a, v in m['attrs']) and
                    not any(a == 'db_column' for a, _ in m['attrs']) and
                    (ix[0][0] in (m['field'], m['field'] + '_id') or ix[0][0].startswith(m['field'] + '_')) and
                    # the column keeps its name throughout the run (otherwise the stale bookkeeping after a
                    # column rename, finding F18, explains the missing index - with or without a CHECK)
                    not any(x is not m and x.get('model') == m['model'] and
                            ((x['t'] == 'ChangeField' and x['field'] == m['field'] and
                              any(a == 'db_column' for a, _ in x['attrs'])) or
                             (x['t'] == 'RenameField' and m['field'] in (x['old'], x['new']))) for x in muts)
                    for m in muts):
                out.append((F_CHECK_AS_INDEX, '%s: no index is created for %s: the scanned DatabaseState lists the column\'s '
                            'CHECK / FOREIGN KEY constraint as an index, so create_index() thinks one exists' % (t, ix[0])))
            elif not multi and (rb or ((idx_touch or renames) and (not stepwise or rename_and_index_in_one(muts)))) and \
                    (kind != 'extra' or index_column_touched(ix[0][0], muts)):
                # one mutation at a time with the bookkeeping re-scanned before each, only a rebuild can lose or
                # keep a single-column index wrongly; in a batched run the stale in-memory bookkeeping can too
                out.append((F_SINGLE_INDEX, '%s: single-column index %s %s after a rebuild / index change / rename'
                            % (t, ix[0], kind)))
            else:
                out.append((None, '%s: index %s %s' % (t, ix, kind)))
    return out


def crash_finding(exc, muts, rebuilt):
    msg = '%s: %s' % (type(exc).__name__, str(exc)[:160])
    if any(m['t'] == 'ChangeField' and any(a == 'db_table' for a, _ in m['attrs']) for m in muts) and \
            isinstance(exc, AttributeError):
        return F_M2M_TABLE, msg
    if any(m['t'] == 'ChangeField' and any(a == 'db_column' and v == 'null' for a, v in m['attrs']) for m in muts) and \
            isinstance(exc, AttributeError):
        return F_COLUMN_NONE, msg
    if any(m['t'] == 'RenameModel' for m in muts) and type(exc).__name__ in (
            'DatabaseStateError', 'MissingSignatureError', 'EvolutionBaselineMissingError', 'OperationalError'):
        return F_RENAME_STATE, msg
    if isinstance(exc, AssertionError):
        # ... and the unique index of a column of a table renamed earlier in the run is looked up under the new
        # table name, which the bookkeeping does not know yet (same finding)
        renamed_to = set(m['new'] for m in muts if m['t'] == 'RenameModel')
        if any(m['t'] == 'ChangeField' and m['model'] in renamed_to and
               any(a in ('unique', 'db_index') for a, _ in m['attrs']) for m in muts):
            return F_RENAME_STATE, msg
    if any(m['t'] == 'DeleteModel' for m in muts) and type(exc).__name__ in ('MissingSignatureError',
                                                                             'EvolutionBaselineMissingError'):
        return F_DELETED_TARGET, msg
    if any(m['t'] == 'ChangeField' and m.get('ftype') for m in muts) and 'has no column named' in str(exc):
        return F_RETYPE_COLUMN, msg
    if 'This index already exists' in str(exc) or ('already exists' in str(exc) and 'index' in str(exc).lower()):
        if index_name_collision(muts):
            return F_SINGLE_INDEX, msg
    if isinstance(exc, AssertionError):
        # change_column_attr_unique asserts that the unique index it is about to drop is known: after a
        # RenameField of that very field the bookkeeping still names the old column (F18)
        renamed = set((m['model'], m['new']) for m in muts if m['t'] == 'RenameField')
        if any(m['t'] == 'ChangeField' and (m['model'], m['field']) in renamed and
               any(a in ('unique', 'db_index') for a, _ in m['attrs']) for m in muts):
            return F_SINGLE_INDEX, msg
    if 'no such index' in str(exc) or 'no such column' in str(exc):
        if any(m['t'] == 'ChangeMeta' for m in muts) or '__unnamed_constraint' in str(exc):
            return F_TABLE_LEVEL, msg
        return F_SINGLE_INDEX, msg
    if type(exc).__name__ == 'FieldDoesNotExist':
        # the together-lists of the stored signature still name a renamed field (finding F58)
        for i, m in enumerate(muts):
            if m['t'] == 'RenameField' and ("no field named '%s'" % m['old']) in str(exc) and \
                    any(x['t'] == 'ChangeMeta' and x['model'] == m['model'] and
                        x['prop'] in ('unique_together', 'index_together') for x in muts[i + 1:]):
                return F_RENAME_TOGETHER, msg
    if type(exc).__name__ == 'IntegrityError':
        return 'data', msg      # existing rows violate the new constraint: not a schema question
    return None, msg


def gen_case(rng, hinted):
    spec = sigs.gen_spec(rng)
    models = dbrig.build_models(spec)
    sig = dbrig.sig_from_models(models)
    kinds = None
    if rng.random() < 0.25:
        # primary-key renames followed by changes of the tables that refer to the model
        kinds = ['RenamePK'] * 3 + ['AddField'] * 5 + ['ChangeField'] * 4 + ['DeleteField'] * 2 + ['RenameField']
    muts, final = sigs.gen_sequence(rng, sig, 'vapp', rng.randint(1, 4), kinds=kinds)
    if final is None or not muts or dangling(final, set()):
        return None
    # renaming/deleting a field that a table-level Meta entry names leaves Meta pointing at a
    # stale (or, after name reuse, a different) field: such targets are not meaningful models
    meta_fields = set()
    for m in spec['apps'][0]['models']:
        for t in m.get('unique_together', []) + m.get('index_together', []):
            meta_fields.update((m['name'], x) for x in t)
        for ix in m.get('indexes', []):
            meta_fields.update((m['name'], x) for x in ix.get('fields', []))
    for mu in muts:
        if mu['t'] == 'RenameField' and (mu['model'], mu['old']) in meta_fields:
            return None
        if mu['t'] == 'DeleteField' and (mu['model'], mu['field']) in meta_fields:
            return None
    if hinted:
        # use the hinted evolution for the same target instead of the hand-written sequence
        try:
            target_spec = {'apps': [a for a in dbrig.spec_from_sig(final)['apps'] if a['id'] == 'vapp']}
            evorig.install_models(target_spec)
            from django_evolution.diff import Diff
            hint = Diff(sig, final).evolution().get('vapp', [])
            muts2 = [sigs.abs_mutation_obj(m) for m in hint]
            for m in muts2:
                if m.get('initial') == '"<<USER VALUE REQUIRED>>"':
                    m['initial'] = sigs.cv(sigs.gen_initial(rng, m.get('ftype') or 'IntegerField'))
                if m['t'] == 'ChangeMeta':
                    m['py_value'] = [x for x in hint if type(x).__name__ == 'ChangeMeta' and
                                     x.prop_name == m['prop'] and x.model_name == m['model']][0].new_value
            r = sigs.real_simulate(sig, 'vapp', [sigs.real_mutation(m) for m in muts2])
            if r[0] != 'ok' or not muts2:
                return None
            muts, final = muts2, r[1]
        except Exception:
            return None
    return spec, muts, final


def pk_family():
    """deterministic family: the primary key of a referenced model gets a new name/column, then a
    table that refers to it is rebuilt (every combination)"""
    def fld(name, t, related=None, **attrs):
        return {'name': name, 'type': t, 'attrs': attrs, 'related': related}
    out = []
    for pk in (fld('id', 'AutoField', primary_key=True), fld('code', 'CharField', primary_key=True, max_length=20)):
        spec = {'apps': [{'id': 'vapp', 'models': [
            {'name': 'Parent', 'table': 'vapp_parent', 'fields': [pk, fld('n', 'IntegerField', null=True)],
             'unique_together': [], 'index_together': [], 'indexes': [], 'constraints': []},
            {'name': 'Child', 'table': 'vapp_child', 'fields': [
                fld('id', 'AutoField', primary_key=True), fld('a', 'IntegerField'),
                fld('q', 'ForeignKey', related='vapp.Parent', null=True)],
             'unique_together': [], 'index_together': [], 'indexes': [], 'constraints': []}]}]}
        renames = [
            {'t': 'RenameField', 'model': 'Parent', 'old': pk['name'], 'new': 'ident', 'db_column': None, 'db_table': None},
            {'t': 'RenameField', 'model': 'Parent', 'old': pk['name'], 'new': 'ident', 'db_column': 'ident_col',
             'db_table': None},
            {'t': 'ChangeField', 'model': 'Parent', 'field': pk['name'], 'ftype': None, 'initial': None,
             'attrs': [['db_column', '"k_col"']]}]
        rebuilds = [
            {'t': 'AddField', 'model': 'Child', 'field': 'm', 'ftype': 'IntegerField', 'initial': None,
             'attrs': [['null', 'true']]},
            {'t': 'ChangeField', 'model': 'Child', 'field': 'a', 'ftype': None, 'initial': None,
             'attrs': [['null', 'true']]},
            {'t': 'AddField', 'model': 'Child', 'field': 'p', 'ftype': 'ForeignKey', 'initial': None,
             'attrs': [['null', 'true'], ['related_model', '"vapp.Parent"']]}]
        for r in renames:
            for b in rebuilds:
                out.append((spec, [r, b]))
    return out


def index_family():
    """deterministic family: an indexed column (or its table) gets a new name, and a LATER mutation drops or
    adds the index — one mutation at a time this must work whatever the index is called by then"""
    def fld(name, t, related=None, **attrs):
        return {'name': name, 'type': t, 'attrs': attrs, 'related': related}
    spec = {'apps': [{'id': 'vapp', 'models': [
        {'name': 'Order', 'table': 'vapp_order', 'fields': [
            fld('id', 'AutoField', primary_key=True), fld('reference', 'CharField', max_length=20, db_index=True),
            fld('amount', 'IntegerField', null=True)],
         'unique_together': [], 'index_together': [], 'indexes': [], 'constraints': []}]}]}
    cf = lambda model, field, *attrs: {'t': 'ChangeField', 'model': model, 'field': field, 'ftype': None,
                                       'initial': None, 'attrs': [list(a) for a in attrs]}
    spec2 = {'apps': [{'id': 'vapp', 'models': [
        {'name': 'Owner', 'table': 'vapp_owner', 'fields': [fld('id', 'AutoField', primary_key=True)],
         'unique_together': [], 'index_together': [], 'indexes': [], 'constraints': []},
        {'name': 'Item', 'table': 'vapp_item', 'fields': [
            fld('id', 'AutoField', primary_key=True), fld('code', 'IntegerField', db_column='code_col'),
            fld('owner', 'ForeignKey', related='vapp.Owner', db_column='owner_col', null=True),
            fld('tags', 'ManyToManyField', related='vapp.Owner', db_table='vapp_item_tags_x'),
            fld('plain', 'ManyToManyField', related='vapp.Owner')],
         'unique_together': [], 'index_together': [], 'indexes': [], 'constraints': []}]}]}
    mk = lambda app, name: {'name': name, 'table': '%s_%s' % (app, name.lower()), 'fields': [
        fld('id', 'AutoField', primary_key=True), fld('label', 'CharField', max_length=10, null=True)],
        'unique_together': [], 'index_together': [], 'indexes': [], 'constraints': []}
    spec3 = {'apps': [{'id': 'vapp', 'models': [mk('vapp', 'Tag'), mk('vapp', 'Topic')]},
                      {'id': 'wapp', 'models': [mk('wapp', 'Tag')]}]}
    # a partial index (Meta.indexes entry with a condition) that keeps its name and fields and loses the condition -
    # exactly the entry a hint writes for an index without attributes -, alone and next to an untouched second index
    part = lambda *ix: {'apps': [{'id': 'vapp', 'models': [
        {'name': 'Order', 'table': 'vapp_order', 'fields': [
            fld('id', 'AutoField', primary_key=True), fld('reference', 'CharField', max_length=20, null=True),
            fld('amount', 'IntegerField', null=True)],
         'unique_together': [], 'index_together': [], 'indexes': list(ix), 'constraints': []}]}]}
    open_ix = {'name': 'vapp_order_open_idx', 'fields': ['amount'], 'condition': {'amount__gt': 0}}
    ref_ix = {'fields': ['reference'], 'name': 'vapp_order_ref_idx'}       # keys in the order a hint writes them
    cm_ix = lambda *ix: {'t': 'ChangeMeta', 'model': 'Order', 'prop': 'indexes', 'py_value': list(ix)}
    plain_open = {'fields': ['amount'], 'name': 'vapp_order_open_idx'}
    # a field re-typed without any attribute (what a hint writes for CharField(max_length, db_index) -> TextField()):
    # the new field has the attributes it states, i.e. none - then another change rebuilds the table
    order = lambda ref, *more: {'apps': [{'id': 'vapp', 'models': [
        {'name': 'Order', 'table': 'vapp_order', 'fields': [fld('id', 'AutoField', primary_key=True), ref,
                                                            fld('amount', 'IntegerField', null=True)] + list(more),
         'unique_together': [], 'index_together': [], 'indexes': [], 'constraints': []}]}]}
    retyped = [
        (order(fld('reference', 'CharField', max_length=20, db_index=True)),
         [{'t': 'ChangeField', 'model': 'Order', 'field': 'reference', 'ftype': 'TextField', 'initial': None, 'attrs': []},
          {'t': 'AddField', 'model': 'Order', 'field': 'extra', 'ftype': 'IntegerField', 'initial': None,
           'attrs': [['null', 'true']]}],
         order(fld('reference', 'TextField'), fld('extra', 'IntegerField', null=True))),
        (order(fld('reference', 'CharField', max_length=20, unique=True)),
         [{'t': 'ChangeField', 'model': 'Order', 'field': 'reference', 'ftype': 'TextField', 'initial': None, 'attrs': []},
          {'t': 'ChangeField', 'model': 'Order', 'field': 'amount', 'ftype': None, 'initial': '0', 'attrs': [['null', 'false']]}],
         order(fld('reference', 'TextField')))]
    retyped[1][2]['apps'][0]['models'][0]['fields'][2] = fld('amount', 'IntegerField')
    return retyped + [
        (part(open_ix), [cm_ix(plain_open)]),
        (part(open_ix, ref_ix), [cm_ix(plain_open, ref_ix)]),
        (part(ref_ix, open_ix), [cm_ix(ref_ix, plain_open)]),
        (spec, [{'t': 'RenameField', 'model': 'Order', 'old': 'reference', 'new': 'order_no', 'db_column': None,
                 'db_table': None}, cf('Order', 'order_no', ('db_index', 'false'))]),
        (spec, [cf('Order', 'reference', ('db_column', '"ref_col"')), cf('Order', 'reference', ('db_index', 'false'))]),
        (spec, [{'t': 'RenameModel', 'old': 'Order', 'new': 'Purchase', 'db_table': 'vapp_purchase'},
                cf('Purchase', 'reference', ('db_index', 'false'))]),
        (spec, [{'t': 'RenameField', 'model': 'Order', 'old': 'amount', 'new': 'total', 'db_column': None,
                 'db_table': None}, cf('Order', 'total', ('db_index', 'true'))]),
        (spec, [cf('Order', 'reference', ('db_index', 'false')), cf('Order', 'reference', ('db_index', 'true'))]),
        # a custom column / table name is removed again (what the hint for such a change looks like)
        (spec2, [cf('Item', 'code', ('db_column', 'null'))]),
        (spec2, [cf('Item', 'owner', ('db_column', 'null'))]),
        (spec2, [cf('Item', 'tags', ('db_table', '"vapp_item_labels"'))]),
        (spec2, [cf('Item', 'plain', ('db_table', '"vapp_item_plain2"'))]),
        # a many-to-many field between two models of the same NAME in different apps (the join table's two columns
        # are then called from_<name>_id / to_<name>_id), and to the model itself
        (spec3, [{'t': 'AddField', 'model': 'Tag', 'field': 'friends', 'ftype': 'ManyToManyField', 'initial': None,
                  'attrs': [['related_model', '"wapp.Tag"']]}]),
        (spec3, [{'t': 'AddField', 'model': 'Tag', 'field': 'peers', 'ftype': 'ManyToManyField', 'initial': None,
                  'attrs': [['related_model', '"vapp.Tag"']]}]),
        (spec3, [{'t': 'AddField', 'model': 'Tag', 'field': 'tops', 'ftype': 'ManyToManyField', 'initial': None,
                  'attrs': [['related_model', '"vapp.Topic"']]}]),
        # the index a relation column gets by default is switched off (and on again), alone and next to a rebuild
        (spec2, [cf('Item', 'owner', ('db_index', 'false'))]),
        (spec2, [cf('Item', 'owner', ('db_index', 'false')), cf('Item', 'owner', ('db_index', 'true'))]),
        (spec2, [cf('Item', 'owner', ('db_index', 'false')),
                 {'t': 'AddField', 'model': 'Item', 'field': 'extra', 'ftype': 'IntegerField', 'initial': '1', 'attrs': []}]),
    ]


def pair_family():
    """deterministic family: every ordered pair of mutation kinds on one model, in one evolution (what the
    backend may merge into one ALTER TABLE / one table rebuild) — delete and re-add of a name, index and
    constraint changes next to rebuilding changes, renames next to attribute changes"""
    def fld(name, t, related=None, **attrs):
        return {'name': name, 'type': t, 'attrs': attrs, 'related': related}
    spec = {'apps': [{'id': 'vapp', 'models': [
        {'name': 'Book', 'table': 'vapp_book', 'fields': [
            fld('id', 'AutoField', primary_key=True), fld('title', 'CharField', max_length=40),
            fld('isbn', 'CharField', max_length=20, null=True), fld('pages', 'IntegerField', null=True),
            fld('rating', 'IntegerField', null=True), fld('year', 'IntegerField', null=True)],
         'unique_together': [['title', 'year']], 'index_together': [['pages', 'rating']], 'indexes': [],
         'constraints': []}]}]}
    cf = lambda field, initial, *attrs: {'t': 'ChangeField', 'model': 'Book', 'field': field, 'ftype': None,
                                         'initial': initial, 'attrs': [list(a) for a in attrs]}
    add = lambda field, ftype, initial, *attrs: {'t': 'AddField', 'model': 'Book', 'field': field, 'ftype': ftype,
                                                 'initial': initial, 'attrs': [list(a) for a in attrs]}
    meta = lambda prop, val: {'t': 'ChangeMeta', 'model': 'Book', 'prop': prop, 'py_value': val}
    ops = [
        {'t': 'DeleteField', 'model': 'Book', 'field': 'isbn'},
        add('isbn', 'IntegerField', None, ('null', 'true')),          # valid only after the delete: a re-used name
        add('extra', 'IntegerField', '5'),
        add('note', 'CharField', None, ('max_length', '10'), ('null', 'true')),
        cf('pages', None, ('db_index', 'true')),
        cf('rating', '0', ('null', 'false')),
        cf('title', None, ('max_length', '60')),
        cf('year', None, ('unique', 'true')),
        cf('year', None, ('db_column', '"yr"')),
        meta('unique_together', []),
        meta('index_together', []),
        meta('unique_together', [('title', 'year'), ('pages', 'year')]),
        {'t': 'RenameField', 'model': 'Book', 'old': 'rating', 'new': 'score', 'db_column': None, 'db_table': None},
    ]
    out = [(spec, [a, b]) for a in ops for b in ops if a is not b]
    # a rename that keeps its column (no SQL of its own), followed by changes that name the field by its new name
    keep = {'t': 'RenameField', 'model': 'Book', 'old': 'isbn', 'new': 'code', 'db_column': 'isbn', 'db_table': None}
    cfm = lambda field, *attrs: {'t': 'ChangeField', 'model': 'Book', 'field': field, 'ftype': None, 'initial': None,
                                 'attrs': [list(a) for a in attrs]}
    out += [(spec, [keep, cfm('code', ('max_length', '40'))]),
            (spec, [keep, cfm('code', ('db_index', 'true'))]),
            (spec, [keep, meta('unique_together', [('title', 'year'), ('code', 'year')])]),
            (spec, [keep, add('extra', 'IntegerField', '5'), cfm('code', ('max_length', '30'), ('null', 'true'))])]
    return out


def optimizer_rewrote(spec, muts):
    """did the real optimiser change the mutation list at all?  (what it leaves alone, finding F20 cannot explain)"""
    from .. import optrig
    try:
        sig = dbrig.sig_from_models(dbrig.build_models(spec))
        res, _ = optrig.real_optimize(sig, muts, passes=1)
        if 'err' in res[0]:
            return True
        before = [optrig.norm_mut(sigs.abs_mutation_obj(sigs.real_mutation(m))) for m in muts]
        return [optrig.norm_mut(m) for m in res[0]['out']] != before
    except Exception:
        return True


def meta_drop_after_rebuild(muts, exc_text):
    """finding F1's crash shape: the ChangeMeta that drops a multi-column index comes AFTER another mutation of
    the same model in the sequence (the rebuild that lost the index); a ChangeMeta that leads its model's
    mutations cannot be explained that way"""
    if '__unnamed_constraint' in exc_text:
        return True
    seen = set()
    for m in muts:
        model = m.get('model') or m.get('old')
        if m['t'] == 'ChangeMeta' and model in seen:
            return True
        seen.add(model)
        if m['t'] == 'RenameModel':
            seen.add(m['new'])
    return False


def permuted_family():
    """deterministic family: composite indexes over the same columns in a different order are different
    indexes - adding the reversed entry, or removing one of two permuted entries"""
    import copy
    spec = pair_family()[0][0]
    meta = lambda prop, val: {'t': 'ChangeMeta', 'model': 'Book', 'prop': prop, 'py_value': val}
    both = copy.deepcopy(spec)
    both['apps'][0]['models'][0]['index_together'] = [['pages', 'rating'], ['rating', 'pages']]
    both['apps'][0]['models'][0]['unique_together'] = [['title', 'year'], ['year', 'title']]
    return [
        (spec, [meta('index_together', [('pages', 'rating'), ('rating', 'pages')])]),
        (spec, [meta('unique_together', [('title', 'year'), ('year', 'title')])]),
        (spec, [meta('index_together', [('rating', 'pages')])]),
        (both, [meta('index_together', [('rating', 'pages')])]),
        (both, [meta('index_together', [('pages', 'rating')])]),
        (both, [meta('unique_together', [('year', 'title')])]),
        (both, [meta('unique_together', [('title', 'year')])]),
    ]


def family_case(spec, muts, final_spec=None):
    sig = dbrig.sig_from_models(dbrig.build_models(spec))
    if final_spec is not None:
        # the evolved models are written down (the simulation under test is not asked what they are)
        return spec, muts, dbrig.sig_from_models(dbrig.build_models(final_spec))
    r = sigs.real_simulate(sig, 'vapp', [sigs.real_mutation(m) for m in muts])
    if r[0] != 'ok':
        return None
    return spec, muts, r[1]


def non_integer_fk(sig, m):
    for f in m.field_sigs:
        if f.related_model:
            app, name = f.related_model.split('.')
            a = sig.get_app_sig(app)
            t = a.get_model_sig(name) if a is not None else None
            if t is not None and any(x.get_attr_value('primary_key') and
                                     x.field_type.__name__ not in ('AutoField', 'BigAutoField', 'IntegerField')
                                     for x in t.field_sigs):
                return True
    return False


def stepwise_explained(step, fresh, muts):
    """the one-at-a-time run is clean, or everything wrong with it is attributed to a listed finding"""
    if 'error' in step:
        return crash_finding(step['error'], muts, step['rebuilt'])[0] is not None
    return not any(f is None for f, _ in classify(step['schema'], fresh, step['rebuilt'], muts, stepwise=True))


def run_mode(spec, muts, stepwise):
    models = dbrig.build_models(spec)
    sig = dbrig.sig_from_models(models)
    dbrig.reset_db('default')
    dbrig.create_tables(models, 'default')
    before = dbrig.abs_schema('default')
    trace = []
    try:
        out = dbrig.evolve(sig, 'vapp', [sigs.real_mutation(m) for m in muts], one_at_a_time=stepwise, trace=trace)
    except Exception as e:
        return {'error': e, 'rebuilt': rebuilt_tables(trace), 'before': before}
    return {'schema': dbrig.abs_schema('default'), 'sig': out, 'rebuilt': rebuilt_tables(trace), 'before': before,
            'trace_len': sum(len(s) for s in trace)}


def untouched_tables(spec, muts):
    """tables of models that the evolution neither names nor relates to"""
    named = set()
    for m in muts:
        for k in ('model', 'old', 'new'):
            if m['t'] in ('RenameModel',) or k == 'model':
                if m.get(k):
                    named.add(m[k])
    out = []
    for a in spec['apps']:
        for m in a['models']:
            rel = set(f['related'].split('.')[1] for f in m['fields'] if f.get('related'))
            rel_to_me = any(f.get('related') == '%s.%s' % (a['id'], m['name'])
                            for b in spec['apps'] for mm in b['models'] for f in mm['fields'])
            if m['name'] not in named and not (rel & named) and not rel_to_me and not rel:
                out.append(m['table'])
    return out


def cross_app_rename_probe(ctx):
    """a model that another app refers to is renamed (the other app has a model of the new name, too), and a later
    evolution of the other app rebuilds the referring table: the evolved schema - where the foreign key points - is
    the schema of the final models created from scratch; the final models are written down here, not simulated"""
    def fld(name, t, related=None, **attrs):
        return {'name': name, 'type': t, 'attrs': attrs, 'related': related}

    def mdl(app, name, fields, table=None):
        return {'name': name, 'table': table or '%s_%s' % (app, name.lower()), 'unique_together': [],
                'index_together': [], 'indexes': [], 'constraints': [],
                'fields': [fld('id', 'AutoField', primary_key=True)] + fields}
    label = [fld('label', 'CharField', max_length=10, null=True)]
    for new_table in ('vapp_customer', 'vapp_person'):
        for kind in ('ForeignKey', 'OneToOneField'):
            ticket = lambda target, null: mdl('wapp', 'Ticket', [fld('note', 'CharField', max_length=10, **({'null': True} if null else {})),
                                                               fld('owner', kind, 'vapp.%s' % target, null=True)])
            spec0 = {'apps': [{'id': 'vapp', 'models': [mdl('vapp', 'Person', label)]},
                              {'id': 'wapp', 'models': [mdl('wapp', 'Customer', label), ticket('Person', False)]}]}
            spec1 = {'apps': [{'id': 'vapp', 'models': [mdl('vapp', 'Customer', label, table=new_table)]},
                              {'id': 'wapp', 'models': [mdl('wapp', 'Customer', label), ticket('Customer', True)]}]}
            steps = [('vapp', [{'t': 'RenameModel', 'old': 'Person', 'new': 'Customer', 'db_table': new_table}]),
                     ('wapp', [{'t': 'ChangeField', 'model': 'Ticket', 'field': 'note', 'ftype': None, 'initial': None,
                                'attrs': [['null', 'true']]}])]
            rep = {'scenario': 'cross-app rename, then a rebuild of the referring table', 'spec': spec0,
                   'steps': steps, 'final_models': spec1}
            ctx.count('cross_app_rename_probe')
            ctx.case({'scenario': 'cross-app rename', 'new_table': new_table, 'relation': kind}, nontrivial=True, sample_cap=2)
            fresh_models = dbrig.build_models(spec1)
            dbrig.reset_db('default')
            dbrig.create_tables(fresh_models, 'default')
            fresh = dbrig.abs_schema('default')
            models = dbrig.build_models(spec0)
            sig = dbrig.sig_from_models(models)
            dbrig.reset_db('default')
            dbrig.create_tables(models, 'default')
            try:
                for app, muts in steps:
                    sig = dbrig.evolve(sig, app, [sigs.real_mutation(m) for m in muts])
            except Exception as e:
                ctx.fail(None, 'a valid two-app upgrade (rename in one app, change in the app that refers to it) fails: '
                         '%s: %s' % (type(e).__name__, str(e)[:160]), rep)
                continue
            evolved = dbrig.abs_schema('default')
            for t in sorted(set(fresh) | set(evolved)):
                if json.dumps(fresh.get(t), sort_keys=True) != json.dumps(evolved.get(t), sort_keys=True):
                    ctx.fail(None, 'after a cross-app rename and a rebuild of the referring table, table %s differs from '
                             'the freshly created one: evolved %s, fresh %s'
                             % (t, json.dumps(evolved.get(t), sort_keys=True)[:200], json.dumps(fresh.get(t), sort_keys=True)[:200]),
                             rep)
                    break


def dbstate_correspondence(ctx):
    """random sequences of bookkeeping calls (add_table, add_index, remove_index, get_index, find_index,
    clear_indexes, iter_indexes, has_table; tracked and untracked tables, ordinary and unique indexes, names and column
    lists that repeat) on the real DatabaseState against the Lean model Sql/DbState.lean: every answer, every
    DatabaseStateError, the final contents"""
    import random
    from django_evolution.db.state import DatabaseState
    from django_evolution.errors import DatabaseStateError
    rng = random.Random(ctx.seed * 389 + 11)
    n = 150 if ctx.tier == 'quick' else 3000
    tables, names = ['vapp_a', 'vapp_b', 'wapp_c'], ['ix1', 'ix2', 'ix3', 'uq1']
    colsets = [['a'], ['b'], ['a', 'b'], ['b', 'a']]
    reqs, reals, cases = [], [], []
    for _ in range(n):
        st = DatabaseState('default', scan=False)
        ops, res = [], []
        for _ in range(rng.randint(3, 14)):
            k = rng.choice(['add_table', 'add_index', 'add_index', 'add_index', 'remove_index', 'remove_index',
                            'get_index', 'find_index', 'find_index', 'clear', 'iter', 'has_table'])
            t = rng.choice(tables)
            o = {'k': k, 't': t}
            ix = lambda i: None if i is None else [i.name, list(i.columns), bool(i.unique)]
            try:
                if k == 'add_table':
                    st.add_table(t)
                    r = 'ok'
                elif k == 'has_table':
                    r = bool(st.has_table(t))
                elif k == 'clear':
                    st.clear_indexes(t)
                    r = 'ok'
                elif k == 'iter':
                    r = [ix(i) for i in st.iter_indexes(t)]
                elif k == 'add_index':
                    o.update(name=rng.choice(names), cols=rng.choice(colsets), unique=rng.random() < 0.4)
                    st.add_index(t, o['name'], list(o['cols']), unique=o['unique'])
                    r = 'ok'
                elif k == 'remove_index':
                    o.update(name=rng.choice(names), unique=rng.random() < 0.4)
                    st.remove_index(t, o['name'], unique=o['unique'])
                    r = 'ok'
                elif k == 'get_index':
                    o.update(name=rng.choice(names), unique=rng.random() < 0.4)
                    r = ix(st.get_index(t, o['name'], unique=o['unique']))
                else:
                    o.update(cols=rng.choice(colsets), unique=rng.random() < 0.4)
                    r = ix(st.find_index(t, list(o['cols']), unique=o['unique']))
            except DatabaseStateError as e:
                msg = str(e)
                r = 'untracked' if 'not being tracked' in msg else 'exists' if 'already exists' in msg else \
                    'not-found' if 'could not be found' in msg else 'error: ' + msg[:60]
            ops.append(o)
            res.append(r)
            ctx.count('dbstate:%s' % k)
        final = [[t, [i.name for i in st.iter_indexes(t) if not i.unique], [i.name for i in st.iter_indexes(t) if i.unique]]
                 for t in tables if st.has_table(t)]
        cases.append(ops)
        reals.append({'results': res, 'final': sorted(final)})
        reqs.append({'op': 'dbstate', 'ops': ops})
    outs = ctx.driver.ask(reqs) if ctx.driver else []
    for ops, real, out in zip(cases, reals, outs):
        model = {'results': out.get('results'), 'final': sorted(out.get('final') or [])} if out else None
        ctx.corr_case('database_state', model == real, case={'ops': ops}, model=model, impl=real)


def run(ctx):
    evorig.setup()
    quick = ctx.tier == 'quick'
    ctx.rule = ('generated model sets (1-3 models; Char/Text/Integer/BigInteger/PositiveInteger/Boolean/Decimal/'
                'DateTime/ForeignKey/OneToOne/ManyToMany; null, db_index, unique, db_column; unique_together, '
                'index_together, Meta.indexes) x simulation-valid sequences of 1-4 mutations, hand-written or hinted '
                'from the target models, executed one at a time and batched on SQLite with the index bookkeeping '
                'scanned from the database; non-trivial = the run executed at least one statement')
    cross_app_rename_probe(ctx)
    dbstate_correspondence(ctx)
    n = 480 if quick else 6000
    found = {}
    schema_reqs, schema_pend = [], []
    done = 0
    tries = 0
    family = pk_family() + index_family() + permuted_family() + pair_family()
    while done < n and tries < n * 4 and ctx.time_left() > 25:
        tries += 1
        if family:
            hinted = False
            g = family_case(*family.pop(0))
            ctx.count('family:pk_rename/index_after_rename/pairs')
        else:
            hinted = ctx.rng.random() < 0.3
            g = gen_case(ctx.rng, hinted)
        if g is None:
            continue
        spec, muts, final = g
        try:
            fresh = dbrig.fresh_schema(final)
        except Exception:
            ctx.count('target_not_constructible')
            continue
        done += 1
        ctx.count('hinted' if hinted else 'hand-written')
        rep = {'spec': spec, 'mutations': muts, 'hinted': hinted}
        res = {}
        for mode in ('stepwise', 'batched'):
            r = run_mode(spec, muts, mode == 'stepwise')
            res[mode] = r
            if 'error' in r:
                fid, msg = crash_finding(r['error'], muts, r['rebuilt'])
                ctx.count('%s:crash' % mode)
                if fid == 'data':
                    continue
                step_known = 'error' not in res['stepwise'] or \
                    crash_finding(res['stepwise']['error'], muts, res['stepwise']['rebuilt'])[0] is not None
                if fid == F_TABLE_LEVEL and mode == 'batched' and 'error' not in res['stepwise'] and \
                        not meta_drop_after_rebuild(muts, str(r['error'])):
                    fid = None      # only the merged run loses the index before the ChangeMeta drops it
                if mode == 'batched' and step_known and (name_reuse(muts) or touches_renamed_model(muts)) and \
                        optimizer_rewrote(spec, muts):
                    fid = fid or F_OPT
                if mode == 'batched' and step_known and fid is None and rename_with_naming(muts):
                    fid = F_RENAME_NAMING
                item = (fid, 'executing the generated SQL fails (%s run): %s' % (mode, msg))
                found.setdefault(item[0] if item[0] else ('V', item[1][:80]), (item, dict(rep, mode=mode)))
                continue
            diffs = classify(r['schema'], fresh, r['rebuilt'], muts, stepwise=(mode == 'stepwise'))
            # frame: untouched tables are exactly as they were
            for t in untouched_tables(spec, muts):
                if t in r['before'] and r['schema'].get(t) != r['before'][t] and t not in r['rebuilt']:
                    diffs.append((None, 'table %s of an unrelated model changed' % t))
            ctx.count('%s:%s' % (mode, 'equal' if not diffs else 'differs'))
            for fid, text in diffs:
                if fid is None and mode == 'batched' and stepwise_explained(res['stepwise'], fresh, muts):
                    if (name_reuse(muts) or touches_renamed_model(muts) or initial_rollup(muts)) and \
                            optimizer_rewrote(spec, muts):
                        fid = F_OPT      # only the optimised run is off, in a way C03's findings explain
                    elif rename_with_naming(muts):
                        fid = F_RENAME_NAMING
                key = fid if fid else ('V', text[:80])
                found.setdefault(key, ((fid, text), dict(rep, mode=mode)))
        ctx.case({'mutations': [sigs.model_mutation(m) for m in muts], 'hinted': hinted},
                 nontrivial=res['stepwise'].get('trace_len', 1) > 0, sample_cap=6)
        for m in muts:
            ctx.count('mut:' + m['t'])
        # correspondence of the Lean `fresh` model with the really created tables
        schema_reqs.append({'op': 'schema', 'sig': sigs.abs_sig(final)})
        schema_pend.append((final, fresh, res['stepwise']))
    outs = ctx.driver.ask(schema_reqs) if ctx.driver else [None] * len(schema_reqs)
    for (final, fresh, step), out in zip(schema_pend, outs):
        if out is None:
            continue
        for a in final.app_sigs:
            for m in a.model_sigs:
                if m.index_sigs or m.constraint_sigs or m.table_name not in fresh:
                    continue      # Meta.indexes / constraints are opaque in the model
                if non_integer_fk(final, m):
                    continue      # the model types every foreign-key column as integer (DESIGN: modelled scope)
                real = fresh[m.table_name]
                mod = out['fresh'][m.table_name]
                rc = sorted([c, v[0], v[1], v[2]] for c, v in real['columns'].items())
                mc = sorted([c[0], c[1], c[2], c[3]] for c in mod['columns'])
                ri = sorted(json.dumps([i[0], i[1]]) for i in real['indexes'])
                mi = sorted(json.dumps(i) for i in mod['indexes'])
                ok = (rc == mc and ri == mi and real['checks'] == sorted(mod['checks']))
                ctx.corr_case('fresh_table', ok, case={'table': m.table_name}, model=mod,
                              impl={'columns': rc, 'indexes': ri, 'checks': real['checks']})
                mf = sorted(out['fresh_fks'][m.table_name])
                ctx.corr_case('fresh_foreign_keys', mf == sorted(real['fks']), case={'table': m.table_name},
                              model=mf, impl=real['fks'])
                # the `rebuilt` model against a table whose LAST statement group was a rebuild
                if 'schema' in step and m.table_name in step['rebuilt'] and m.table_name in step['schema'] and \
                        step['rebuilt'][m.table_name] >= step['trace_len'] - 6:
                    ev = step['schema'][m.table_name]
                    mr = out['rebuilt'][m.table_name]
                    ec = sorted([c, v[0], v[1], v[2]] for c, v in ev['columns'].items())
                    ok2 = (ec == sorted([c[0], c[1], c[2], c[3]] for c in mr['columns']) and
                           ev['checks'] == sorted(mr['checks']))
                    ctx.corr_case('rebuilt_table(columns,checks)', ok2, case={'table': m.table_name}, model=mr,
                                  impl={'columns': ec, 'checks': ev['checks']})
                    mrf = sorted(out['rebuilt_fks'][m.table_name])
                    ctx.corr_case('rebuilt_foreign_keys', mrf == sorted(ev['fks']), case={'table': m.table_name},
                                  model=mrf, impl=ev['fks'])
    for key, ((fid, text), rep) in sorted(found.items(), key=lambda kv: str(kv[0])):
        ctx.fail(fid, text, rep)


def replay(ctx, obj):
    evorig.setup()
    r = obj.get('replay', obj)
    if isinstance(r, dict) and r.get('scenario', '').startswith('cross-app rename'):
        # the probe is deterministic: run it again and report what it finds
        class _C(object):
            failures = []
            def count(self, *a, **k): pass
            def case(self, *a, **k): pass
            def fail(self, finding, what, rep): self.failures.append(what)
        c = _C()
        cross_app_rename_probe(c)
        for w in c.failures:
            print(w[:400])
        return 1 if c.failures else 0
    final = sigs.real_simulate(dbrig.sig_from_models(dbrig.build_models(r['spec'])), 'vapp',
                               [sigs.real_mutation(m) for m in r['mutations']])
    fresh = dbrig.fresh_schema(final[1])
    res = run_mode(r['spec'], r['mutations'], r.get('mode', 'stepwise') == 'stepwise')
    if 'error' in res:
        print('execution fails:', repr(res['error'])[:300])
        return 1
    d = dbrig.schema_diff(res['schema'], fresh)
    print('\n'.join(d) or 'evolved schema equals fresh schema')
    return 1 if d else 0
