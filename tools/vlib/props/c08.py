"""C08 — each evolution is applied and recorded exactly once.

Lean: DEvo/Run/History.lean, DEvo/Props/C08.lean (bookkeeping invariant over arbitrary series
of runs and commands).
Tie: differential correspondence of the recorded (app, label, version) rows and of the executed
labels after every step of generated histories (fresh installs, upgrades, no-op re-runs, runs
limited to selected apps, apps gaining evolutions, shared labels across apps, failed runs,
mark-evolution-applied / wipe-evolution) with the Lean bookkeeping model, plus the property
oracle on the real rows and signals.
"""
import io

from .. import dbrig, evorig, sigs

F_MARK = 'F40'

BASE = {
    'vapp': {'name': 'Alpha', 'table': 'vapp_alpha'},
    'wapp': {'name': 'Wal', 'table': 'wapp_wal'},
}


def model_spec(app, nfields):
    fields = [{'name': 'id', 'type': 'AutoField', 'attrs': {'primary_key': True}, 'related': None},
              {'name': 'base', 'type': 'IntegerField', 'attrs': {'null': True}, 'related': None}]
    for i in range(nfields):
        fields.append({'name': 'f%d' % (i + 1), 'type': 'IntegerField', 'attrs': {'null': True}, 'related': None})
    return {'name': BASE[app]['name'], 'table': BASE[app]['table'], 'fields': fields, 'unique_together': [],
            'index_together': [], 'indexes': [], 'constraints': []}


def evo(app, i, label):
    return {'label': label, 'mutations': [sigs.real_mutation(
        {'t': 'AddField', 'model': BASE[app]['name'], 'field': 'f%d' % i, 'ftype': 'IntegerField',
         'initial': None, 'attrs': [['null', 'true']]})]}


class World(object):
    """the project as it evolves: per app, how many evolutions exist (each adds one field)"""

    def __init__(self, shared_labels):
        self.n = {}           # app -> number of evolutions defined (= fields added by the models)
        self.shared = shared_labels
        self.retired = set()  # apps that stay installed but removed all their models (last evolution: DeleteApplication)

    def label(self, app, i):
        return ('e%d' % i) if self.shared else ('%s_e%d' % (app[0], i))

    def sequence(self, app):
        return [self.label(app, i) for i in range(1, self.n[app] + 1)] + \
            (['%s_retire' % app[0]] if app in self.retired else [])

    def install(self):
        spec = {'apps': [{'id': a, 'models': [] if a in self.retired else [model_spec(a, self.n[a])]}
                         for a in sorted(self.n)]}
        evorig.install_models(spec)
        for a in evorig.APPS:
            if a in self.n:
                evs = [evo(a, i, self.label(a, i)) for i in range(1, self.n[a] + 1)]
                if a in self.retired:
                    evs.append({'label': '%s_retire' % a[0],
                                'mutations': [sigs.real_mutation({'t': 'DeleteApplication'})]})
                evorig.set_evolutions(a, evs)
            else:
                evorig.set_evolutions(a, [])


def observe():
    bk = evorig.bookkeeping()
    return sorted([e[0], e[1], e[2]] for e in bk['evolutions'] if e[0] in BASE), bk['versions']


def run_step(world, apps, fail):
    """one Evolver run over `apps` (None = all installed apps)"""
    from django_evolution.evolve import Evolver
    evorig._hygiene()
    tr = evorig.Trace(fail_at=0 if fail else None,
                      fail_filter=lambda sql: 'vapp_' in sql or 'wapp_' in sql)
    executed = []
    with tr.recording():
        try:
            ev = Evolver()
            if apps is None:
                ev.queue_evolve_all_apps()
            else:
                from django_evolution.compat.apps import get_app as _ga
                for a in apps:
                    ev.queue_evolve_app(_ga(a))
            ev.evolve()
            ok = True
        except Exception as e:
            ok = False
    for name, info in tr.signals():
        if name == 'applying_evolution' and info.get('app') in BASE:
            executed += [[info['app'], l] for l in info['evolutions']]
    return ok, executed, tr


def scripted_histories():
    """deterministic histories run before the generated ones: two apps that share labels, one gaining a
    label in a later run than the run in which the other recorded the same label"""
    out = []
    for n0, steps in (
            ({'vapp': 2, 'wapp': 0}, ['grow:wapp', 'run', 'grow:wapp', 'run', 'noop']),
            ({'vapp': 1, 'wapp': 1}, ['grow:vapp', 'run', 'grow:wapp', 'run', 'noop']),
            ({'vapp': 2}, ['newapp:0', 'run', 'grow:wapp', 'grow:wapp', 'run', 'grow:wapp', 'subset:wapp', 'noop']),
            ({'vapp': 0, 'wapp': 2}, ['grow:vapp', 'subset:vapp', 'grow:vapp', 'fail', 'run']),
            # an app that retires itself (DeleteApplication in its own sequence, no models left, still installed)
            ({'vapp': 1, 'wapp': 2}, ['retire:wapp', 'run', 'noop', 'grow:vapp', 'run', 'noop']),
            # a recorded label in the middle / at the start of the sequence is wiped: only that one is unapplied again
            ({'vapp': 3}, ['wipe:vapp.e1', 'run', 'noop', 'wipe:vapp.e2', 'run']),
            # the operator marks everything as applied while part of the sequence already is
            ({'vapp': 2}, ['grow:vapp', 'markall:vapp', 'run', 'noop'])):
        w = World(True)
        w.n.update(n0)
        out.append((w, steps))
    return out


def gen_history(rng):
    shared = rng.random() < 0.4
    w = World(shared)
    steps = []
    w.n['vapp'] = rng.randint(0, 2)
    if rng.random() < 0.6:
        w.n['wapp'] = rng.randint(0, 2)
    for _ in range(rng.randint(2, 6)):
        k = rng.choice(['run', 'run', 'run', 'grow', 'grow', 'newapp', 'subset', 'fail', 'noop', 'mark', 'wipe', 'markall'])
        steps.append(k)
    return w, steps


def run(ctx):
    evorig.setup(custom_label_app=True)
    quick = ctx.tier == 'quick'
    ctx.rule = ('histories of 3-7 steps over one or two apps (optionally sharing evolution labels): full runs, runs '
                'limited to one app, runs after an app gained evolutions or appeared, failed runs (fault at the first '
                'statement), no-op re-runs, mark-evolution-applied, wipe-evolution; non-trivial = at least two runs')
    n = 60 if quick else 800
    mark_witness = None
    scripted = scripted_histories()
    for h in range(n):
        if ctx.time_left() < 20:
            break
        w, kinds = scripted.pop(0) if scripted else gen_history(ctx.rng)
        evorig.fresh_databases()
        evorig.clear_evolutions()
        evorig.install_models({'apps': []})
        evorig.run_evolver()                      # baseline: the package's own tables, one Version row
        _, versions0 = observe()
        model_steps = []
        real_obs = []
        log = []
        known = set()
        nruns = 0
        marked_unknown = False
        wiped = False
        for k in ['run'] + kinds:
            apps_now = sorted(w.n)
            k, _, arg = k.partition(':')
            if k == 'grow':
                a = arg or ctx.rng.choice(apps_now)
                w.n[a] += 1
                continue
            if k == 'retire':
                if arg in w.n and w.n[arg] >= 0:
                    w.retired.add(arg)
                continue
            if k == 'newapp':
                if 'wapp' not in w.n:
                    w.n['wapp'] = int(arg) if arg else ctx.rng.randint(0, 2)
                continue
            w.install()
            cfg = [{'label': a, 'sequence': w.sequence(a)} for a in apps_now]
            if k in ('run', 'noop', 'subset', 'fail'):
                sel = None
                if k == 'subset' and len(apps_now) > 1:
                    sel = [arg or ctx.rng.choice(apps_now)]
                fail = (k == 'fail')
                before, _ = observe()
                ok, executed, tr = run_step(w, sel, fail)
                nruns += 1
                sel_cfg = [c for c in cfg if sel is None or c['label'] in sel]
                if fail and ok:
                    fail = False       # nothing to execute, so nothing could fail
                model_steps.append({'t': 'run', 'apps': sel_cfg, 'completes': ok})
                after, _ = observe()
                real_obs.append({'recorded': after, 'executed': sorted(executed)})
                log.append({'step': k, 'apps': sel or 'all', 'ok': ok, 'executed': executed})
                # ---- oracle ------------------------------------------------------------------
                rep = {'history': log, 'sequences': {a: w.sequence(a) for a in apps_now}}
                keys = [(r[0], r[1]) for r in after]
                if len(keys) != len(set(keys)):
                    if marked_unknown:
                        mark_witness = mark_witness or dict(rep, recorded=after)
                    else:
                        ctx.fail(None, 'an evolution label is recorded twice: %r' % sorted(
                            k2 for k2 in set(keys) if keys.count(k2) > 1), dict(rep, recorded=after))
                bkeys = set((r[0], r[1]) for r in before)
                for e in executed:
                    if tuple(e) in bkeys:
                        ctx.fail(None, 'an already recorded evolution was executed again: %r' % (e,), rep)
                    if e[0] not in known:
                        ctx.fail(None, 'an app installed fresh had an evolution executed: %r' % (e,), rep)
                if len(executed) != len(set(map(tuple, executed))):
                    ctx.fail(None, 'an evolution was executed twice in one run', rep)
                if not ok and after != before:
                    ctx.fail(None, 'a failed run changed the recorded evolutions', rep)
                if ok:
                    # a completed run leaves every label of every evolved app recorded exactly once
                    for c in sel_cfg:
                        for lab in c['sequence']:
                            cnt = keys.count((c['label'], lab))
                            if cnt == 0 or (cnt > 1 and not marked_unknown):
                                ctx.fail(None, 'after a completed run %s.%s is recorded %d time(s)' % (c['label'], lab, cnt),
                                         dict(rep, recorded=after))
                if ok:
                    known.update(c['label'] for c in sel_cfg)
            elif k == 'mark':
                a = ctx.rng.choice(apps_now)
                seq = w.sequence(a)
                if not seq:
                    continue
                lab = ctx.rng.choice(seq)
                from django.core.management import call_command
                from django.core.management.base import CommandError
                try:
                    call_command('mark-evolution-applied', lab, app_label=a, interactive=False, stdout=io.StringIO())
                    if a not in known:
                        marked_unknown = True
                except CommandError:
                    pass
                model_steps.append({'t': 'mark', 'app': a, 'labels': [lab]})
                after, _ = observe()
                real_obs.append({'recorded': after, 'executed': []})
                log.append({'step': 'mark', 'app': a, 'label': lab})
            elif k == 'markall':
                # mark-evolution-applied --all: every label of the app's sequence at once
                a = arg or ctx.rng.choice(apps_now)
                seq = w.sequence(a)
                if not seq:
                    continue
                from django.core.management import call_command
                from django.core.management.base import CommandError
                try:
                    call_command('mark-evolution-applied', app_label=a, apply_all=True, interactive=False,
                                 stdout=io.StringIO())
                    if a not in known:
                        marked_unknown = True
                except CommandError:
                    pass
                model_steps.append({'t': 'mark', 'app': a, 'labels': list(seq)})
                after, _ = observe()
                real_obs.append({'recorded': after, 'executed': []})
                log.append({'step': 'mark', 'app': a, 'label': '--all'})
                keys = [(r[0], r[1]) for r in after]
                if len(keys) != len(set(keys)) and not marked_unknown:
                    ctx.fail(None, 'mark-evolution-applied --all recorded a label a second time: %r' % sorted(
                        k2 for k2 in set(keys) if keys.count(k2) > 1), {'history': log, 'recorded': after})
            elif k == 'wipe':
                cur, _ = observe()
                if not cur:
                    continue
                r = ctx.rng.choice(cur)
                if arg:
                    want = arg.split('.')
                    named = [x for x in cur if x[0] == want[0] and x[1] == want[1]]
                    if not named:
                        continue
                    r = named[0]
                from django.core.management import call_command
                from django.core.management.base import CommandError
                try:
                    import contextlib
                    with contextlib.redirect_stdout(io.StringIO()):
                        call_command('wipe-evolution', r[1], app_label=r[0], interactive=False)
                except CommandError:
                    pass
                wiped = True
                model_steps.append({'t': 'wipe', 'app': r[0], 'label': r[1]})
                after, _ = observe()
                real_obs.append({'recorded': after, 'executed': []})
                log.append({'step': 'wipe', 'app': r[0], 'label': r[1]})
                # forgetting one record forgets that record: every other evolution that was applied stays recorded
                lost = [x for x in cur if x not in after and not (x[0] == r[0] and x[1] == r[1])]
                if lost:
                    ctx.fail(None, 'wipe-evolution --app-label %s %s also removed the records %r: those evolutions were '
                             'applied and are no longer recorded (the next run takes them for unapplied)'
                             % (r[0], r[1], [x[:2] for x in lost]), {'history': log, 'before': cur, 'after': after})
        ctx.case({'history': log}, nontrivial=nruns >= 2, sample_cap=5)
        for entry in log:
            ctx.count('step:' + entry['step'])
        if ctx.driver:
            out = ctx.driver.ask([{'op': 'history', 'steps': model_steps, 'known': [], 'versions': versions0}])[0]
            for i, (m, r) in enumerate(zip(out['steps'], real_obs)):
                mrec = sorted(m['recorded'])
                # the model's `executed` is "what the task plans to apply"; the real task emits SQL
                # (and the signal) only when the signature still differs, which after a
                # wipe/mark of an already applied label it does not — so: subset in general,
                # equality while no wipe/mark command has interfered
                tampered = any(x['step'] in ('wipe', 'mark') for x in log[:i + 1])
                mex = sorted(m['executed'])
                ok = (mrec == r['recorded'] and all(e in mex for e in r['executed']) and
                      (tampered or not log[i].get('ok', True) or mex == r['executed']))
                ctx.corr_case('bookkeeping', ok, case={'history': log[:i + 1]}, model={'recorded': mrec, 'executed': m['executed']},
                              impl=r)
    purge_preview_probe(ctx)
    purge_fails_probe(ctx)
    purge_with_upgrade_probe(ctx)
    custom_label_probe(ctx)
    other_database_probe(ctx)
    split_batches_probe(ctx)
    # ---- fixed witness of the Lean counterexample C08_cex_mark_then_install ---------------------
    evorig.fresh_databases()
    evorig.clear_evolutions()
    evorig.install_models({'apps': []})
    evorig.run_evolver()
    w = World(False)
    w.n['vapp'] = 2
    evorig.set_evolutions('vapp', [evo('vapp', i, w.label('vapp', i)) for i in (1, 2)])
    from django.core.management import call_command
    try:
        call_command('mark-evolution-applied', w.label('vapp', 1), app_label='vapp', interactive=False,
                     stdout=io.StringIO())
        w.install()
        run_step(w, None, False)
        rec, _ = observe()
        keys = [(r[0], r[1]) for r in rec]
        dup = len(keys) != len(set(keys))
        ctx.variant['mark_then_install_duplicates'] = dup
        if dup:
            mark_witness = mark_witness or {'history': ['mark-evolution-applied %s (vapp never evolved)' % w.label('vapp', 1),
                                                        'evolve (installs vapp)'], 'recorded': rec}
    except Exception as e:
        ctx.notes.append('mark-then-install witness could not be run: %r' % (e,))
    if mark_witness is not None:
        ctx.fail(F_MARK, 'mark-evolution-applied on an app that was never evolved, then installing it, records the '
                 'label twice', mark_witness)


def purge_preview_probe(ctx):
    """runs that do not complete leave the recorded evolutions alone - also those of an app that is no longer
    installed: a stale app (signature entry, table, recorded evolutions) is there, and a purge is only PREVIEWED
    (`evolve --purge` without --execute, Evolver.get_evolution_required/diff_evolutions with purge tasks queued)"""
    from django.db import connection
    from django_evolution.evolve import Evolver
    from django_evolution.models import Evolution, Version
    from django_evolution.signature import AppSignature, ModelSignature
    evorig.fresh_databases()
    evorig.clear_evolutions()
    w = World(False)
    w.n['vapp'] = 1
    w.install()
    run_step(w, None, False)
    v = Version.objects.current_version()
    s = v.signature
    a = AppSignature(app_id='yapp')
    a.add_model_sig(ModelSignature(model_name='Yo', table_name='yapp_yo'))
    s.add_app_sig(a)
    v.signature = s
    v.save()
    with connection.cursor() as cur:
        cur.execute('CREATE TABLE "yapp_yo" ("id" integer NOT NULL PRIMARY KEY AUTOINCREMENT)')
    Evolution.objects.bulk_create([Evolution(version=v, app_label='yapp', label='y1'),
                                   Evolution(version=v, app_label='yapp', label='y2')])
    rows = lambda: sorted(Evolution.objects.values_list('app_label', 'label', 'version_id'))
    before = rows()
    steps = []
    r = evorig.run_command(purge=True)                       # preview: no --execute
    steps.append('evolve --purge (no --execute): %s' % r[0])
    mid = rows()
    evorig._hygiene()
    ev = Evolver()
    ev.queue_evolve_all_apps()
    ev.queue_purge_old_apps()
    ev.get_evolution_required()
    ev.diff_evolutions()
    steps.append('Evolver with purge tasks queued: get_evolution_required(), diff_evolutions()')
    after = rows()
    ctx.count('purge_preview_probe')
    ctx.case({'history': steps}, nontrivial=True, sample_cap=1)
    if mid != before or after != before:
        ctx.fail(None, 'a purge that was only previewed changed the recorded evolutions: %s -> %s'
                 % (before, after if after != before else mid), {'history': steps, 'before': before, 'after': after})


def custom_label_probe(ctx):
    """an app whose label (AppConfig.label) is not its package name: its evolutions are recorded under the key they
    are looked up with, so a further run finds them applied"""
    from django.db import models
    from django_evolution.models import Evolution
    from django_evolution.mutations import AddField
    if 'lapp' not in evorig.EXTRA:
        return

    def fld(name, t, **attrs):
        return {'name': name, 'type': t, 'attrs': attrs, 'related': None}

    def spec(n):
        return {'apps': [{'id': 'lapp', 'models': [{
            'name': 'Thing', 'table': 'lapp_thing', 'unique_together': [], 'index_together': [], 'indexes': [],
            'constraints': [], 'fields': [fld('id', 'AutoField', primary_key=True)] +
            [fld('f%d' % i, 'IntegerField', null=True) for i in range(n)]}]}]}
    evos = lambda n: [{'label': 'l_e%d' % i, 'mutations': [AddField('Thing', 'f%d' % i, models.IntegerField, null=True)]}
                      for i in range(1, n)]
    evorig.fresh_databases()
    evorig.clear_evolutions()
    rows = lambda: sorted(Evolution.objects.filter(app_label__in=['lapp', 'lpkg']).values_list('app_label', 'label'))
    steps, problems = [], []
    for n, what in ((1, 'install'), (2, 'release 2'), (2, 'no-op'), (3, 'release 3'), (3, 'no-op')):
        evorig.install_models(spec(n))
        evorig.set_evolutions('lapp', evos(n))
        tr = evorig.Trace()
        r = evorig.run_evolver(trace=tr)
        applied = [info.get('evolution') for nm, info in tr.signals() if nm == 'applying_evolution' and info.get('app') in ('lapp', 'lpkg')]
        steps.append('%s: %s, executed %s, recorded %s' % (what, r[0], applied, rows()))
        want = [('lapp', 'l_e%d' % i) for i in range(1, n)]
        if r[0] != 'ok':
            problems.append('%s fails: %s' % (what, str(r[1])[:120]))
            break
        if rows() != want:
            problems.append('after %s the recorded evolutions of the app are %s, expected %s' % (what, rows(), want))
            break
        if what == 'no-op' and applied:
            problems.append('a further run executed %s again' % applied)
            break
    ctx.count('custom_label_probe')
    ctx.case({'history': steps}, nontrivial=True, sample_cap=1)
    for p_ in problems:
        ctx.fail(None, 'app with a custom label: ' + p_, {'history': steps})
    evorig.install_models({'apps': []})
    evorig.clear_evolutions()


def other_database_probe(ctx):
    """the same history on a second database (Evolver(database_name='other')) while the default database stays at
    the first release: what is recorded THERE decides what is applied there"""
    from django.db import models
    from django_evolution.models import Evolution
    from django_evolution.mutations import AddField

    def fld(name, t, **attrs):
        return {'name': name, 'type': t, 'attrs': attrs, 'related': None}

    def spec(n):
        return {'apps': [{'id': 'vapp', 'models': [{
            'name': 'Thing', 'table': 'vapp_thing', 'unique_together': [], 'index_together': [], 'indexes': [],
            'constraints': [], 'fields': [fld('id', 'AutoField', primary_key=True)] +
            [fld('f%d' % i, 'IntegerField', null=True) for i in range(n)]}]}]}
    evos = lambda n: [{'label': 'o_e%d' % i, 'mutations': [AddField('Thing', 'f%d' % i, models.IntegerField, null=True)]}
                      for i in range(1, n)]
    evorig.fresh_databases()
    evorig.clear_evolutions()
    evorig.install_models(spec(1))
    evorig.run_evolver()                        # the default database is installed once and then left alone
    rows = lambda: sorted(Evolution.objects.using('other').filter(app_label='vapp').values_list('label', flat=True))
    steps, problems = [], []
    for n, what in ((1, 'install'), (3, 'release 2'), (3, 'no-op'), (4, 'release 3'), (4, 'no-op')):
        evorig.install_models(spec(n))
        evorig.set_evolutions('vapp', evos(n))
        tr = evorig.Trace('other')
        r = evorig.run_evolver(alias='other', trace=tr)
        applied = [x for nm, info in tr.signals() if nm == 'applying_evolution' and info.get('app') == 'vapp'
                   for x in info.get('evolutions', [])]
        steps.append('%s on other: %s, executed %s, recorded %s' % (what, r[0], applied, rows()))
        want = ['o_e%d' % i for i in range(1, n)]
        if r[0] != 'ok':
            problems.append('%s on the second database fails: %s' % (what, str(r[1])[:120]))
            break
        if rows() != want:
            problems.append('after %s the evolutions recorded on the second database are %s, expected %s' % (what, rows(), want))
            break
        if what == 'no-op' and applied:
            problems.append('a further run on the second database executed %s again' % applied)
            break
    ctx.count('other_database_probe')
    ctx.case({'history': steps}, nontrivial=True, sample_cap=1)
    for p_ in problems:
        ctx.fail(None, p_, {'history': steps})
    evorig.install_models({'apps': []})
    evorig.clear_evolutions()


def split_batches_probe(ctx):
    """an app's pending evolutions fall into two evolution batches with a migration of another app between them, and
    the later batch has no SQL for the app (tools/vlib/c08_worker.py, own process: the project has a migration-managed
    app): every evolution's SQL runs once, both labels are recorded once"""
    import json
    import os
    import subprocess
    import sys
    import tempfile
    here = os.path.dirname(os.path.dirname(os.path.abspath(__file__)))
    fd, out = tempfile.mkstemp(prefix='devo-c08-', suffix='.json')
    os.close(fd)
    try:
        p = subprocess.run([sys.executable, '-B', os.path.join(here, 'c08_worker.py'), out],
                           stdout=subprocess.PIPE, stderr=subprocess.STDOUT, timeout=max(60, ctx.time_left()))
        if p.returncode != 0:
            raise RuntimeError('C08 worker failed: %s' % p.stdout.decode()[-600:])
        r = json.load(open(out))
    finally:
        if os.path.exists(out):
            os.unlink(out)
    ctx.count('split_batches_probe:%s' % r['outcome'])
    rep = {'scenario': 'evolutions of one app in two batches around a migration of another app', 'observed': r}
    ctx.case({'scenario': rep['scenario'], 'order': r['order']}, nontrivial=True, sample_cap=1)
    if r['baseline'] != 'ok' or r['outcome'] != 'ok':
        ctx.fail(None, 'the upgrade whose evolutions are split around a migration fails: %s' % (r['error'] or r['baseline']), rep)
        return
    if r['update_statements'] != 1 or r['prices'] != [500]:
        ctx.fail(None, 'the SQL of one evolution ran %d times in one completed run (stored value %s, expected [500])'
                 % (r['update_statements'], r['prices']), rep)
    if r['recorded'] != ['bin_note', 'price_in_cents']:
        ctx.fail(None, 'recorded evolutions %s, expected each of the two labels once' % r['recorded'], rep)
    evs = [x for x in r['order'] if x[0] == 'applying_evolution' and x[1] == 'vapp']
    if len(evs) != 1:
        ctx.fail(None, 'applying_evolution was sent %d times for the app although one batch had SQL for it' % len(evs), rep)


def purge_with_upgrade_probe(ctx):
    """a run of two task classes that both succeed: an installed app has a new evolution to apply and a stale app is
    purged in the same run (`evolve --purge --execute` at a release that also drops an app).  The new label is
    recorded exactly once, attached to the version this run saved; the same run once more records nothing"""
    from collections import Counter
    from django.db import connection
    from django_evolution.models import Evolution, Version
    from django_evolution.signature import AppSignature, ModelSignature
    evorig.fresh_databases()
    evorig.clear_evolutions()
    w = World(False)
    w.n['vapp'] = 1
    w.install()
    run_step(w, None, False)
    with connection.cursor() as cur:
        cur.execute('CREATE TABLE "yapp_yo" ("id" integer NOT NULL PRIMARY KEY)')
    v = Version.objects.current_version()
    s = v.signature
    a = AppSignature(app_id='yapp')
    a.add_model_sig(ModelSignature(model_name='Yo', table_name='yapp_yo'))
    s.add_app_sig(a)
    v.signature = s
    v.save()
    w.n['vapp'] += 1
    w.install()
    rows = lambda: sorted(Evolution.objects.values_list('app_label', 'label', 'version_id'))
    before = rows()
    r = evorig.run_evolver(purge=True)
    after = rows()
    steps = ['install vapp', 'stale app yapp in the signature, with its table', 'vapp grows by one evolution',
             'Evolver: evolve all apps + purge old apps -> %s' % r[0]]
    ctx.count('purge_with_upgrade_probe:%s' % r[0])
    ctx.case({'history': steps}, nontrivial=True, sample_cap=1)
    rep = {'scenario': 'upgrade and purge in one run', 'history': steps, 'before': before, 'after': after}
    if r[0] != 'ok':
        ctx.fail(None, 'an upgrade that also purges a stale app fails: %s' % str(r[1])[:160], rep)
        return
    dup = [k for k, n in Counter((x[0], x[1]) for x in after).items() if n > 1]
    if dup:
        ctx.fail(None, 'after an upgrade that also purged a stale app these labels are recorded more than once: %s' % dup, rep)
    new = [x for x in after if x not in before]
    latest = Version.objects.order_by('-pk')[0].pk
    if len(new) != 1 or new[0][2] != latest:
        ctx.fail(None, 'an upgrade with one new evolution (and a purge) recorded %r; expected one row attached to '
                 'version %s' % (new, latest), rep)
    r2 = evorig.run_evolver(purge=True)
    if rows() != after:
        ctx.fail(None, 'the same run once more changed the recorded evolutions: %s -> %s' % (after, rows()), rep)


def purge_fails_probe(ctx):
    """a run of several task classes whose LAST class fails: an installed app has new evolutions to apply, and a
    stale app is purged in the same run, but its table is already gone, so the purge's DROP TABLE fails.  The run
    did not complete: nothing may be recorded by it (and a later complete run records the labels once)"""
    from django.db import connection
    from django_evolution.models import Evolution, Version
    from django_evolution.signature import AppSignature, ModelSignature
    evorig.fresh_databases()
    evorig.clear_evolutions()
    w = World(False)
    w.n['vapp'] = 1
    w.install()
    run_step(w, None, False)
    v = Version.objects.current_version()
    s = v.signature
    a = AppSignature(app_id='yapp')
    a.add_model_sig(ModelSignature(model_name='Yo', table_name='yapp_yo'))
    s.add_app_sig(a)
    v.signature = s
    v.save()                      # the signature lists yapp.Yo, the table was dropped by hand
    w.n['vapp'] += 1              # a new release of the installed app: one more evolution
    w.install()
    rows = lambda: sorted(Evolution.objects.values_list('app_label', 'label', 'version_id'))
    nver = lambda: Version.objects.count()
    before, vbefore = rows(), nver()
    r = evorig.run_evolver(purge=True)
    after, vafter = rows(), nver()
    steps = ['install vapp', 'stale app yapp in the signature (its table is gone)', 'vapp grows by one evolution',
             'Evolver: evolve all apps + purge old apps -> %s' % r[0]]
    ctx.count('purge_fails_probe:%s' % r[0])
    ctx.case({'history': steps}, nontrivial=True, sample_cap=1)
    rep = {'history': steps, 'before': before, 'after': after, 'versions': [vbefore, vafter]}
    if r[0] != 'ok' and (after != before or vafter != vbefore):
        ctx.fail(None, 'a run whose purge task failed recorded evolutions / saved a version although it did not '
                 'complete: %s -> %s' % (before, after), rep)


def replay(ctx, obj):
    print('histories are regenerated from the seed: VERIF_SEED=%s ./check C08' % obj.get('seed'))
    return 0
