"""C13 — hinted evolution text is loadable and means what the hint meant.

Lean: DEvo/Ser/Py.lean (`toPy` = serialize_to_python with the parentheses and the errors of the
code, `reparse` = Python's reading of the text, `evalPy` = Django's Q / expression operators),
DEvo/Props/C13.lean.
Tie: `QSerialization.child_separators` is extracted on every run; three correspondences per
generated value — render error kind, parse tree (the model's `reparse (toPy v)` against
`ast.parse` of the real text), evaluation result (the model's `evalPy` against a real `eval`).
Oracle on the real code: (A) value level: `eval(serialize_to_python(v))` equals `v`;
(B) mutation level: the module text of `EvolveAppTask.get_evolution_content()` for hinted
(Diff.evolution over the C05 pair space) and directly constructed mutations is `exec`-uted and
the loaded mutations are compared with the originals: hint text, simulated signature, SQL;
(C) a hint that needs a user value does not load.
"""
import json
import types
from collections import OrderedDict

from .. import dbrig, evorig, pyast, sigs, values
from . import c05

F_Q = 'F13'
F_COMB = 'F48'
F_NAME = 'F49'
F_QSHAPE = 'F50'
COMB = 'django.db.models.expressions.CombinedExpression'


def abs13(v):
    """values.abs_value with the dict-order rule of DictSerialization: plain dicts are written with
    sorted keys, OrderedDicts in insertion order"""
    a = values.abs_value(v)

    def fix(a, v):
        t = a['t']
        if t == 'dict':
            items = list(v.items())
            if not isinstance(v, OrderedDict):
                items.sort(key=lambda kv: kv[0])
            return {'t': 'dict', 'v': [[k, fix(values.abs_value(x), x)] for k, x in items]}
        if t in ('list', 'tuple'):
            return {'t': t, 'v': [fix(x, y) for x, y in zip(a['v'], v)]}
        if t == 'q':
            return dict(a, children=[fix(x, y) for x, y in zip(a['children'], v.children)])
        if t == 'obj':
            path, args, kwargs = v.deconstruct()
            return dict(a, args=[fix(x, y) for x, y in zip(a['args'], args)],
                        kwargs=[[k, fix(values.abs_value(kwargs[k]), kwargs[k])] for k in sorted(kwargs)])
        return a
    return fix(a, v)


def canon(a):
    """order-insensitive form for comparing evaluated values (dict order is not part of dict equality)"""
    t = a['t']
    if t == 'dict':
        return {'t': 'dict', 'v': sorted(([k, canon(x)] for k, x in a['v']), key=lambda kv: kv[0])}
    if t in ('list', 'tuple'):
        return {'t': t, 'v': [canon(x) for x in a['v']]}
    if t == 'q':
        return dict(a, children=[canon(x) for x in a['children']])
    if t == 'obj':
        return dict(a, args=[canon(x) for x in a['args']], kwargs=sorted(([k, canon(x)] for k, x in a['kwargs']),
                                                                         key=lambda kv: kv[0]))
    return a


# ---- structural predicates of the findings -------------------------------------------------

def _any(a, pred):
    return values.contains(a, pred)


def q_xor_multi(a):
    return _any(a, lambda x: x['t'] == 'q' and x['conn'] == 'XOR' and len(x['children']) >= 2)


def q_single_q_child(a):
    return _any(a, lambda x: x['t'] == 'q' and len(x['children']) == 1 and x['children'][0]['t'] == 'q')


def q_single_nondefault(a):
    return _any(a, lambda x: x['t'] == 'q' and len(x['children']) == 1 and x['conn'] is not None)


def q_noncanonical(a):
    """a non-negated Q child that Django's `&`/`|` would have merged into its parent (same
    connector, or a single child), or an empty Q as a child — of a Q with two or more children
    (those are written with operators)"""
    def bad(x):
        if x['t'] != 'q' or len(x['children']) < 2:
            return False
        for c in x['children']:
            if c['t'] == 'q' and (not c['children'] or
                                  (not c['neg'] and (len(c['children']) == 1 or (c['conn'] or 'AND') == (x['conn'] or 'AND')))):
                return True
        return False
    return _any(a, bad)


def comb_nested(a):
    return _any(a, lambda x: x['t'] == 'obj' and x['type'] == COMB and
                any(y['t'] == 'obj' and y['type'] == COMB for y in (x['args'][0], x['args'][2])))


def comb_odd_connector(a):
    return _any(a, lambda x: x['t'] == 'obj' and x['type'] == COMB and x['args'][1].get('v') not in ('+', '-', '*', '/'))


def unexported_name(a):
    """an object of a class outside django.db.models (written as a bare, never imported name)"""
    def bad(x):
        return x['t'] == 'obj' and x['type'] != COMB and not x['type'].startswith('django.db.models.')
    return _any(a, bad)


def mergeable(parent, c):
    """Django's `&`/`|`/`^` merge this child of `parent` into the parent (or drop it, when empty)"""
    return c['t'] == 'q' and (not c['children'] or (not c['neg'] and (
        len(c['children']) == 1 or (c['conn'] or 'AND') == (parent['conn'] or 'AND'))))


def differing(a, b):
    """smallest subtrees of `a` (the original) that differ from the corresponding part of `b`; for a Q
    whose children differ in number or kind the Q itself is the unit (its operators did that)"""
    if a == b:
        return []
    if a['t'] != b['t']:
        return [a]
    t = a['t']
    if t in ('list', 'tuple'):
        if len(a['v']) != len(b['v']):
            return [a]
        return [d for x, y in zip(a['v'], b['v']) for d in differing(x, y)]
    if t == 'dict':
        if [k for k, _ in a['v']] != [k for k, _ in b['v']]:
            return [a]
        return [d for (_, x), (_, y) in zip(a['v'], b['v']) for d in differing(x, y)]
    if t == 'q':
        if a['conn'] != b['conn'] or a['neg'] != b['neg'] or len(a['children']) != len(b['children']) or \
                any(x['t'] != y['t'] for x, y in zip(a['children'], b['children'])):
            return [a]
        if len(a['children']) >= 2 and any(x != y and mergeable(a, x) for x, y in zip(a['children'], b['children'])):
            return [a]          # the parent's operator merged this child: the parent is the unit
        return [d for x, y in zip(a['children'], b['children']) for d in differing(x, y)]
    if t == 'obj':
        if a['type'] != b['type'] or len(a['args']) != len(b['args']) or \
                [k for k, _ in a['kwargs']] != [k for k, _ in b['kwargs']]:
            return [a]
        if a['type'] == COMB and any(x['t'] == 'obj' and x['type'] == COMB for x in (a['args'][0], a['args'][2])) and \
                any(differing(x, y) for x, y in zip(a['args'], b['args'])):
            return [a]          # regrouping changes both levels at once
        return [d for x, y in zip(a['args'], b['args']) for d in differing(x, y)] + \
            [d for (_, x), (_, y) in zip(a['kwargs'], b['kwargs']) for d in differing(x, y)]
    return [a]


def node_finding(n):
    """which finding explains that THIS node does not come back as it was (None: none does)"""
    if n['t'] == 'q':
        kids = n['children']
        if len(kids) >= 2 and any(mergeable(n, c) for c in kids):
            return F_QSHAPE
        if len(kids) == 1 and n['conn'] is not None:
            return F_Q
    if n['t'] == 'obj' and n['type'] == COMB:
        if any(x['t'] == 'obj' and x['type'] == COMB for x in (n['args'][0], n['args'][2])) or \
                n['args'][1].get('v') not in ('+', '-', '*', '/'):
            return F_COMB
    return None


def classify_value(a, real=None):
    """finding ids that explain the observed failure, [] when something is left unexplained"""
    if real is not None and 'back' in real:
        subs = differing(canon(a), canon(real['back']))
        kinds = [node_finding(n) for n in subs]
        return [] if (not kinds or None in kinds) else sorted(set(kinds))
    if real is not None and 'render_error' in real:
        if (real['render_error'] == 'KeyError' and q_xor_multi(a)) or \
                (real['render_error'] == 'TypeError' and q_single_q_child(a)):
            return [F_Q]
        return []
    if real is not None and 'load_error' in real:
        if real['load_error'] == 'NameError' and unexported_name(a):
            return [F_NAME]
        if real['load_error'] in ('SyntaxError', 'NotImplementedError', 'TypeError') and comb_odd_connector(a):
            return [F_COMB]
        return []
    out = []
    if q_xor_multi(a) or q_single_q_child(a) or q_single_nondefault(a):
        out.append(F_Q)
    if comb_nested(a) or comb_odd_connector(a):
        out.append(F_COMB)
    if unexported_name(a):
        out.append(F_NAME)
    if q_noncanonical(a):
        out.append(F_QSHAPE)
    return out


def real_roundtrip(v):
    from django.db import models
    from django_evolution.serialization import serialize_to_python
    try:
        text = serialize_to_python(v)
    except Exception as e:
        return {'render_error': type(e).__name__}
    out = {'text': text, 'tree': pyast.parse(text)}
    try:
        back = eval(text, {'models': models})
    except SyntaxError:
        out['load_error'] = 'SyntaxError'
        return out
    except Exception as e:
        out['load_error'] = type(e).__name__
        return out
    try:
        out['back'] = abs13(back)
    except TypeError:
        out['load_error'] = 'unmodelled-value'
    return out


def gen_c13_value(rng):
    r = rng.random()
    if r < 0.3:
        return values.gen_q_ops(rng)
    if r < 0.4:
        return values.gen_expr_wide(rng)
    if r < 0.5:
        from django.db.models import Q
        inner = values.gen_q_ops(rng)
        return rng.choice([Q(inner), ~Q(inner), Q(inner, _connector='OR'), Q(a=1, _connector='OR'),
                           Q(Q(a=1), Q(b=2)), Q(Q(a=1) | Q(b=2), Q(c=3) | Q(d=4), _connector='OR')])
    return values.gen_value(rng)


def deep_path_values():
    """objects whose classes live two packages below django.db.models and are exported by none of the packages above
    (models.fields.json.KeyTextTransform): the written path has to be the whole path"""
    from django.db.models import F
    from django.db.models.fields.json import KeyTextTransform, KeyTransform
    from django.db.models.functions import Lower
    return [KeyTextTransform('k', 'data'), KeyTransform('k', 'data'), Lower(KeyTextTransform('k', 'data')),
            [F('a') + 1, KeyTextTransform('name', 'extra')]]


def value_level(ctx, n):
    pyr = ctx.variant.get('py_rendering', {})
    cfg = {'separators': [list(p) for p in ctx.variant.get('q_separators', [])],
           'single_child_full': bool(pyr.get('q_single_child_full')),
           'comb_operators': [list(p) for p in pyr.get('comb_operators', [])],
           'comb_methods': [list(p) for p in pyr.get('comb_methods', [])],
           'comb_parens': bool(pyr.get('comb_parens')), 'keep_submodules': bool(pyr.get('keep_submodules'))}
    pyast.KEEP_SUBMODULES = cfg['keep_submodules']
    vals = [gen_c13_value(ctx.rng) for _ in range(n)]
    # corner cases first
    from django.db.models import F, Q, Value
    vals = [Q(), ~Q(), Q(a=1), ~Q(a=1), Q(a=1) | Q(b=2), ~(Q(a=1) & Q(b=2)), (Q(a=1) | Q(b=2)) & Q(c=3),
            Q(a=1) & (Q(b=2) | ~Q(c=3)), F('a') + 1, (F('a') + F('b')) * F('c'), F('a') + F('b') * F('c'),
            F('a') - (F('b') - F('c')), (F('a') - F('b')) - F('c'), Value("it's"), [Q(a="q\"uote") | Q(b='back\\slash')],
            {'k': (1, 'x'), 'a': [None, True]}, OrderedDict([('z', 1), ('a', Q(x=1))])] + deep_path_values() + vals
    absd = [abs13(v) for v in vals]
    reqs = [dict(cfg, op='py_roundtrip', value=a) for a in absd]
    outs = ctx.driver.ask(reqs) if ctx.driver else [None] * len(vals)
    wit = {}
    for v, a, m in zip(vals, absd, outs):
        real = real_roundtrip(v)
        kinds = classify_value(a, real)
        ok_rt = 'back' in real and canon(real['back']) == canon(a)
        ctx.case({'value': a}, nontrivial=values.has_object(a), sample_cap=6)
        ctx.count('value:%s' % ('round-trips' if ok_rt else 'render error' if 'render_error' in real else
                                'load error' if 'load_error' in real else 'differs'))
        ctx.count('top:%s' % a['t'])
        agree = None
        if m is not None:
            # 0. the hypothesis class of C13_roundtrip: every value the model calls Good round-trips for real
            ctx.count('Good (theorem applies)' if m.get('good') else 'outside Good')
            if m.get('good'):
                ctx.corr_case('Good_implies_real_roundtrip', ok_rt, case={'value': a}, model='Good',
                              impl={k: real[k] for k in real if k != 'tree'})
            # 1. render error kind
            m_err = m['render'].get('err')
            agree = (m_err == real.get('render_error'))
            ctx.corr_case('render_error_kind', agree, case={'value': a}, model=m_err, impl=real.get('render_error'))
            if agree and m_err is None:
                # 2. how Python reads the text
                mt = None if not m['syntax_ok'] else pyast.as_text_names(m['parsed'])
                ok_tree = (mt == real['tree'])
                ctx.corr_case('parse_tree', ok_tree, case={'value': a, 'text': real['text']}, model=mt, impl=real['tree'])
                # 3. what evaluating it builds
                mres = m['result']
                if 'err' in mres:
                    ok_eval = (mres['err'] == real.get('load_error'))
                else:
                    ok_eval = 'back' in real and canon(mres['value']) == canon(real['back'])
                ctx.corr_case('evaluation', ok_eval, case={'value': a, 'text': real['text']},
                              model=mres, impl=real.get('back', real.get('load_error')))
                agree = ok_tree and ok_eval
        if ok_rt:
            continue
        rep = {'kind': 'value', 'value': a, 'observed': {k: real[k] for k in real if k in ('render_error', 'text', 'load_error', 'back')}}
        what = ('serialize_to_python raises %s' % real['render_error'] if 'render_error' in real else
                'the rendered text %r does not load: %s' % (real['text'][:80], real['load_error']) if 'load_error' in real else
                'the rendered text %r evaluates to a different value' % (real['text'][:80],))
        if kinds and agree is not False:
            for fid in kinds[:1]:
                if fid not in wit or len(json.dumps(a)) < len(json.dumps(wit[fid][1]['value'])):
                    wit[fid] = (what, rep)
        else:
            ctx.fail(None, what, rep)
    return wit


# ---- mutation level -----------------------------------------------------------------------

def module_text(mutations):
    from django_evolution.evolve import EvolveAppTask
    stub = types.SimpleNamespace(_mutations=list(mutations), app=types.SimpleNamespace(__name__='vapp.models'))
    return EvolveAppTask.get_evolution_content(stub)


def load_module(text):
    ns = {'__name__': 'vapp.evolutions.loaded'}
    exec(compile(text, '<hinted evolution>', 'exec'), ns)
    return ns.get('MUTATIONS')


def simulate(old, muts):
    cur = old.clone()
    for mu in muts:
        mu.run_simulation(app_label='vapp', project_sig=cur, database_state=None, database='default')
    return cur


def sig_text(sig):
    return json.dumps(sig.serialize(), sort_keys=True, default=str)


def compare_loaded(ctx, old, muts, text, rep, spec=None, with_sql=False):
    """-> list of problems (strings)"""
    try:
        loaded = load_module(text)
    except SyntaxError as e:
        return ['syntax'], 'the evolution text is not valid Python: %s' % str(e)[:80]
    except Exception as e:
        return ['load'], 'loading the evolution text fails: %s: %s' % (type(e).__name__, str(e)[:80])
    if loaded is None or len(loaded) != len(muts):
        return ['count'], 'the loaded module defines %s mutations, the hint had %d' % (
            None if loaded is None else len(loaded), len(muts))
    h1 = [m.generate_hint() for m in muts]
    try:
        h2 = [m.generate_hint() for m in loaded]
    except Exception as e:
        return ['rehint'], 'the loaded mutations cannot be rendered again: %s' % type(e).__name__
    try:
        s1 = simulate(old, muts)
    except Exception:
        return [], None            # the hint itself is not simulable here: C05's business
    try:
        s2 = simulate(old, loaded)
    except Exception as e:
        return ['simulate'], 'the loaded mutations are rejected by the simulation: %s: %s' % (type(e).__name__, str(e)[:80])
    if sig_text(s1) != sig_text(s2):
        return ['signature'], 'the loaded mutations lead to a different signature than the hinted ones'
    for a, b in zip(muts, loaded):
        # what the constructor was given and the signature does not show: the initial value
        ia, ib = getattr(a, 'initial', None), getattr(b, 'initial', None)
        if not callable(ia) and not callable(ib) and (type(ia) is not type(ib) or ia != ib):
            return ['initial'], 'the loaded %s has initial=%r, the hinted one initial=%r' % (type(a).__name__, ib, ia)
    if h1 != h2:
        return ['text'], 'rendering the loaded mutations gives different text: %r vs %r' % (
            [a for a, b in zip(h1, h2) if a != b][0][:100], [b for a, b in zip(h1, h2) if a != b][0][:100])
    if with_sql and spec is not None:
        try:
            sql = []
            for ms in (muts, loaded):
                models = dbrig.build_models(spec)
                dbrig.reset_db('default')
                dbrig.create_tables(models, 'default')
                from django_evolution.mutators import AppMutator
                am = AppMutator(app_label='vapp', project_sig=old.clone(), database_state=dbrig.scan_state('default'),
                                database='default')
                am.run_mutations(list(ms))
                sql.append([str(s) for s in am.to_sql()])
            ctx.count('sql_compared')
            if sql[0] != sql[1]:
                return ['sql'], 'the loaded mutations generate different SQL'
        except Exception:
            ctx.count('sql_not_generated')      # C01's business
    return [], None


def direct_mutations(rng):
    """mutations whose attribute values come from the value space, plus the signature they apply to"""
    from django.db import models
    from django_evolution import mutations as M
    spec = {'apps': [{'id': 'vapp', 'models': [
        {'name': 'Alpha', 'table': 'vapp_alpha', 'unique_together': [], 'index_together': [], 'indexes': [],
         'constraints': [], 'fields': [
             {'name': 'id', 'type': 'AutoField', 'attrs': {'primary_key': True}, 'related': None},
             {'name': 'a', 'type': 'IntegerField', 'attrs': {}, 'related': None},
             {'name': 'b__gt', 'type': 'IntegerField', 'attrs': {'null': True}, 'related': None},
             {'name': 'name', 'type': 'CharField', 'attrs': {'max_length': 20}, 'related': None},
             {'name': 'owner', 'type': 'ForeignKey', 'attrs': {'null': True}, 'related': 'vapp.Alpha'}]}]}]}
    old = sigs.sig_from_spec(spec)
    k = rng.choice(['check', 'check', 'index_cond', 'index_expr', 'unique', 'add_str', 'change_str', 'together', 'together',
                    'rename_field', 'rename_field', 'rename_model', 'change_plain', 'add_plain', 'add_custom', 'add_custom',
                    'add_null_initial'])
    q = values.gen_q_ops(rng) if rng.random() < 0.7 else values.gen_q(rng)
    if k == 'check':
        mu = M.ChangeMeta('Alpha', 'constraints', [{'type': models.CheckConstraint, 'name': 'chk_%d' % rng.randint(1, 9),
                                                    'check': q}])
        v = q
    elif k == 'index_cond':
        mu = M.ChangeMeta('Alpha', 'indexes', [{'name': 'ix_c', 'fields': ['a', '-name'], 'condition': q}])
        v = q
    elif k == 'index_expr':
        e = values.gen_expr_wide(rng)
        mu = M.ChangeMeta('Alpha', 'indexes', [{'name': 'ix_e', 'expressions': [e]}])
        v = e
    elif k == 'unique':
        from django.db.models import Deferrable
        d = rng.choice([Deferrable.DEFERRED, Deferrable.IMMEDIATE])
        mu = M.ChangeMeta('Alpha', 'constraints', [{'type': models.UniqueConstraint, 'name': 'uq_1', 'fields': ('a', 'name'),
                                                    'deferrable': d}])
        v = d
    elif k == 'add_str':
        s = rng.choice(values.STRS)
        mu = M.AddField('Alpha', 'extra', models.CharField, initial=s, max_length=30, db_column=rng.choice([None, 'x"y', "e'x"]))
        v = s
    elif k == 'change_str':
        mu = M.ChangeField('Alpha', 'name', initial=rng.choice(values.STRS), max_length=rng.choice([5, 50]), null=False)
        v = None
    elif k == 'rename_field':
        # names, columns and tables that coincide with what Django would derive by itself are parameters like
        # any other: they must survive being written out
        f = rng.choice(['a', 'name', 'owner'])
        new = rng.choice(['cost', 'keeper'])
        mu = M.RenameField('Alpha', f, new, db_column=rng.choice([None, new, new, f, new + '_id', f + '_id', 'col_x']))
        v = None
    elif k == 'rename_model':
        mu = M.RenameModel('Alpha', 'Beta', db_table=rng.choice(['vapp_alpha', 'vapp_beta', 'beta', 't"x']))
        v = None
    elif k == 'change_plain':
        attrs = {}
        for a, vals in (('db_column', [None, 'name', 'n_x']), ('db_index', [True, False]), ('unique', [True, False]),
                        ('null', [True]), ('max_length', [20, 0, None])):
            if rng.random() < 0.5:
                attrs[a] = rng.choice(vals)
        mu = M.ChangeField('Alpha', rng.choice(['name', 'owner']) if 'max_length' not in attrs else 'name',
                           **(attrs or {'db_index': True}))
        v = None
    elif k == 'add_custom':
        # project-defined field classes, some of them named like a class Django exports
        from .. import customfields
        name = rng.choice(['ShortCodeField', 'CountField', 'JSONField', 'UUIDField', 'JSONField'])
        cls = getattr(customfields, name)
        kw = {'max_length': 36} if issubclass(cls, models.CharField) else {}
        if rng.random() < 0.5:
            mu = M.AddField('Alpha', 'extra3', cls, null=True, **kw)
        else:
            mu = M.ChangeField('Alpha', 'name', field_type=cls, null=True, **kw)
        v = None
    elif k == 'add_null_initial':
        # a nullable column that still gets a value for the rows that exist (any value, falsy ones included)
        ft, init = rng.choice([(models.IntegerField, 7), (models.IntegerField, 0), (models.BooleanField, False),
                               (models.CharField, 'n/a'), (models.CharField, '')])
        kw = {'max_length': 20} if ft is models.CharField else {}
        mu = M.AddField('Alpha', 'extra4', ft, initial=init, null=True, **kw)
        v = None
    elif k == 'add_plain':
        mu = M.AddField('Alpha', 'extra2', models.IntegerField, null=True, db_index=rng.choice([True, False]),
                        db_column=rng.choice([None, 'extra2', 'x2']), unique=rng.choice([True, False]))
        v = None
    else:
        # one or several entries, in an order that is not the sorted one: the order is part of the value
        mu = M.ChangeMeta('Alpha', rng.choice(['unique_together', 'index_together']),
                          rng.choice([[('a', 'name')], [('name', 'a'), ('a', 'b__gt')], [('name', 'b__gt'), ('b__gt', 'a')],
                                      [('b__gt', 'name'), ('a', 'name'), ('name', 'a')]]))
        v = None
    return spec, old, [mu], v


def blank_field_probe(ctx):
    """hints for NOT NULL columns without a default whose fields are declared blank=True: a text field can start out
    as the empty string, a number/date cannot - there the hint has to ask for the value (the placeholder that refuses
    to load), whatever the form validation allows"""
    from django_evolution.diff import Diff
    def fld(name, t, **attrs):
        return {'name': name, 'type': t, 'attrs': attrs, 'related': None}

    def alpha(fields):
        return {'apps': [{'id': 'vapp', 'models': [
            {'name': 'Alpha', 'table': 'vapp_alpha', 'unique_together': [], 'index_together': [], 'indexes': [],
             'constraints': [], 'fields': [fld('id', 'AutoField', primary_key=True)] + fields}]}]}
    for ftype, extra, needs in (('IntegerField', {}, True), ('DateField', {}, True), ('BooleanField', {}, True),
                                ('DecimalField', {'max_digits': 6, 'decimal_places': 2}, True),
                                ('CharField', {'max_length': 10}, False)):
        old_spec = alpha([fld('a', 'IntegerField', null=True), fld('born', ftype, null=True, blank=True, **extra)])
        new_spec = alpha([fld('a', 'IntegerField', null=True), fld('born', ftype, blank=True, **extra),
                          fld('extra', ftype, blank=True, **extra)])
        old = dbrig.sig_from_models(dbrig.build_models(old_spec))
        evorig.install_models(new_spec)
        new = dbrig.sig_from_models(dbrig.build_models(new_spec))
        hint = Diff(old, new).evolution().get('vapp', [])
        text = module_text(hint)
        rep = {'scenario': 'blank=True NOT NULL %s added / made NOT NULL' % ftype, 'text': text}
        ctx.count('blank_field_probe')
        ctx.case({'scenario': 'blank fields', 'type': ftype, 'hint': [m.generate_hint() for m in hint]}, nontrivial=True,
                 sample_cap=2)
        if len(hint) != 2:
            ctx.fail(None, 'expected an AddField and a ChangeField in the hint, got %r' % [m.generate_hint() for m in hint], rep)
            continue
        if needs:
            try:
                load_module(text)
                ctx.fail(None, 'the hint for a NOT NULL %s without default neither supplies a value nor asks for one: it '
                         'loads without complaint' % ftype, rep)
            except SyntaxError:
                pass
            except Exception as e:
                ctx.fail(None, 'a hint that needs a user-supplied value fails with %s, not as an explicit placeholder'
                         % type(e).__name__, rep)
        else:
            tagsp, what = compare_loaded(ctx, old, hint, text, rep, spec=old_spec)
            if what:
                ctx.fail(None, 'hinted evolution (blank text fields): ' + what, rep)


def text_after_processing_probe(ctx):
    """the evolve task renders its text (`evolve --hint`, `--write`) AFTER it has run the mutations through the
    optimiser: the text is that of the mutations as they were handed in - same hints before and after, and the loaded
    text has the effect of the original list"""
    from django.db import models
    from django_evolution.mutations import AddField, ChangeField, RenameField
    from django_evolution.mutators import AppMutator
    spec = {'apps': [{'id': 'vapp', 'models': [
        {'name': 'Alpha', 'table': 'vapp_alpha', 'unique_together': [], 'index_together': [], 'indexes': [],
         'constraints': [], 'fields': [{'name': 'id', 'type': 'AutoField', 'attrs': {'primary_key': True}, 'related': None},
                                       {'name': 'a', 'type': 'IntegerField', 'attrs': {'null': True}, 'related': None}]}]}]}
    lists = [
        lambda: [AddField('Alpha', 'added', models.CharField, max_length=20, null=True),
                 ChangeField('Alpha', 'added', initial='abc', null=False, max_length=50)],
        lambda: [AddField('Alpha', 'first', models.IntegerField, null=True),
                 RenameField('Alpha', 'first', 'second', db_column='custom_col')],
        lambda: [ChangeField('Alpha', 'a', initial=None, db_index=True),
                 ChangeField('Alpha', 'a', initial=7, null=False)],
    ]
    for mk in lists:
        muts = mk()
        before = [m.generate_hint() for m in muts]
        old = dbrig.sig_from_models(dbrig.build_models(spec))
        rep = {'scenario': 'text rendered after the task processed its mutations', 'hints': before}
        ctx.count('text_after_processing')
        ctx.case({'scenario': rep['scenario'], 'hint': before}, nontrivial=True, sample_cap=3)
        want = simulate(old, mk())
        try:
            am = AppMutator(app_label='vapp', project_sig=old.clone(), database_state=dbrig.scan_state('default'),
                            database='default')
            am.run_mutations(muts)
        except Exception as e:
            ctx.count('text_after_processing:run_failed')
            rep['run_error'] = '%s: %s' % (type(e).__name__, str(e)[:120])
        after = [m.generate_hint() for m in muts]
        text = module_text(muts)
        rep['text'] = text
        if after != before:
            ctx.fail(None, 'after the task processed its mutations their text is no longer the text they were given with: '
                     '%r became %r' % ([b for b, a in zip(before, after) if a != b][:1], [a for b, a in zip(before, after) if a != b][:1]), rep)
            continue
        try:
            loaded = load_module(text)
            got = simulate(old, loaded)
        except Exception as e:
            ctx.fail(None, 'the text rendered after processing does not load/simulate: %s: %s' % (type(e).__name__, str(e)[:120]), rep)
            continue
        if sig_text(got) != sig_text(want):
            ctx.fail(None, 'the text rendered after processing has another effect than the mutations handed in', rep)


def mutation_level(ctx, n_hint, n_direct, wit):
    evorig.setup()
    blank_field_probe(ctx)
    text_after_processing_probe(ctx)
    done = tries = 0
    while done < n_hint and tries < n_hint * 5 and ctx.time_left() > 30:
        tries += 1
        g = c05.gen_pair(ctx.rng)
        if g is None:
            continue
        spec, old, new, muts_json, tags = g
        from django_evolution.diff import Diff
        try:
            evorig.install_models({'apps': [a for a in dbrig.spec_from_sig(new)['apps'] if a['id'] == 'vapp']})
            hint = Diff(old, new).evolution().get('vapp', [])
        except Exception:
            continue      # the edited target cannot be expressed as Django models (C05's business)
        if not hint:
            continue
        done += 1
        text = module_text(hint)
        needs_value = 'USER VALUE REQUIRED' in text
        ctx.case({'hint': [m.generate_hint() for m in hint]}, nontrivial=True, sample_cap=4)
        ctx.count('module:hinted')
        rep = {'kind': 'hinted', 'spec': spec, 'mutations': muts_json, 'text': text}
        if needs_value:
            # (C) must refuse to load
            ctx.count('module:needs user value')
            try:
                load_module(text)
                ctx.fail(None, 'a hint that needs a user-supplied value loads without complaint', rep)
            except SyntaxError:
                pass
            except Exception as e:
                ctx.fail(None, 'a hint that needs a user-supplied value fails with %s, not as an explicit placeholder'
                         % type(e).__name__, rep)
            continue
        tagsp, what = compare_loaded(ctx, old, hint, text, rep, spec=spec, with_sql=(done % 4 == 0))
        if what:
            ctx.fail(None, 'hinted evolution: ' + what, rep)
    for i in range(n_direct):
        if ctx.time_left() < 25:
            break
        spec, old, muts, v = direct_mutations(ctx.rng)
        try:
            text = module_text(muts)
        except Exception as e:
            a = abs13(v) if v is not None else {'t': 'null'}
            kinds = classify_value(a, real_roundtrip(v)) if v is not None else []
            rep = {'kind': 'direct', 'value': a, 'error': type(e).__name__}
            if kinds:
                wit.setdefault(kinds[0], ('rendering the mutation raises %s' % type(e).__name__, rep))
            else:
                ctx.fail(None, 'rendering the mutation raises %s' % type(e).__name__, rep)
            continue
        ctx.case({'hint': [m.generate_hint() for m in muts]}, nontrivial=True, sample_cap=4)
        ctx.count('module:direct')
        a = abs13(v) if v is not None else {'t': 'null'}
        rep = {'kind': 'direct', 'text': text, 'value': a}
        tagsp, what = compare_loaded(ctx, old, muts, text, rep)
        if what:
            # explained only by what the embedded value itself does at the value level
            kinds = classify_value(a, real_roundtrip(v)) if v is not None else []
            real = real_roundtrip(v) if v is not None else {}
            if 'back' in real and canon(real['back']) == canon(a):
                kinds = []
            if kinds:
                wit.setdefault(kinds[0], ('mutation level: ' + what, rep))
            else:
                ctx.fail(None, 'constructed mutation: ' + what, rep)


WHAT = {
    F_Q: 'QSerialization.serialize_to_python: XOR has no separator (KeyError), a Q whose only child is a Q is subscripted '
         '(TypeError), a single-child Q loses a non-default connector',
    F_COMB: 'CombinedExpressionSerialization writes `lhs <connector> rhs` without parentheses and with Django\'s connector '
            'text as the operator',
    F_NAME: 'objects of classes outside django.db.models are rendered as a bare class name that nothing imports',
    F_QSHAPE: 'a Q whose children include a non-negated Q that `&`/`|` would merge is rendered with operators and comes '
              'back flattened',
}


def run(ctx):
    evorig.setup()
    quick = ctx.tier == 'quick'
    ctx.rule = ('(A) values: Q trees built with & | ^ ~ and with explicit children/connectors, F / Value / combined '
                'expressions (+ - * / % ** bit operators), database functions, Deferrable, strings with quotes, '
                'backslashes and unicode, lists/tuples/dicts/OrderedDicts nested to depth 3; (B) module text of '
                'get_evolution_content() for hints of the C05 pair space and for constructed ChangeMeta/AddField/'
                'ChangeField mutations carrying such values, exec()-uted and compared (hint text, simulated signature, '
                'SQL for a sample); non-trivial = contains an object (Q, expression, enum) or is a module')
    wit = value_level(ctx, 6000 if quick else 60000)
    mutation_level(ctx, 250 if quick else 2500, 500 if quick else 6000, wit)
    for fid, (what, rep) in sorted(wit.items()):
        ctx.fail(fid, WHAT[fid] + ' — ' + what, rep)


def replay(ctx, obj):
    evorig.setup()
    r = obj.get('replay', obj)
    print(json.dumps(r.get('observed') or r.get('text') or r)[:1200])
    return 1
