"""C16 — evolving one database only applies what is routed to that database.

Lean: DEvo/Props/C16.lean (decision logic of the router filter and of the changed-models filter).
Oracle on the real code: every split of 2-3 generated models over two SQLite databases by a
router, creation and evolutions touching models on both sides, each database evolved in turn;
table lists, schemas, rows and stored signatures of both databases before vs after; a failing
evolution on the non-default database must roll back there (regression probe for finding F10).
"""
import itertools
import random

from .. import dbrig, evocases, evorig, sigs
from .c11 import dangling


def stored_models(alias):
    bk = evorig.bookkeeping(alias)
    if bk['sig'] is None:
        return None
    a = bk['sig'].get_app_sig('vapp')
    return sorted(m.model_name for m in a.model_sigs) if a is not None else []


def user_tables(alias):
    return sorted(t for t in dbrig.abs_schema(alias) if t.startswith('vapp_'))


def shared_table_case():
    def fld(name, t, **attrs):
        return {'name': name, 'type': t, 'attrs': attrs, 'related': None}

    def mdl(name, table, fields):
        return {'name': name, 'table': table, 'unique_together': [], 'index_together': [], 'indexes': [],
                'constraints': [], 'fields': [fld('id', 'AutoField', primary_key=True)] + fields}
    spec = {'apps': [{'id': 'vapp', 'models': [
        mdl('Member', 'vapp_member', [fld('name', 'CharField', max_length=20, null=True)]),
        mdl('Archived', 'vapp_member', [fld('name', 'CharField', max_length=20, null=True)]),
        mdl('Book', 'vapp_book', [fld('pages', 'IntegerField', null=True)])]}]}
    add = lambda model, field: {'t': 'AddField', 'model': model, 'field': field, 'ftype': 'IntegerField',
                                'initial': None, 'attrs': [['null', 'true']]}
    muts = [add('Member', 'since'), add('Archived', 'until'), add('Book', 'year')]
    return spec, muts, [('default', 'other', 'other'), ('other', 'default', 'default'), ('default', 'other', 'default')]


def delete_side_case():
    """the evolution deletes the only model that one of the databases holds (next to changes of the others)"""
    spec, _, _ = shared_table_case()
    ms = spec['apps'][0]['models']
    ms[1] = dict(ms[1], name='LogEntry', table='vapp_logentry')
    add = lambda model, field: {'t': 'AddField', 'model': model, 'field': field, 'ftype': 'IntegerField',
                                'initial': None, 'attrs': [['null', 'true']]}
    muts = [add('Member', 'since'), {'t': 'DeleteModel', 'model': 'LogEntry'}, add('Book', 'year')]
    return spec, muts, [('default', 'other', 'default'), ('other', 'default', 'other'), ('default', 'other', 'other')]


def fk_enforced(alias):
    """does the process's connection to this database still enforce foreign keys?  (part of the state of "the other
    database" as this process sees it: with enforcement off it accepts rows that violate its constraints)"""
    from django.db import connections
    with connections[alias].cursor() as cur:
        cur.execute('PRAGMA foreign_keys')
        return cur.fetchone()[0]


def evolutions_of(muts, sql_for=None, marker_table=None):
    evs = [{'label': 'e1', 'mutations': [sigs.real_mutation(m) for m in muts]}]
    if sql_for:
        # the file leaves a mark that shows it was this file that ran, on this database
        # (a table of its own: an index on one of the app's tables would not survive a rebuild by the next evolution)
        sql = ['CREATE TABLE "e0_marker" ("id" integer NOT NULL PRIMARY KEY);'] if marker_table else ['SELECT 1;']
        evs.insert(0, {'label': 'e0', 'mutations': [], 'sql_files': {sql_for: sql}})
    return evs


def has_marker(alias):
    conn = dbrig.raw_connection(alias)
    try:
        cur = conn.cursor()
        cur.execute("SELECT count(*) FROM sqlite_master WHERE type='table' AND name='e0_marker'")
        return cur.fetchone()[0] > 0
    finally:
        conn.close()


def load_correspondence(ctx):
    """`get_app_mutations` next to the Lean `loadLoop`: what is loaded for a list of labels on each database, for apps
    that ship their evolutions as Python modules, generic SQL files and per-database SQL files in every mix"""
    from django_evolution.mutations import AddField, DeleteField, SQLMutation
    from django_evolution.compat.apps import get_app
    from django_evolution.utils.evolutions import get_app_mutations
    from django.db import models
    py1 = lambda: [AddField('Note', 'x', models.IntegerField, null=True)]
    py2 = lambda: [DeleteField('Note', 'title'), AddField('Note', 'y', models.IntegerField, null=True)]
    G, D, O = ['SELECT 1;'], ['SELECT 2;', 'SELECT 22;'], ['SELECT 3;']
    layouts = [
        [('e0', {'other': O}, []), ('e1', None, py1())],
        [('e0', {'default': D}, []), ('e1', None, py1()), ('e2', None, py2())],
        [('e0', {'': G, 'default': D, 'other': O}, py1()), ('e1', None, py2())],
        [('e0', None, py1()), ('e1', {'default': D}, []), ('e2', None, py2()), ('e3', {'other': O}, py1())],
        [('e0', None, py1()), ('e1', None, py2())],
        [('e0', {'default': D, 'other': O}, []), ('e1', {'other': O}, py2())],
    ]
    app = None
    for layout in layouts:
        evs = []
        for label, files, py in layout:
            e = {'label': label, 'mutations': py}
            if files is not None:
                e['sql_files'] = files
            evs.append(e)
        evorig.clear_evolutions()
        evorig.set_evolutions('vapp', evs)
        app = app or get_app('vapp')
        req_labels = [{'label': label, 'per_db': [[a, ''.join(l + '\n' for l in lines)] for a, lines in (files or {}).items() if a],
                       'py': [m.generate_hint() for m in py],
                       **({'generic': ''.join(l + '\n' for l in files['']) } if files and '' in files else {})}
                      for label, files, py in layout]
        for db in ('default', 'other'):
            try:
                real = get_app_mutations(app, [l for l, _, _ in layout], database=db)
                impl = [['sql', m.tag, ''.join(m.sql)] if isinstance(m, SQLMutation) else ['py', m.generate_hint()]
                        for m in real]
            except Exception as e:
                impl = {'error': type(e).__name__}
            out = ctx.driver.ask([{'op': 'load', 'db': db, 'labels': req_labels}])[0] if ctx.driver else None
            if out is not None:
                ctx.corr_case('load_mutations', out.get('loaded') == impl,
                              case={'db': db, 'labels': req_labels}, model=out.get('loaded'), impl=impl)
    evorig.clear_evolutions()


def has_content_type_table(alias):
    conn = dbrig.raw_connection(alias)
    try:
        cur = conn.cursor()
        cur.execute("SELECT name FROM sqlite_master WHERE type='table' AND name='django_content_type'")
        return bool(cur.fetchall())
    finally:
        conn.close()


def run(ctx):
    evorig.setup()
    load_correspondence(ctx)
    quick = ctx.tier == 'quick'
    ctx.rule = ('apps of 2-3 unrelated-or-same-side-related models, EVERY split of the models over the databases '
                '`default` and `other`, creation plus a generated evolution with mutations on both sides, each database '
                'evolved in turn; non-trivial = both databases own at least one model')
    n = 8 if quick else 80
    done = tries = 0
    while done < n and tries < n * 6 and ctx.time_left() > 30:
        tries += 1
        only_splits = None
        if tries <= 2:
            # two models of one app that share a table name, kept apart by the router (Django allows this once
            # routers are configured), next to a third model
            spec, muts, only_splits = shared_table_case() if tries == 1 else delete_side_case()
            names = [m['name'] for m in spec['apps'][0]['models']]
            sig0 = dbrig.sig_from_models(dbrig.build_models(spec))
            r = sigs.real_simulate(sig0, 'vapp', [sigs.real_mutation(m) for m in muts])
            final = r[1] if r[0] == 'ok' else None
            if final is None:
                continue
        else:
            spec = sigs.gen_spec(ctx.rng, 'vapp', n_models=ctx.rng.randint(2, 3), with_meta=False, with_rel=False)
            names = [m['name'] for m in spec['apps'][0]['models']]
            models0 = dbrig.build_models(spec)
            sig0 = dbrig.sig_from_models(models0)
            muts, final = sigs.gen_sequence(ctx.rng, sig0, 'vapp', ctx.rng.randint(2, 4),
                                            kinds=['AddField'] * 3 + ['ChangeField'] * 2 + ['DeleteField', 'DeleteModel'])
            if final is None or not muts or dangling(final, set()):
                continue
            if any(any(a in ('db_index', 'unique', 'db_table', 'related_model') for a, _ in m.get('attrs', []))
                   for m in muts):
                continue      # relations across databases are not valid Django; index findings belong to C01
        spec1 = dbrig.spec_from_sig(final)
        spec1['apps'] = [a for a in spec1['apps'] if a['id'] == 'vapp']
        done += 1
        seed = ctx.seed * 4099 + tries
        for k, split in enumerate(only_splits or itertools.product(['default', 'other'], repeat=len(names))):
            if ctx.time_left() < 20:
                break
            # every other split: the router also answers db_for_read/db_for_write with a catch-all 'default'
            catch_all = 'default' if k % 2 else None
            routes = {('vapp', nm.lower()): db for nm, db in zip(names, split)}
            table_of = {m['name']: m['table'] for m in spec['apps'][0]['models']}
            rep = {'spec': spec, 'routes': {nm: db for nm, db in zip(names, split)}, 'mutations': muts, 'seed': seed,
                   'catch_all': catch_all}
            # every third split: the router also gives a per-app answer to the model-less question (as routers written
            # for RunPython/RunSQL do), which says nothing about where the app's MODELS go
            app_level = {'vapp': 'default'} if k % 3 == 1 else None
            rep['app_level_answer'] = app_level
            # every fourth split: the router only places models (allow_migrate) and says nothing about reads/writes
            rw_opinion = (k % 4 != 2)
            rep['router_answers_reads_and_writes'] = rw_opinion
            evorig.set_routes(routes, catch_all, app_level, rw_opinion=rw_opinion)
            try:
                evorig.fresh_databases()
                evorig.clear_evolutions()
                installed = evorig.install_models(spec)
                ok = True
                for alias in ('default', 'other'):
                    elsewhere = 'other' if alias == 'default' else 'default'
                    fk0 = fk_enforced(elsewhere)
                    r = evorig.run_evolver(alias)
                    if fk_enforced(elsewhere) != fk0:
                        ctx.fail(None, 'creating the models on %s switched foreign-key enforcement of the connection to %s '
                                 'from %s to %s' % (alias, elsewhere, fk0, fk_enforced(elsewhere)), rep)
                    if r[0] != 'ok':
                        ctx.fail(None, 'creating the models on %s fails: %s' % (alias, str(r[1])[:150]), rep)
                        ok = False
                        break
                    # what the receivers of Django's post_migrate write for this run (content types) is written to the
                    # database that was evolved: the models placed there have their rows there
                    here = set(tuple(x) for x in evorig.content_types(alias))
                    mine = [nm for nm, db in zip(names, split) if db == alias]
                    lost = [nm for nm in mine if ('vapp', nm.lower()) not in here]
                    if lost and has_content_type_table(alias):
                        ctx.fail(None, 'after evolving %s its django_content_type has no row for %s (placed on %s): the '
                                 'post-migrate bookkeeping of the run went to another database' % (alias, lost, alias), rep)
                if not ok:
                    continue
                ctx.case({'routes': rep['routes'], 'mutations': [sigs.model_mutation(m) for m in muts]},
                         nontrivial=len(set(split)) == 2, sample_cap=5)
                ctx.count('split:%s' % ('both' if len(set(split)) == 2 else 'one-sided'))
                ctx.count('router_catch_all:%s' % catch_all)
                for alias in ('default', 'other'):
                    want = sorted(table_of[nm] for nm, db in zip(names, split) if db == alias)
                    have = user_tables(alias)
                    if have != want:
                        ctx.fail(None, 'database %s has tables %s, the router allows %s' % (alias, have, want), rep)
                    wm = sorted(nm for nm, db in zip(names, split) if db == alias)
                    sm = stored_models(alias)
                    if sm != wm:
                        ctx.fail(None, 'the signature stored on %s lists models %s, the router allows %s'
                                 % (alias, sm, wm), rep)
                # rows on each side
                for alias in ('default', 'other'):
                    mine = {'vapp': [m for m in installed['vapp'] if routes[('vapp', m._meta.model_name)] == alias]}
                    dbrig.insert_rows(mine, random.Random(seed), alias=alias)
                # the upgrade, one database at a time
                evorig.install_models(spec1)
                # every fourth split (and the scripted cases' last): the release also ships an earlier evolution as
                # raw SQL for ONE of the databases (`<alias>_<label>.sql` next to an empty Python module)
                sql_for = ('other' if k % 8 == 3 else 'default') if (k % 4 == 3 or (only_splits and k == len(only_splits) - 1)) else None
                rep['sql_file_evolution_for'] = sql_for
                # the marked table: one that stays (not deleted or renamed by the evolution) on that database
                final_names = [m['name'] for m in spec1['apps'][0]['models']]
                marker = next((table_of[nm] for nm, db in zip(names, split)
                               if db == sql_for and nm in final_names and
                               table_of[nm] == {m['name']: m['table'] for m in spec1['apps'][0]['models']}.get(nm)), None) \
                    if sql_for else None
                rep['sql_file_marker_table'] = marker
                evorig.set_evolutions('vapp', evolutions_of(muts, sql_for, marker))
                for alias, other in (('default', 'other'), ('other', 'default')):
                    before_other = evorig.snapshot(other)
                    before_mine = evorig.snapshot(alias)
                    fk0 = fk_enforced(other)
                    r = evorig.run_evolver(alias)
                    if fk_enforced(other) != fk0:
                        ctx.fail(None, 'evolving %s switched foreign-key enforcement of the connection to %s from %s to %s'
                                 % (alias, other, fk0, fk_enforced(other)), rep)
                    after_other = evorig.snapshot(other)
                    after_mine = evorig.snapshot(alias)
                    if after_other != before_other:
                        ctx.fail(None, 'evolving %s modified database %s: %s'
                                 % (alias, other, [k for k in before_other if before_other[k] != after_other[k]]), rep)
                    if sql_for and marker and r[0] == 'ok':
                        if has_marker(alias) != (alias == sql_for):
                            ctx.fail(None, 'the evolution shipped as %s_e0.sql %s on %s'
                                     % (sql_for, 'did not run' if alias == sql_for else 'ran', alias), rep)
                    if r[0] != 'ok':
                        msg = str(r[1])
                        if 'constraint failed' in msg:
                            ctx.count('data_violates_constraint')
                        else:
                            ctx.fail(None, 'evolving %s fails although every mutation is valid: %s' % (alias, msg[:150]), rep)
                        continue
                    # models routed elsewhere must not appear here; my models must be at V1
                    final_tables = {m['name']: m['table'] for m in spec1['apps'][0]['models']}
                    want = sorted(final_tables[nm] for nm, db in zip(names, split) if db == alias and nm in final_tables)
                    if user_tables(alias) != want:
                        ctx.fail(None, 'after evolving %s its tables are %s, expected %s' % (alias, user_tables(alias), want), rep)
                    mine_models = [nm for nm, db in zip(names, split) if db == alias]
                    stored = evorig.bookkeeping(alias)['sig'].get_app_sig('vapp')
                    tgt = final.get_app_sig('vapp')
                    for nm in mine_models:
                        a, b = (stored.get_model_sig(nm) if stored is not None else None), tgt.get_model_sig(nm)
                        if (a is None) != (b is None) or (a is not None and (b.diff(a) or a.diff(b))):
                            ctx.fail(None, 'after evolving %s the stored signature of model %s is not the evolved one'
                                     % (alias, nm), rep)
                    for nm in names:
                        if nm not in mine_models and stored is not None and stored.get_model_sig(nm) is not None:
                            ctx.fail(None, 'the signature stored on %s lists model %s, which is routed to %s'
                                     % (alias, nm, other), rep)
                # a further release after one side lost its last model: a mutation for the other side's model and a
                # new model routed to the emptied side
                if tries == 2:
                    add2 = {'t': 'AddField', 'model': 'Book', 'field': 'pages2', 'ftype': 'IntegerField', 'initial': None,
                            'attrs': [['null', 'true']]}
                    r2 = sigs.real_simulate(final, 'vapp', [sigs.real_mutation(add2)])
                    spec2 = dbrig.spec_from_sig(r2[1])
                    spec2['apps'] = [a for a in spec2['apps'] if a['id'] == 'vapp']
                    side_of = dict(zip(names, split))
                    emptied = side_of['LogEntry']
                    spec2['apps'][0]['models'].append({
                        'name': 'Notice', 'table': 'vapp_notice', 'unique_together': [], 'index_together': [], 'indexes': [],
                        'constraints': [], 'fields': [{'name': 'id', 'type': 'AutoField', 'attrs': {'primary_key': True},
                                                       'related': None}]})
                    routes2 = dict(routes)
                    routes2[('vapp', 'notice')] = emptied
                    evorig.set_routes(routes2, catch_all, app_level, rw_opinion=rw_opinion)
                    evorig.install_models(spec2)
                    evorig.set_evolutions('vapp', [
                        {'label': 'e1', 'mutations': [sigs.real_mutation(m) for m in muts]},
                        {'label': 'e2', 'mutations': [sigs.real_mutation(add2)]}])
                    rep2 = dict(rep, second_release=[add2], new_model_on=emptied)
                    for alias in ('default', 'other'):
                        r = evorig.run_evolver(alias)
                        ctx.count('second_release:%s' % r[0])
                        if r[0] != 'ok':
                            ctx.fail(None, 'second release: evolving %s fails although every mutation is valid: %s'
                                     % (alias, str(r[1])[:150]), rep2)
                            continue
                        has_notice = 'vapp_notice' in user_tables(alias)
                        if has_notice != (alias == emptied):
                            ctx.fail(None, 'second release: table vapp_notice %s on %s'
                                     % ('missing' if alias == emptied else 'created', alias), rep2)
                        cols = dbrig.abs_schema(alias).get('vapp_book', {}).get('columns', {})
                        if (side_of['Book'] == alias) != ('pages2' in cols):
                            ctx.fail(None, 'second release: column vapp_book.pages2 %s on %s'
                                     % ('missing' if side_of['Book'] == alias else 'present', alias), rep2)
            finally:
                evorig.set_routes({})
    # ---- failing evolution on the non-default database must roll back there (F10) -------------
    probe_f10(ctx)


def probe_f10(ctx):
    spec = {'apps': [{'id': 'vapp', 'models': [{'name': 'Alpha', 'table': 'vapp_alpha', 'unique_together': [],
                                                 'index_together': [], 'indexes': [], 'constraints': [], 'fields': [
        {'name': 'id', 'type': 'AutoField', 'attrs': {'primary_key': True}, 'related': None},
        {'name': 'a', 'type': 'IntegerField', 'attrs': {'null': True}, 'related': None}]}]}]}
    spec1 = {'apps': [{'id': 'vapp', 'models': [dict(spec['apps'][0]['models'][0])]}]}
    spec1['apps'][0]['models'][0] = dict(spec1['apps'][0]['models'][0],
                                         fields=spec['apps'][0]['models'][0]['fields'] + [
        {'name': 'b', 'type': 'IntegerField', 'attrs': {'null': True}, 'related': None}])
    evorig.set_routes({('vapp', 'alpha'): 'other'})
    try:
        evorig.fresh_databases()
        evorig.clear_evolutions()
        evorig.install_models(spec)
        evorig.run_evolver('default')
        evorig.run_evolver('other')
        evorig.install_models(spec1)
        evorig.set_evolutions('vapp', [{'label': 'e1', 'mutations': [sigs.real_mutation(
            {'t': 'AddField', 'model': 'Alpha', 'field': 'b', 'ftype': 'IntegerField', 'initial': None,
             'attrs': [['null', 'true']]})]}])
        before = evorig.snapshot('other')
        tr = evorig.Trace('other', fail_at=2)
        r = evorig.run_evolver('other', trace=tr)
        after = evorig.snapshot('other')
        ctx.variant['other_db_rolls_back'] = (after == before)
        if r[0] == 'error' and after != before:
            ctx.fail('F10', 'a failed evolution on the non-default database leaves a committed prefix there: %s'
                     % [k for k in before if before[k] != after[k]],
                     {'spec': spec, 'database': 'other', 'fault_at_write': 2, 'failed_sql': tr.failed_sql})
    finally:
        evorig.set_routes({})


def replay(ctx, obj):
    """re-run one split: create on both databases, evolve each in turn, report what each database holds"""
    _r = obj.get('replay', obj)
    if isinstance(_r, dict) and _r.get('scenario'):
        print('this scenario (%s) is rebuilt by the check itself: VERIF_SEED=%s ./check C16' % (_r['scenario'], obj.get('seed')))
        return 0
    evorig.setup()
    r = obj.get('replay', obj)
    if 'routes' not in r:
        print('nothing to replay in this file: %r' % list(r))
        return 0
    spec, muts = r['spec'], r['mutations']
    names = list(r['routes'])
    routes = {('vapp', nm.lower()): db for nm, db in r['routes'].items()}
    sig0 = dbrig.sig_from_models(dbrig.build_models(spec))
    final = sigs.real_simulate(sig0, 'vapp', [sigs.real_mutation(m) for m in muts])[1]
    spec1 = dbrig.spec_from_sig(final)
    spec1['apps'] = [a for a in spec1['apps'] if a['id'] == 'vapp']
    bad = 0
    evorig.set_routes(routes)
    try:
        evorig.fresh_databases()
        evorig.clear_evolutions()
        evorig.install_models(spec)
        for alias in ('default', 'other'):
            evorig.run_evolver(alias)
        evorig.install_models(spec1)
        evorig.set_evolutions('vapp', evolutions_of(muts, r.get('sql_file_evolution_for'), r.get('sql_file_marker_table')))
        for alias, other in (('default', 'other'), ('other', 'default')):
            before_other = evorig.snapshot(other)
            out = evorig.run_evolver(alias)
            if evorig.snapshot(other) != before_other:
                print('PROBLEM: evolving %s modified %s' % (alias, other))
                bad = 1
            stored = evorig.bookkeeping(alias)['sig'].get_app_sig('vapp')
            tgt = final.get_app_sig('vapp')
            for nm in names:
                mine = r['routes'][nm] == alias
                a = stored.get_model_sig(nm) if stored is not None else None
                b = tgt.get_model_sig(nm)
                if mine and out[0] == 'ok' and ((a is None) != (b is None) or (a is not None and (b.diff(a) or a.diff(b)))):
                    print('PROBLEM: after evolving %s model %s is not at the evolved signature' % (alias, nm))
                    bad = 1
                if not mine and a is not None:
                    print('PROBLEM: %s stores a signature for %s, which is routed elsewhere' % (alias, nm))
                    bad = 1
            print('%s: outcome=%s tables=%s' % (alias, out[0], user_tables(alias)))
    finally:
        evorig.set_routes({})
    return bad
