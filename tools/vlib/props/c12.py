"""C12 — upgrades that cannot reach the current models never touch the database.

Lean: DEvo/Props/C12.lean (gate over the *generated* skeletons of Command.handle /
_check_simulation, simulate preconditions).
Tie: translator (skeletons), simulate correspondence incl. rejected mutations, and the
property oracle through the real `evolve --execute --noinput` command on a real database.
"""
import copy
import json

from .. import optrig, dbrig, evorig, sigs, simcorr


FINDING_CRASH = 'F25'
FINDING_OPT_CRASH = 'F27'
FINDING_FILTER = 'F28'
FINDING_OPT_VALID = 'F29'


def perturb(rng, muts):
    """returns (kind, new list) — one of the perturbations named in the property"""
    muts = copy.deepcopy(muts)
    kinds = ['drop', 'duplicate', 'reorder', 'rename', 'attr', 'no_initial', 'retarget']
    rng.shuffle(kinds)
    for k in kinds:
        if k == 'drop' and muts:
            i = rng.randrange(len(muts))
            return k, muts[:i] + muts[i + 1:]
        if k == 'duplicate' and muts:
            i = rng.randrange(len(muts))
            return k, muts[:i + 1] + [copy.deepcopy(muts[i])] + muts[i + 1:]
        if k == 'reorder' and len(muts) >= 2:
            i, j = rng.sample(range(len(muts)), 2)
            muts[i], muts[j] = muts[j], muts[i]
            return k, muts
        if k == 'rename':
            c = [m for m in muts if 'field' in m or 'new' in m]
            if c:
                m = rng.choice(c)
                key = 'field' if 'field' in m else 'new'
                m[key] = m[key] + 'x'
                return k, muts
        if k == 'attr':
            c = [m for m in muts if m['t'] in ('AddField', 'ChangeField') and
                 any(a in ('max_length', 'null', 'db_index', 'unique') for a, _ in m['attrs'])]
            if c:
                m = rng.choice(c)
                for pair in m['attrs']:
                    if pair[0] == 'max_length':
                        pair[1] = sigs.cv(int(pair[1]) + 7)
                        break
                    if pair[0] in ('null', 'db_index', 'unique'):
                        pair[1] = 'false' if pair[1] == 'true' else 'true'
                        break
                return k, muts
        if k == 'no_initial':
            c = [m for m in muts if m.get('initial') is not None]
            if c:
                m = rng.choice(c)
                m['initial'] = None
                if m['t'] == 'AddField' and not any(a == 'null' for a, _ in m['attrs']) and rng.random() < 0.5:
                    m['attrs'] = m['attrs'] + [['null', 'false']]     # the same column, NOT NULL stated explicitly
                return k, muts
        if k == 'retarget':
            c = [m for m in muts if 'model' in m]
            if c:
                rng.choice(c)['model'] = rng.choice(['Alpha', 'Beta', 'Gamma', 'Nope'])
                return k, muts
    return 'none', muts


def vapp_sig(alias='default'):
    from django_evolution.signature import ProjectSignature
    return ProjectSignature.from_database(alias)


def filtered_reaches(stored, target, evolution):
    """the evolution after the `changed models` filter of get_app_pending_mutations, simulated
    one mutation at a time on the stored signature: does it reach the current models?"""
    from django_evolution.diff import Diff
    old_app, new_app = stored.get_app_sig('vapp'), target.get_app_sig('vapp')
    if old_app is None or new_app is None:
        return False
    changed = set(m.model_name for m in new_app.model_sigs
                  if old_app.get_model_sig(m.model_name) not in (None, m))
    changed.update(m.model_name for m in old_app.model_sigs if new_app.get_model_sig(m.model_name) is None)
    kept = [m for m in evolution if m['t'] == 'RenameModel' or m.get('model', m.get('old')) in changed
            or m['t'] in ('DeleteApplication', 'RenameAppLabel', 'SQLMutation')]
    if len(kept) == len(evolution):
        return False
    sim = sigs.real_simulate(stored, 'vapp', [sigs.real_mutation(m) for m in kept])
    return sim[0] == 'ok' and Diff(sim[1], target).is_empty(ignore_apps=True) and \
        Diff(target, sim[1]).is_empty(ignore_apps=True)


def optimised_reaches(stored, target, evolution, alias='default'):
    """the evolution after the real optimiser (AppMutator._preprocess_mutations, fresh mutation
    objects), simulated one mutation at a time: does it reach the current models?"""
    from django_evolution.diff import Diff
    from django_evolution.mutators import AppMutator
    try:
        am = AppMutator(app_label='vapp', project_sig=stored.clone(), database_state=dbrig.scan_state(alias),
                        database=alias)
        opt = am._preprocess_mutations([sigs.real_mutation(m) for m in evolution])
        sim = sigs.real_simulate(stored, 'vapp', opt)
    except Exception:
        return False
    return sim[0] == 'ok' and Diff(sim[1], target).is_empty(ignore_apps=True) and \
        Diff(target, sim[1]).is_empty(ignore_apps=True)


def vapp_sig_stored(alias='default'):
    from django_evolution.models import Version
    return Version.objects.current_version(using=alias).signature


def one_case(ctx, rng):
    """returns a report dict, or None when no usable case could be generated"""
    spec0 = sigs.gen_spec(rng, 'vapp', with_meta=False)
    evorig.fresh_databases()
    evorig.clear_evolutions()
    evorig.install_models(spec0)
    r = evorig.run_evolver()
    if r[0] != 'ok':
        return None
    sig0 = vapp_sig()
    muts, final = sigs.gen_sequence(rng, sig0, 'vapp', rng.randint(1, 4),
                                    kinds=['AddField'] * 4 + ['ChangeField'] * 4 + ['DeleteField'] * 2 +
                                    ['RenameField'] * 2 + ['DeleteModel'])
    if final is None or not muts:
        return None
    from .c11 import dangling
    if dangling(final, set()):
        return None      # target models with a relation to a deleted model cannot be installed
    spec1 = dbrig.spec_from_sig(final)
    spec1['apps'] = [a for a in spec1['apps'] if a['id'] == 'vapp']
    try:
        evorig.install_models(spec1)
    except Exception:
        return None
    if pipeline_crashes(sig0, muts):
        return None      # the valid evolution itself cannot be lowered (C01/C03 territory)
    kind, bad = perturb(rng, muts)
    rep = {'spec0': spec0, 'valid': muts, 'perturbation': kind, 'evolution': bad}
    return run_case(rep)


def pipeline_crashes(sig, muts, alias='default'):
    """does a bare AppMutator (optimiser + lowering, nothing executed) raise on this list?"""
    from django_evolution.mutators import AppMutator
    real = [sigs.real_mutation(m) for m in muts]
    try:
        # twice over the *same* mutation objects, as EvolveAppTask.prepare and _build_batches do
        for _ in range(2):
            am = AppMutator(app_label='vapp', project_sig=sig.clone(), database_state=dbrig.scan_state(alias),
                            database=alias)
            am.run_mutations(real)
            am.to_sql()
    except Exception as e:
        return type(e).__name__
    return None


def legacy_unique_together(model):
    """put the database and the stored signature into the state old releases left behind: unique_together is listed
    for `model`, but was never applied (no unique index, flag off) - only a ChangeMeta applies it"""
    from django.db import connection
    from django_evolution.models import Version
    table = 'vapp_%s' % model.lower()
    with connection.cursor() as cur:
        cur.execute('PRAGMA index_list("%s")' % table)
        names = [r[1] for r in cur.fetchall() if r[2] and not r[1].startswith('sqlite_autoindex')]
        for n in names:
            cur.execute('DROP INDEX "%s"' % n)
    v = Version.objects.current_version()
    s = v.signature
    ms = s.get_app_sig('vapp').get_model_sig(model)
    ms._unique_together_applied = False
    v.signature = s
    v.save()


def run_case(rep, prepared=True):
    """rep: spec0, valid, evolution — the database is at V0 and the V1 models are installed"""
    if not prepared:
        evorig.fresh_databases()
        evorig.clear_evolutions()
        evorig.install_models(rep['spec0'])
        r = evorig.run_evolver()
        if rep.get('legacy_ut'):
            legacy_unique_together(rep['legacy_ut'])
        sig0 = vapp_sig()
        if rep.get('spec1'):
            # the target models are given (no valid evolution leads there: the simulation under test is not asked)
            spec1 = rep['spec1']
        else:
            rs = sigs.real_simulate(sig0, 'vapp', [sigs.real_mutation(m) for m in rep['valid']])
            spec1 = dbrig.spec_from_sig(rs[1])
            spec1['apps'] = [a for a in spec1['apps'] if a['id'] == 'vapp']
        evorig.install_models(spec1)
    try:
        real = [sigs.real_mutation(m) for m in rep['evolution']]
    except Exception:
        return None
    evorig.set_evolutions('vapp', [{'label': 'e1', 'mutations': real}])
    sim = None
    try:
        sim = sigs.real_simulate(vapp_sig_stored(), 'vapp', [sigs.real_mutation(m) for m in rep['evolution']])
        rep = dict(rep, sim_rejects=(sim[0] == 'err'))
    except Exception:
        rep = dict(rep, sim_rejects=False)
    stored_before = vapp_sig_stored()
    rep['stored_abs'] = sigs.abs_sig(stored_before)
    rep['pipeline_crash'] = pipeline_crashes(stored_before, rep['evolution'])
    before = evorig.snapshot()
    res = evorig.run_command(execute=True, interactive=False, **({'purge': True} if rep.get('purge') else {}))
    tr = res[-1]
    after = evorig.snapshot()
    writes = tr.write_statements()
    rep = dict(rep)
    rep['outcome'] = res[0]
    rep['message'] = (str(res[1])[:300] if res[0] == 'error' else res[2][-200:])
    rep['writes'] = len(writes)
    rep['error_type'] = type(res[1]).__name__ if res[0] == 'error' else None
    problems = []
    gate_passed = any(n == 'evolving' for n, _ in tr.signals())
    rep['gate_passed'] = gate_passed
    # does the evolution, simulated one mutation at a time on the stored signature, reach the models?
    from django_evolution.diff import Diff
    from django_evolution.signature import ProjectSignature
    target = ProjectSignature.from_database('default')
    reaches = False
    if sim is not None and sim[0] == 'ok':
        reaches = (Diff(sim[1], target).is_empty(ignore_apps=True) and
                   Diff(target, sim[1]).is_empty(ignore_apps=True))
    rep['reaches_target'] = reaches
    if sim is not None and sim[0] == 'ok':
        only = lambda js: dict(js, apps=[a for a in js['apps'] if a['id'] == 'vapp'])
        rep['sim_abs'] = only(sigs.abs_sig(sim[1]))
        rep['target_abs'] = only(sigs.abs_sig(target))
    if gate_passed:
        if not reaches:
            # the mechanism of finding F28: get_app_pending_mutations drops every mutation whose
            # model is not among the changed models instead of evaluating it
            stored = vapp_sig_stored() if res[0] == 'error' else None
            filt = filtered_reaches(stored_before, target, rep['evolution'])
            if filt:
                rep['dropped_by_changed_models_filter'] = True
            elif optimised_reaches(stored_before, target, rep['evolution']):
                rep['valid_only_after_optimisation'] = True
            else:
                problems.append('the upgrade was executed although simulating the evolution does not yield the '
                                'signature of the current models')
        # a failure *during* execution after a correct gate decision is C01/C07's business
    else:
        if writes:
            problems.append('rejected, but %d write statements were issued, first: %s' % (len(writes), writes[0][:120]))
        if after != before:
            problems.append('rejected, but the database changed: %s' %
                            [k for k in before if before[k] != after[k]])
        if res[0] == 'error' and rep['error_type'] != 'CommandError':
            rep['crash_instead_of_rejection'] = True
        if res[0] == 'ok' and not reaches and rep['evolution']:
            # "No database upgrade required" although the models differ from the stored signature
            if not Diff(vapp_sig_stored(), target).is_empty(ignore_apps=True):
                problems.append('the command reported success without executing, but the models differ')
    rep['problems'] = problems
    return rep


def _m(name, fields):
    return {'name': name, 'table': 'vapp_%s' % name.lower(), 'unique_together': [], 'index_together': [],
            'indexes': [], 'constraints': [],
            'fields': [{'name': 'id', 'type': 'AutoField', 'attrs': {'primary_key': True}, 'related': None}] + fields}


def _f(name, t, **attrs):
    return {'name': name, 'type': t, 'attrs': attrs, 'related': None}


WITNESSES = [
    # F25: ChangeField after DeleteField of the same field
    {'spec0': {'apps': [{'id': 'vapp', 'models': [_m('Beta', [_f('c', 'IntegerField'), _f('d', 'IntegerField')])]}]},
     'valid': [{'t': 'DeleteField', 'model': 'Beta', 'field': 'd'}],
     'perturbation': 'witness-F25',
     'evolution': [{'t': 'DeleteField', 'model': 'Beta', 'field': 'd'},
                   {'t': 'ChangeField', 'model': 'Beta', 'field': 'd', 'ftype': None, 'initial': None,
                    'attrs': [['null', 'true']]}]},
    # F28: a mutation on a model that does not exist is dropped, the rest is executed
    {'spec0': {'apps': [{'id': 'vapp', 'models': [_m('Gamma', [_f('d', 'IntegerField')])]}]},
     'valid': [{'t': 'AddField', 'model': 'Gamma', 'field': 'a', 'ftype': 'IntegerField', 'initial': '7', 'attrs': []}],
     'perturbation': 'witness-F28',
     'evolution': [{'t': 'AddField', 'model': 'Gamma', 'field': 'a', 'ftype': 'IntegerField', 'initial': '7', 'attrs': []},
                   {'t': 'ChangeField', 'model': 'Alpha', 'field': 'b', 'ftype': None, 'initial': '3',
                    'attrs': [['null', 'false']]}]},
    # F29: AddField non-null without initial, made valid by the optimiser's roll-up
    {'spec0': {'apps': [{'id': 'vapp', 'models': [_m('Alpha', [_f('a', 'IntegerField')])]}]},
     'valid': [{'t': 'AddField', 'model': 'Alpha', 'field': 'e', 'ftype': 'IntegerField', 'initial': None,
                'attrs': [['null', 'true']]}],
     'perturbation': 'witness-F29',
     'evolution': [{'t': 'AddField', 'model': 'Alpha', 'field': 'e', 'ftype': 'IntegerField', 'initial': None, 'attrs': []},
                   {'t': 'ChangeField', 'model': 'Alpha', 'field': 'e', 'ftype': None, 'initial': None,
                    'attrs': [['null', 'true']]}]},
]


def _two():
    return {'apps': [{'id': 'vapp', 'models': [_m('Alpha', [_f('a', 'IntegerField'), _f('b', 'IntegerField')]),
                                                _m('Beta', [_f('c', 'IntegerField'), _f('d', 'IntegerField')])]}]}


def _rel():
    return {'apps': [{'id': 'vapp', 'models': [
        _m('Alpha', [_f('a', 'IntegerField'), _f('b', 'IntegerField')]),
        _m('Beta', [_f('c', 'IntegerField'),
                    {'name': 'ref', 'type': 'ForeignKey', 'attrs': {'null': True}, 'related': 'vapp.Alpha'},
                    {'name': 'twin', 'type': 'OneToOneField', 'attrs': {'null': True}, 'related': 'vapp.Alpha'}])]}]}


_FKIDX = {'t': 'ChangeField', 'model': 'Beta', 'field': 'ref', 'ftype': None, 'initial': None,
          'attrs': [['db_index', 'false']]}


def _legacy():
    return {'apps': [{'id': 'vapp', 'models': [
        dict(_m('Alpha', [_f('a', 'IntegerField'), _f('b', 'IntegerField'), _f('c', 'IntegerField', null=True)]),
             unique_together=[['a', 'b']])]}]}


_DELC = {'t': 'DeleteField', 'model': 'Alpha', 'field': 'c'}
_UT = {'t': 'ChangeMeta', 'model': 'Alpha', 'prop': 'unique_together', 'py_value': [('a', 'b')]}


def _text():
    return {'apps': [{'id': 'vapp', 'models': [_m('Alpha', [_f('notes', 'CharField', max_length=50, null=True)])]}]}


def _retype(ftype, initial):
    return {'t': 'ChangeField', 'model': 'Alpha', 'field': 'notes', 'ftype': ftype, 'initial': initial,
            'attrs': [['null', 'false']] + ([['max_length', '50']] if ftype == 'SlugField' else [])}


_ADD = {'t': 'AddField', 'model': 'Alpha', 'field': 'x', 'ftype': 'IntegerField', 'initial': '1', 'attrs': []}
_DELM = {'t': 'DeleteModel', 'model': 'Beta'}
_DELF = {'t': 'DeleteField', 'model': 'Beta', 'field': 'd'}
_CHG = {'t': 'ChangeField', 'model': 'Beta', 'field': 'c', 'ftype': None, 'initial': None, 'attrs': [['null', 'true']]}

_IX1 = {'t': 'ChangeMeta', 'model': 'Alpha', 'prop': 'indexes', 'py_value': [{'name': 'alpha_a_idx', 'fields': ['a']}]}
_IX2 = {'t': 'ChangeMeta', 'model': 'Alpha', 'prop': 'indexes',
        'py_value': [{'name': 'alpha_a_idx', 'fields': ['a']}, {'name': 'alpha_b_idx', 'fields': ['b']}]}
_UT1 = {'t': 'ChangeMeta', 'model': 'Alpha', 'prop': 'unique_together', 'py_value': [('a', 'b')]}
_UT2 = {'t': 'ChangeMeta', 'model': 'Alpha', 'prop': 'unique_together', 'py_value': [('a', 'b'), ('b', 'a')]}
_ADDFK = {'t': 'AddField', 'model': 'Beta', 'field': 'owner', 'ftype': 'ForeignKey', 'initial': None,
          'attrs': [['null', 'true'], ['related_model', '"vapp.Alpha"']]}
_RNF = {'t': 'RenameField', 'model': 'Alpha', 'old': 'b', 'new': 'bb', 'db_column': None, 'db_table': None}
_RNM = {'t': 'RenameModel', 'old': 'Beta', 'new': 'Gamma', 'db_table': 'vapp_beta'}
_RNM2 = {'t': 'RenameModel', 'old': 'Gamma', 'new': 'Delta', 'db_table': 'vapp_beta'}
_RNF2 = {'t': 'RenameField', 'model': 'Alpha', 'old': 'bb', 'new': 'bbb', 'db_column': None, 'db_table': None}

# deterministic family: the residual difference between the simulated signature and the models is
# one-directional (something only the stored side has / only the models have); the remaining
# evolution is effective on its own, so "nothing to do" cannot hide the decision
def _relation_pk(kind):
    """a model whose primary key is a relation field (column `owner_id`), and the same model with an ordinary key: the
    models have switched keys, so the only thing that can stop the evolution is the rule "a primary key is not deleted"""
    plain = lambda name, fields: {'name': name, 'table': 'vapp_%s' % name.lower(), 'unique_together': [],
                                  'index_together': [], 'indexes': [], 'constraints': [], 'fields': fields}
    pk = {'name': 'id', 'type': 'AutoField', 'attrs': {'primary_key': True}, 'related': None}
    owner = plain('Owner', [pk, _f('n', 'IntegerField', null=True)])
    link = {'name': 'owner', 'type': kind, 'attrs': {'primary_key': True}, 'related': 'vapp.Owner'}
    spec0 = {'apps': [{'id': 'vapp', 'models': [owner, plain('Profile', [link, _f('note', 'IntegerField', null=True)])]}]}
    spec1 = {'apps': [{'id': 'vapp', 'models': [owner, plain('Profile', [_f('note', 'IntegerField', null=True), pk])]}]}
    return {'spec0': spec0, 'spec1': spec1, 'valid': [], 'perturbation': 'family:delete a primary key that is a %s' % kind,
            'evolution': [{'t': 'DeleteField', 'model': 'Profile', 'field': 'owner'},
                          {'t': 'AddField', 'model': 'Profile', 'field': 'id', 'ftype': 'AutoField', 'initial': '1',
                           'attrs': [['primary_key', 'true']]}]}


FAMILY = [
    _relation_pk('OneToOneField'), _relation_pk('ForeignKey'),
    {'spec0': _two(), 'valid': [_ADD, _DELM], 'perturbation': 'family:drop DeleteModel', 'evolution': [_ADD]},
    {'spec0': _two(), 'valid': [_ADD, _DELM], 'perturbation': 'family:drop AddField', 'evolution': [_DELM]},
    {'spec0': _two(), 'valid': [_ADD, _DELF], 'perturbation': 'family:drop DeleteField', 'evolution': [_ADD]},
    {'spec0': _two(), 'valid': [_ADD, _DELF], 'perturbation': 'family:drop AddField (2)', 'evolution': [_DELF]},
    {'spec0': _two(), 'valid': [_ADD, _CHG], 'perturbation': 'family:drop ChangeField', 'evolution': [_ADD]},
    {'spec0': _two(), 'valid': [_DELM], 'perturbation': 'family:extra AddField', 'evolution': [_ADD, _DELM]},
    {'spec0': _two(), 'valid': [_ADD], 'perturbation': 'family:extra DeleteModel', 'evolution': [_ADD, _DELM]},
    {'spec0': _two(), 'valid': [_ADD], 'perturbation': 'family:extra DeleteField', 'evolution': [_ADD, _DELF]},
    # a NOT NULL column without an initial value, written in the three ways an evolution can say it
    {'spec0': _two(), 'valid': [_ADD], 'perturbation': 'family:no initial (implicit NOT NULL)',
     'evolution': [dict(_ADD, initial=None)]},
    {'spec0': _two(), 'valid': [_ADD], 'perturbation': 'family:no initial (explicit null=False)',
     'evolution': [dict(_ADD, initial=None, attrs=[['null', 'false']])]},
    {'spec0': _two(), 'valid': [_ADD], 'perturbation': 'family:no initial (AddField null=True, then ChangeField null=False)',
     'evolution': [dict(_ADD, initial=None, attrs=[['null', 'true']]),
                   {'t': 'ChangeField', 'model': 'Alpha', 'field': 'x', 'ftype': None, 'initial': None,
                    'attrs': [['null', 'false']]}]},
    # ... and with a change of the field's type in the same mutation (column type changes / stays the same)
    {'spec0': _text(), 'valid': [_retype('TextField', '""')], 'perturbation': 'family:no initial (retyped, new column type)',
     'evolution': [_retype('TextField', None)]},
    {'spec0': _text(), 'valid': [_retype('SlugField', '""')], 'perturbation': 'family:no initial (retyped, same column type)',
     'evolution': [_retype('SlugField', None)]},
    {'spec0': _text(), 'valid': [_retype('TextField', '""')],
     'perturbation': 'family:no initial (retyped first, then null=False)',
     'evolution': [{'t': 'ChangeField', 'model': 'Alpha', 'field': 'notes', 'ftype': 'TextField', 'initial': None,
                    'attrs': []},
                   {'t': 'ChangeField', 'model': 'Alpha', 'field': 'notes', 'ftype': None, 'initial': None,
                    'attrs': [['null', 'false']]}]},
    # an index switched off on a relation field (whose own default is db_index=True) next to an effective mutation:
    # dropping that ChangeField leaves a residual difference that only the field type's own default reveals
    {'spec0': _rel(), 'valid': [_ADD, _FKIDX], 'perturbation': 'family:drop ChangeField(db_index=False) of a ForeignKey',
     'evolution': [_ADD]},
    {'spec0': _rel(), 'valid': [_ADD, dict(_FKIDX, field='twin')],
     'perturbation': 'family:drop ChangeField(db_index=False) of a OneToOneField', 'evolution': [_ADD]},
    # a legacy database (unique_together listed in the stored signature but never applied): only the ChangeMeta
    # applies it, so an evolution without it leaves a residual difference - whatever else it deletes or adds
    {'spec0': _legacy(), 'legacy_ut': 'Alpha', 'valid': [_DELC, _UT], 'evolution': [_DELC],
     'perturbation': 'family:legacy unique_together, ChangeMeta dropped next to a DeleteField'},
    {'spec0': _legacy(), 'legacy_ut': 'Alpha', 'valid': [_ADD, _UT], 'evolution': [_ADD],
     'perturbation': 'family:legacy unique_together, ChangeMeta dropped next to an AddField'},
    # the same deficient evolutions with --purge (the residual difference is then judged with the apps compared too)
    {'spec0': _two(), 'valid': [_ADD, _DELM], 'perturbation': 'family:drop DeleteModel, --purge', 'evolution': [_ADD],
     'purge': True},
    {'spec0': _two(), 'valid': [_ADD, _CHG], 'perturbation': 'family:drop ChangeField, --purge', 'evolution': [_ADD],
     'purge': True},
    {'spec0': _two(), 'valid': [_ADD], 'perturbation': 'family:extra DeleteField, --purge', 'evolution': [_ADD, _DELF],
     'purge': True},
    # a mutation the backend cannot apply at all (table comments on SQLite) next to a mutation that leaves a
    # residual difference: the run must be refused, whatever the reason given
    {'spec0': _two(), 'valid': [_ADD], 'perturbation': 'family:unsupported Meta property next to a misnamed AddField',
     'evolution': [dict(_ADD, field='y'),
                   {'t': 'ChangeMeta', 'model': 'Alpha', 'prop': 'db_table_comment', 'py_value': 'shelf of things'}]},
    {'spec0': _two(), 'valid': [_ADD], 'perturbation': 'family:unsupported Meta property next to a dropped AddField',
     'evolution': [{'t': 'ChangeMeta', 'model': 'Alpha', 'prop': 'db_table_comment', 'py_value': 'shelf of things'}]},
    # the same Meta property stated twice with different values, in the wrong order (each statement carries the
    # complete value: the LAST one is what the evolution means)
    {'spec0': _two(), 'valid': [_IX2, _IX1], 'perturbation': 'family:two ChangeMeta(indexes) reordered',
     'evolution': [_IX1, _IX2]},
    {'spec0': _two(), 'valid': [_UT2, _UT1], 'perturbation': 'family:two ChangeMeta(unique_together) reordered',
     'evolution': [_UT1, _UT2]},
    # the right entries of Meta.indexes in another order, and with one of them repeated: a list of indexes is the list
    # the models declare, entry for entry
    {'spec0': _two(), 'valid': [_IX2], 'perturbation': 'family:Meta.indexes entries reordered',
     'evolution': [dict(_IX2, py_value=list(reversed(_IX2['py_value'])))]},
    {'spec0': _two(), 'valid': [_IX2], 'perturbation': 'family:Meta.indexes entry repeated',
     'evolution': [dict(_IX2, py_value=_IX2['py_value'] + _IX2['py_value'][:1])]},
    # a relation added with another relation class than the models have (OneToOneField is a subclass of ForeignKey,
    # but its column is UNIQUE), and the other way round
    {'spec0': _two(), 'valid': [_ADDFK], 'perturbation': 'family:relation class OneToOneField for ForeignKey',
     'evolution': [dict(_ADDFK, ftype='OneToOneField')]},
    {'spec0': _two(), 'valid': [dict(_ADDFK, ftype='OneToOneField')],
     'perturbation': 'family:relation class ForeignKey for OneToOneField', 'evolution': [_ADDFK]},
    # a rename stated twice (the second one names a field / model that is gone), next to an ordinary change
    {'spec0': _two(), 'valid': [_RNF, _ADD], 'perturbation': 'family:duplicate RenameField', 'evolution': [_RNF, _RNF, _ADD]},
    {'spec0': _two(), 'valid': [_RNM, _ADD], 'perturbation': 'family:duplicate RenameModel', 'evolution': [_RNM, _RNM, _ADD]},
    # a rename chain whose second link is stated twice (the optimiser folds the chain and drops that link: the copy of
    # it that names a model that is gone must still be evaluated), and the same with fields
    {'spec0': _two(), 'valid': [_RNM, _RNM2, _ADD], 'perturbation': 'family:duplicated link of a RenameModel chain',
     'evolution': [_RNM, _RNM2, _RNM2, _ADD]},
    {'spec0': _two(), 'valid': [_RNF, _RNF2, _ADD], 'perturbation': 'family:duplicated link of a RenameField chain',
     'evolution': [_RNF, _RNF2, _RNF2, _ADD]},
    {'spec0': _two(), 'valid': [_RNM, _ADD], 'perturbation': 'family:RenameModel twice from the same old name',
     'evolution': [_RNM, dict(_RNM, new='Delta'), _ADD]},
]


def model_verdict(ctx, rep):
    """what the Lean model of `simulate` says about this evolution, one mutation at a time, on the
    stored signature: None (accepted) or the error kind"""
    if not ctx.driver or 'stored_abs' not in rep:
        return None
    out = ctx.driver.ask([{'op': 'simulate', 'sig': rep['stored_abs'], 'ctx': {'app': 'vapp'},
                           'mutations': [sigs.model_mutation(m) for m in rep['evolution']],
                           'flags': {'rename_app_label_fixed': bool(ctx.variant.get('rename_app_label_fixed'))}}])[0]
    if out and 'ok' in out:
        # the model's own end state of the simulation: the residue is judged from it, not from the real
        # simulation's result (which is part of what is under test)
        rep['model_sim_abs'] = dict(out['ok'], apps=[a for a in out['ok']['apps'] if a['id'] == 'vapp'])
    return out.get('err') if out else None


def judge(ctx, rep):
    short = {k: rep[k] for k in ('spec0', 'valid', 'perturbation', 'evolution', 'message')}
    if rep.get('valid_only_after_optimisation') and \
            not optrig.model_explains_optimiser(ctx, rep['spec0'], rep['evolution']):
        # finding F29 is about what the optimiser is known to do (its Lean transliteration): when the real one does
        # something else to this evolution, F29 does not explain why an invalid evolution got through
        rep['valid_only_after_optimisation'] = False
        rep['problems'].append('the upgrade was executed although the evolution is invalid one mutation at a time '
                               '(and the optimiser did not treat it the way its model does)')
    if rep.get('gate_passed') and not rep.get('dropped_by_changed_models_filter') and \
            not rep.get('valid_only_after_optimisation'):
        # the gate let the evolver start: the model of the simulation (C12_pre_* theorems) must accept the
        # evolution too — a signature-equal result is not enough (a missing initial value is not in it)
        err = model_verdict(ctx, rep)
        if err:
            rep['problems'].append('the upgrade was executed although the evolution is invalid one mutation at a '
                                   'time (%s)' % err)
        # ... and the model of the difference (C05's diff model, with the default tables read from the source)
        # must see no residue either: the real Diff is the thing under test here, not the judge
        if rep.get('reaches_target') and ctx.driver and 'sim_abs' in rep:
            from .c05 import empty
            sim_abs = rep.get('model_sim_abs', rep['sim_abs'])
            outs = ctx.driver.ask([{'op': 'diff', 'old': sim_abs, 'new': rep['target_abs']},
                                   {'op': 'diff', 'old': rep['target_abs'], 'new': sim_abs}])
            for o in outs:
                d = (o or {}).get('diff')
                if d is not None and not empty(d):
                    rep['problems'].append('the upgrade was executed although the simulated signature differs from '
                                           'the models (difference seen by the diff model: %s)' % json.dumps(d)[:200])
                    break
    for p in rep['problems']:
        ctx.fail(None, p, short)
    if rep.get('dropped_by_changed_models_filter'):
        ctx.count('gate:executed_after_filter')
        ctx.fail(FINDING_FILTER, 'an evolution with a mutation on a missing/unchanged model was executed: the '
                 'mutation was dropped by the changed-models filter instead of being evaluated', short)
    if rep.get('valid_only_after_optimisation'):
        ctx.count('gate:executed_after_optimisation')
        ctx.fail(FINDING_OPT_VALID, 'an evolution that is rejected one mutation at a time was executed because '
                 'the optimiser rewrote it before it was simulated', short)
    if rep.get('crash_instead_of_rejection') and not rep['problems']:
        ctx.count('gate:crash_without_writes')
        # finding F25 only when the evolution really is one the simulation rejects
        if rep.get('sim_rejects'):
            ctx.fail(FINDING_CRASH, 'rejected with %s raised from mutate() instead of an evolution error '
                     '(database untouched)' % rep['error_type'], short)
        elif rep.get('pipeline_crash') == rep['error_type']:
            ctx.fail(FINDING_OPT_CRASH, 'the mutator pipeline crashes with %s on a sequence that is valid one '
                     'mutation at a time (database untouched)' % rep['error_type'], short)
        else:
            ctx.fail(None, 'the command crashed with %s on an evolution the simulation accepts'
                     % rep['error_type'], short)


def dual_package_probe(ctx):
    """an app that ships both an `evolutions` and a `migrations` package and is tracked by evolutions (no hand-over yet),
    with a pending evolution that does not reach the models (tools/vlib/c12_worker.py, own process: the migrations
    package has to be on disk before Django starts): the command refuses and touches nothing"""
    import os
    import subprocess
    import sys
    import tempfile
    here = os.path.dirname(os.path.dirname(os.path.abspath(__file__)))
    fd, out = tempfile.mkstemp(prefix='devo-c12-', suffix='.json')
    os.close(fd)
    try:
        p = subprocess.run([sys.executable, '-B', os.path.join(here, 'c12_worker.py'), out],
                           stdout=subprocess.PIPE, stderr=subprocess.STDOUT, timeout=max(60, ctx.time_left()))
        if p.returncode != 0:
            raise RuntimeError('C12 worker failed: %s' % p.stdout.decode()[-600:])
        r = json.load(open(out))
    finally:
        if os.path.exists(out):
            os.unlink(out)
    rep = {'scenario': 'app with an evolutions and a migrations package, pending evolution that does not reach the models',
           'observed': r}
    ctx.count('dual_package_probe:%s' % r['outcome'])
    ctx.case({'scenario': rep['scenario'], 'outcome': r['outcome']}, nontrivial=True, sample_cap=1)
    if r['baseline'] != 'ok':
        ctx.fail(None, 'the app with both packages cannot be installed: %s' % r['baseline'], rep)
        return
    if r['stored_upgrade_method'] != 'evolutions':
        ctx.fail(None, 'an app that ships evolutions and migrations and was never handed over is stored with upgrade '
                 'method %r' % r['stored_upgrade_method'], rep)
    if r['outcome'] == 'ok':
        ctx.fail(None, 'an evolution that does not reach the models of an app with both packages was %s'
                 % ('executed: %s changed' % r['changed'] if r['changed'] else 'reported as success although the models differ'), rep)
    elif r['error_type'] != 'CommandError':
        ctx.fail(None, 'the command crashed with %s instead of refusing' % r['error_type'], rep)
    elif r['changed']:
        ctx.fail(None, 'refused, but the database changed: %s' % r['changed'], rep)


def run(ctx):
    evorig.setup()
    quick = ctx.tier == 'quick'
    ctx.rule = ('valid generated evolutions (1-4 mutations over generated models) perturbed by drop / duplicate / '
                'reorder / rename / attribute change / removed initial / retarget, run through the real '
                '`evolve --execute --noinput` on a SQLite database at V0; non-trivial = the perturbation changed the '
                'mutation list; plus simulate correspondence on valid and rejected sequences')
    ctx.assumptions += ['`can_simulate = False` (raw SQL mutations without an update function) bypasses the residual '
                        'check by design; the theorem states it and the generator does not use SQLMutation here']
    # 1. simulate correspondence (valid + rejected)
    cases = simcorr.gen_cases(ctx, 300 if quick else 5000, with_invalid=True)
    simcorr.check_cases(ctx, cases)
    for spec, sig, muts, final in cases:
        ctx.case({'simulate': [sigs.model_mutation(m) for m in muts]}, nontrivial=bool(muts), sample_cap=2)
    dual_package_probe(ctx)
    # 2. the gate, on the real command
    n = 90 if quick else 1500
    done = 0
    tries = 0
    while done < n and tries < 4 * n and ctx.time_left() > 20:
        tries += 1
        rep = one_case(ctx, ctx.rng)
        if rep is None:
            continue
        done += 1
        ctx.case({'perturbation': rep['perturbation'], 'evolution': [sigs.model_mutation(m) for m in rep['evolution']]},
                 nontrivial=rep['perturbation'] != 'none', sample_cap=8)
        ctx.count('perturb:' + rep['perturbation'])
        ctx.count('gate:' + ('rejected' if rep['outcome'] == 'error' else 'executed'))
        judge(ctx, rep)
    for w in FAMILY:
        rep = run_case(w, prepared=False)
        ctx.case({'perturbation': w['perturbation'], 'evolution': [sigs.model_mutation(m) for m in w['evolution']]},
                 nontrivial=True, sample_cap=8)
        ctx.count('perturb:family')
        ctx.count('gate:' + ('rejected' if rep['outcome'] == 'error' else 'executed'))
        judge(ctx, rep)
    for w in WITNESSES:
        rep = run_case(w, prepared=False)
        ctx.variant[w['perturbation']] = {k: rep.get(k) for k in ('outcome', 'gate_passed', 'error_type')}
        judge(ctx, rep)


def replay(ctx, obj):
    r = obj.get('replay', obj)
    if isinstance(r, dict) and str(r.get('scenario', '')).startswith('app with an evolutions and a migrations package'):
        class _C(object):
            failures = []
            def count(self, *a, **k): pass
            def case(self, *a, **k): pass
            def time_left(self): return 300
            def fail(self, finding, what, rep): self.failures.append(what)
        c = _C()
        dual_package_probe(c)
        for w in c.failures:
            print(w[:400])
        return 1 if c.failures else 0
    evorig.setup()
    rep = run_case(r, prepared=False)
    print('outcome=%s writes=%s problems=%s message=%s' % (rep['outcome'], rep['writes'], rep['problems'], rep['message']))
    return 1 if rep['problems'] else 0
