"""C04 — all upgrade paths converge: fresh install, stepwise, direct.

Lean: DEvo/Props/C04.lean (bookkeeping convergence and the no-op second run over the C08 model).
Tie/oracle: generated linear histories V0..Vn of one app (each step a generated evolution of
1-3 mutations stored in the app's SEQUENCE), every start point i, paths {fresh, direct,
stepwise}, driven through Evolver.evolve(), `evolve --execute` and the replaced `migrate`
command; final schema, preserved rows, recorded labels, stored-vs-computed signature, and a
second run that must report nothing required and issue no write.
"""
import random

import json

from .. import dbrig, evocases, evorig, optrig, sigs
from .c03 import initial_rollup, name_reuse, touches_renamed_model  # noqa
from .c11 import dangling

F_OPT = 'F20'
F_TABLE = 'F1'
F_NOOP = 'F53'


def gen_history(rng, n):
    """V0 spec and n evolutions; returns (specs [V0..Vn], evolutions [[mut json]...]) or None"""
    spec0 = sigs.gen_spec(rng, 'vapp', with_meta=False, with_rel=rng.random() < 0.5)
    models = dbrig.build_models(spec0)
    sig = dbrig.sig_from_models(models)
    specs = [spec0]
    evos = []
    for _ in range(n):
        muts, final = sigs.gen_sequence(rng, sig, 'vapp', rng.randint(1, 3),
                                        kinds=['AddField'] * 4 + ['ChangeField'] * 3 + ['DeleteField'] * 2 +
                                        ['RenameField', 'DeleteModel'])
        if final is None or not muts or dangling(final, set()):
            return None
        # a relation must never name a model that is already gone, not even between two mutations of one
        # evolution (the field has to go before its target does): such an evolution cannot be executed in any
        # way, which is not what this property is about
        if any(dangling(sigs.real_simulate(sig, 'vapp', [sigs.real_mutation(m) for m in muts[:k]])[1], set())
               for k in range(1, len(muts))):
            return None
        if any(m['t'] == 'ChangeField' and any(a in ('db_table', 'db_index', 'unique') for a, _ in m['attrs'])
               for m in muts):
            return None      # index bookkeeping findings (C01 F18) are not what this property is about
        spec = dbrig.spec_from_sig(final)
        spec['apps'] = [a for a in spec['apps'] if a['id'] == 'vapp']
        specs.append(spec)
        evos.append(muts)
        sig = final
    return specs, evos


def scripted_history():
    """V0 (Alpha, Beta) -e1-> AddField -e2-> DeleteModel Beta -e3-> ChangeField: a model disappears in the
    middle of the history"""
    def fld(name, t, **attrs):
        return {'name': name, 'type': t, 'attrs': attrs, 'related': None}

    def mdl(name, fields):
        return {'name': name, 'table': 'vapp_%s' % name.lower(), 'unique_together': [], 'index_together': [],
                'indexes': [], 'constraints': [], 'fields': [fld('id', 'AutoField', primary_key=True)] + fields}
    spec0 = {'apps': [{'id': 'vapp', 'models': [mdl('Alpha', [fld('a', 'IntegerField')]),
                                                 mdl('Beta', [fld('b', 'CharField', max_length=10)])]}]}
    evos = [[{'t': 'AddField', 'model': 'Alpha', 'field': 'c', 'ftype': 'IntegerField', 'initial': '3', 'attrs': []}],
            [{'t': 'DeleteModel', 'model': 'Beta'}],
            [{'t': 'ChangeField', 'model': 'Alpha', 'field': 'a', 'ftype': None, 'initial': None, 'attrs': [['null', 'true']]}]]
    sig = dbrig.sig_from_models(dbrig.build_models(spec0))
    specs = [spec0]
    for e in evos:
        r = sigs.real_simulate(sig, 'vapp', [sigs.real_mutation(m) for m in e])
        sig = r[1]
        sp = dbrig.spec_from_sig(sig)
        sp['apps'] = [a for a in sp['apps'] if a['id'] == 'vapp']
        specs.append(sp)
    return specs, evos


def signature_only_history():
    """V0 -e1-> a rename that keeps the column (no SQL at all) -e2-> a change of the renamed field -e3-> an
    unrelated new column: a version step may consist of signature changes only"""
    def fld(name, t, **attrs):
        return {'name': name, 'type': t, 'attrs': attrs, 'related': None}

    def mdl(name, fields):
        return {'name': name, 'table': 'vapp_%s' % name.lower(), 'unique_together': [], 'index_together': [],
                'indexes': [], 'constraints': [], 'fields': [fld('id', 'AutoField', primary_key=True)] + fields}
    spec0 = {'apps': [{'id': 'vapp', 'models': [mdl('Item', [fld('qty', 'IntegerField'), fld('name', 'CharField', max_length=10)])]}]}
    evos = [[{'t': 'RenameField', 'model': 'Item', 'old': 'qty', 'new': 'quantity', 'db_column': 'qty', 'db_table': None}],
            [{'t': 'ChangeField', 'model': 'Item', 'field': 'quantity', 'ftype': None, 'initial': None,
              'attrs': [['null', 'true']]}],
            [{'t': 'AddField', 'model': 'Item', 'field': 'note', 'ftype': 'CharField', 'initial': None,
              'attrs': [['max_length', '20'], ['null', 'true']]}]]
    sig = dbrig.sig_from_models(dbrig.build_models(spec0))
    specs = [spec0]
    for e in evos:
        sig = sigs.real_simulate(sig, 'vapp', [sigs.real_mutation(m) for m in e])[1]
        sp = dbrig.spec_from_sig(sig)
        sp['apps'] = [a for a in sp['apps'] if a['id'] == 'vapp']
        specs.append(sp)
    return specs, evos


def readd_history():
    """a column dropped in one version and a column of the same name (another type) added back in the next,
    then a change of an unrelated field: a direct upgrade carries the drop and the re-add in one batch"""
    def fld(name, t, **attrs):
        return {'name': name, 'type': t, 'attrs': attrs, 'related': None}

    def mdl(name, fields):
        return {'name': name, 'table': 'vapp_%s' % name.lower(), 'unique_together': [], 'index_together': [],
                'indexes': [], 'constraints': [], 'fields': [fld('id', 'AutoField', primary_key=True)] + fields}
    spec0 = {'apps': [{'id': 'vapp', 'models': [mdl('Item', [fld('name', 'CharField', max_length=10),
                                                            fld('code', 'CharField', max_length=10)])]}]}
    evos = [[{'t': 'DeleteField', 'model': 'Item', 'field': 'code'}],
            [{'t': 'AddField', 'model': 'Item', 'field': 'code', 'ftype': 'IntegerField', 'initial': None,
              'attrs': [['null', 'true']]}],
            [{'t': 'ChangeField', 'model': 'Item', 'field': 'name', 'ftype': None, 'initial': None,
              'attrs': [['max_length', '20']]}]]
    sig = dbrig.sig_from_models(dbrig.build_models(spec0))
    specs = [spec0]
    for e in evos:
        sig = sigs.real_simulate(sig, 'vapp', [sigs.real_mutation(m) for m in e])[1]
        sp = dbrig.spec_from_sig(sig)
        sp['apps'] = [a for a in sp['apps'] if a['id'] == 'vapp']
        specs.append(sp)
    return specs, evos


def rename_model_history():
    """a model that refers to itself, renamed (its table kept) in the first version, ordinary changes of another model afterwards: the
    rename stays in the app's history for ever, and an up-to-date database must still need nothing"""
    def fld(name, t, related=None, **attrs):
        return {'name': name, 'type': t, 'attrs': attrs, 'related': related}

    def mdl(name, fields):
        return {'name': name, 'table': 'vapp_%s' % name.lower(), 'unique_together': [], 'index_together': [],
                'indexes': [], 'constraints': [], 'fields': [fld('id', 'AutoField', primary_key=True)] + fields}
    spec0 = {'apps': [{'id': 'vapp', 'models': [mdl('Alpha', [fld('a', 'IntegerField'),
                                                               fld('parent', 'ForeignKey', 'vapp.Alpha', null=True)]),
                                                 mdl('Beta', [fld('b', 'CharField', max_length=10)])]}]}
    evos = [[{'t': 'RenameModel', 'old': 'Alpha', 'new': 'Gamma', 'db_table': 'vapp_alpha'}],
            [{'t': 'AddField', 'model': 'Beta', 'field': 'y', 'ftype': 'IntegerField', 'initial': None,
              'attrs': [['null', 'true']]}],
            [{'t': 'ChangeField', 'model': 'Beta', 'field': 'b', 'ftype': None, 'initial': None,
              'attrs': [['max_length', '20']]}]]
    sig = dbrig.sig_from_models(dbrig.build_models(spec0))
    specs = [spec0]
    for e in evos:
        sig = sigs.real_simulate(sig, 'vapp', [sigs.real_mutation(m) for m in e])[1]
        sp = dbrig.spec_from_sig(sig)
        sp['apps'] = [a for a in sp['apps'] if a['id'] == 'vapp']
        specs.append(sp)
    return specs, evos


def reuse_after_rename_history():
    """a field changed and renamed away in one version, its name used by a new field in the next, and that new field
    changed in a third: a direct upgrade optimises all of it in one batch"""
    def fld(name, t, **attrs):
        return {'name': name, 'type': t, 'attrs': attrs, 'related': None}

    def mdl(name, fields):
        return {'name': name, 'table': 'vapp_%s' % name.lower(), 'unique_together': [], 'index_together': [],
                'indexes': [], 'constraints': [], 'fields': [fld('id', 'AutoField', primary_key=True)] + fields}
    spec0 = {'apps': [{'id': 'vapp', 'models': [mdl('Book', [fld('blurb', 'CharField', max_length=30, null=True)])]}]}
    cf = lambda field, n: {'t': 'ChangeField', 'model': 'Book', 'field': field, 'ftype': None, 'initial': None,
                           'attrs': [['max_length', str(n)]]}
    evos = [[cf('blurb', 40), {'t': 'RenameField', 'model': 'Book', 'old': 'blurb', 'new': 'summary', 'db_column': None,
                              'db_table': None}],
            [{'t': 'AddField', 'model': 'Book', 'field': 'blurb', 'ftype': 'CharField', 'initial': None,
              'attrs': [['max_length', '10'], ['null', 'true']]}],
            [cf('blurb', 15)]]
    sig = dbrig.sig_from_models(dbrig.build_models(spec0))
    specs = [spec0]
    for e in evos:
        sig = sigs.real_simulate(sig, 'vapp', [sigs.real_mutation(m) for m in e])[1]
        sp = dbrig.spec_from_sig(sig)
        sp['apps'] = [a for a in sp['apps'] if a['id'] == 'vapp']
        specs.append(sp)
    return specs, evos


def twice_changed_history():
    """the same attribute of one field raised in two different versions, an unrelated change in between: a direct
    upgrade has both changes in one batch"""
    def fld(name, t, **attrs):
        return {'name': name, 'type': t, 'attrs': attrs, 'related': None}

    def mdl(name, fields):
        return {'name': name, 'table': 'vapp_%s' % name.lower(), 'unique_together': [], 'index_together': [],
                'indexes': [], 'constraints': [], 'fields': [fld('id', 'AutoField', primary_key=True)] + fields}
    spec0 = {'apps': [{'id': 'vapp', 'models': [mdl('Book', [fld('title', 'CharField', max_length=40)])]}]}
    cf = lambda n: {'t': 'ChangeField', 'model': 'Book', 'field': 'title', 'ftype': None, 'initial': None,
                    'attrs': [['max_length', str(n)]]}
    evos = [[cf(80)],
            [{'t': 'AddField', 'model': 'Book', 'field': 'isbn', 'ftype': 'CharField', 'initial': None,
              'attrs': [['max_length', '13'], ['null', 'true']]}],
            [cf(200)]]
    sig = dbrig.sig_from_models(dbrig.build_models(spec0))
    specs = [spec0]
    for e in evos:
        sig = sigs.real_simulate(sig, 'vapp', [sigs.real_mutation(m) for m in e])[1]
        sp = dbrig.spec_from_sig(sig)
        sp['apps'] = [a for a in sp['apps'] if a['id'] == 'vapp']
        specs.append(sp)
    return specs, evos


def together_with_relation_history():
    """a unique_together entry that contains a foreign key (field name and column differ) set in one version and
    replaced in the next: the index of the old entry goes wherever the upgrade started"""
    def fld(name, t, related=None, **attrs):
        return {'name': name, 'type': t, 'attrs': attrs, 'related': related}

    def mdl(name, fields):
        return {'name': name, 'table': 'vapp_%s' % name.lower(), 'unique_together': [], 'index_together': [],
                'indexes': [], 'constraints': [], 'fields': [fld('id', 'AutoField', primary_key=True)] + fields}
    spec0 = {'apps': [{'id': 'vapp', 'models': [
        mdl('Author', [fld('name', 'CharField', max_length=10, null=True)]),
        mdl('Book', [fld('title', 'CharField', max_length=20, null=True), fld('isbn', 'IntegerField', null=True),
                     fld('author', 'ForeignKey', 'vapp.Author', null=True),
                     fld('code', 'IntegerField', null=True, db_column='code_col')])]}]}
    cm = lambda val: {'t': 'ChangeMeta', 'model': 'Book', 'prop': 'unique_together', 'py_value': val}
    evos = [[{'t': 'AddField', 'model': 'Author', 'field': 'born', 'ftype': 'IntegerField', 'initial': None,
              'attrs': [['null', 'true']]}],
            [cm([('title', 'author'), ('isbn', 'code')])],
            [cm([('title', 'isbn')])]]
    sig = dbrig.sig_from_models(dbrig.build_models(spec0))
    specs = [spec0]
    for e in evos:
        sig = sigs.real_simulate(sig, 'vapp', [sigs.real_mutation(m) for m in e])[1]
        sp = dbrig.spec_from_sig(sig)
        sp['apps'] = [a for a in sp['apps'] if a['id'] == 'vapp']
        specs.append(sp)
    return specs, evos


def rename_beside_together_history():
    """a model with index_together (and, in the second variant, unique_together): a field that is in neither is
    renamed, and a later version drops the entries - the versions' models are written down here, not simulated"""
    def fld(name, t, related=None, **attrs):
        return {'name': name, 'type': t, 'attrs': attrs, 'related': related}

    def book(third, it, ut):
        return {'apps': [{'id': 'vapp', 'models': [
            {'name': 'Book', 'table': 'vapp_book', 'unique_together': ut, 'index_together': it, 'indexes': [],
             'constraints': [], 'fields': [fld('id', 'AutoField', primary_key=True),
                                           fld('title', 'CharField', max_length=20, null=True),
                                           fld('year', 'IntegerField', null=True),
                                           fld('shelf', 'IntegerField', null=True),
                                           fld(third, 'CharField', max_length=20, null=True)]}]}]}
    it, ut = [['title', 'year']], [['year', 'shelf']]
    specs = [book('author_name', it, ut), book('writer', it, ut), book('writer', [], ut), book('writer', [], [])]
    evos = [[{'t': 'RenameField', 'model': 'Book', 'old': 'author_name', 'new': 'writer', 'db_column': None,
              'db_table': None}],
            [{'t': 'ChangeMeta', 'model': 'Book', 'prop': 'index_together', 'py_value': []}],
            [{'t': 'ChangeMeta', 'model': 'Book', 'prop': 'unique_together', 'py_value': []}]]
    return specs, evos


def together_readded_history():
    """an index_together / unique_together entry is dropped by one version and comes back in a later one: a database
    upgraded across both in one run ends with the index, like every other path"""
    def fld(name, t, related=None, **attrs):
        return {'name': name, 'type': t, 'attrs': attrs, 'related': related}

    def book(it, ut):
        return {'apps': [{'id': 'vapp', 'models': [
            {'name': 'Book', 'table': 'vapp_book', 'unique_together': ut, 'index_together': it, 'indexes': [],
             'constraints': [], 'fields': [fld('id', 'AutoField', primary_key=True),
                                           fld('title', 'CharField', max_length=20, null=True),
                                           fld('year', 'IntegerField', null=True),
                                           fld('pages', 'IntegerField', null=True)]}]}]}
    ty, tp = ['title', 'year'], ['title', 'pages']
    specs = [book([], []), book([ty], [ty]), book([tp], [tp]), book([tp, ty], [tp]), book([tp, ty], [tp, ty])]
    cm = lambda prop, val: {'t': 'ChangeMeta', 'model': 'Book', 'prop': prop, 'py_value': [tuple(x) for x in val]}
    evos = [[cm('index_together', [ty]), cm('unique_together', [ty])],
            [cm('index_together', [tp]), cm('unique_together', [tp])],
            [cm('index_together', [tp, ty])],
            [cm('unique_together', [tp, ty])]]
    return specs, evos


def meta_indexes_twice_history():
    """Meta.indexes of one model grows in two consecutive versions (each evolution carries the complete list): a
    direct upgrade across both ends with the last list, like every other path; the last named index covers a column that
    already has its own db_index index (two indexes over one column are two indexes)"""
    def fld(name, t, related=None, **attrs):
        return {'name': name, 'type': t, 'attrs': attrs, 'related': related}

    def book(ix):
        return {'apps': [{'id': 'vapp', 'models': [
            {'name': 'Book', 'table': 'vapp_book', 'unique_together': [], 'index_together': [], 'indexes': ix,
             'constraints': [], 'fields': [fld('id', 'AutoField', primary_key=True),
                                           fld('title', 'CharField', max_length=20, null=True),
                                           fld('year', 'IntegerField', null=True),
                                           fld('pages', 'IntegerField', null=True, db_index=True)]}]}]}
    t_ix = {'fields': ['title'], 'name': 'vapp_book_title_idx'}
    y_ix = {'fields': ['year'], 'name': 'vapp_book_year_idx'}
    p_ix = {'fields': ['pages'], 'name': 'vapp_book_pages_idx'}
    specs = [book([]), book([t_ix]), book([t_ix, y_ix]), book([y_ix, p_ix])]
    cm = lambda *ix: {'t': 'ChangeMeta', 'model': 'Book', 'prop': 'indexes', 'py_value': [dict(x) for x in ix]}
    evos = [[cm(t_ix)], [cm(t_ix, y_ix)], [cm(y_ix, p_ix)]]
    return specs, evos


def new_model_history():
    """a model that first appears in a later version (with a foreign key and an indexed column: its indexes are
    deferred SQL of the model creation), next to ordinary evolutions of an older model"""
    def fld(name, t, related=None, **attrs):
        return {'name': name, 'type': t, 'attrs': attrs, 'related': related}

    def mdl(name, fields):
        return {'name': name, 'table': 'vapp_%s' % name.lower(), 'unique_together': [], 'index_together': [],
                'indexes': [], 'constraints': [], 'fields': [fld('id', 'AutoField', primary_key=True)] + fields}
    cust0 = [fld('name', 'CharField', max_length=20, null=True)]
    cust1 = cust0 + [fld('phone', 'CharField', max_length=20, null=True)]
    cust2 = cust1 + [fld('notes', 'CharField', max_length=50, null=True)]
    # (the late-arriving models carry a table comment: part of the signature, ignored by SQLite)
    order = mdl('Order', [fld('customer', 'ForeignKey', 'vapp.Customer', null=True),
                          fld('reference', 'CharField', max_length=12, null=True, db_index=True),
                          fld('lines', 'ManyToManyField', 'vapp.Customer')])
    invoice = mdl('Invoice', [fld('order', 'ForeignKey', 'vapp.Order', null=True)])
    order['comment'] = 'orders as received'
    invoice['comment'] = 'one per order'
    specs = [{'apps': [{'id': 'vapp', 'models': [mdl('Customer', cust0)]}]},
             {'apps': [{'id': 'vapp', 'models': [mdl('Customer', cust1), order]}]},
             {'apps': [{'id': 'vapp', 'models': [mdl('Customer', cust2), order]}]},
             {'apps': [{'id': 'vapp', 'models': [mdl('Customer', cust2), order, invoice]}]}]
    add = lambda f, n: {'t': 'AddField', 'model': 'Customer', 'field': f, 'ftype': 'CharField', 'initial': None,
                        'attrs': [['max_length', str(n)], ['null', 'true']]}
    evos = [[add('phone', 20)], [add('notes', 50)], []]
    return specs, evos


def two_app_history():
    """two apps whose evolutions carry the same labels (labels are only unique within an app's SEQUENCE) and
    become pending in different versions: V1 ships vapp's `add_fields`, V2 ships wapp's `add_fields`, V3 ships
    `cleanup` of both"""
    def fld(name, t, **attrs):
        return {'name': name, 'type': t, 'attrs': attrs, 'related': None}

    def mdl(app, name, fields):
        return {'name': name, 'table': '%s_%s' % (app, name.lower()), 'unique_together': [], 'index_together': [],
                'indexes': [], 'constraints': [], 'fields': [fld('id', 'AutoField', primary_key=True)] + fields}

    def project(alpha, wal):
        return {'apps': [{'id': 'vapp', 'models': [mdl('vapp', 'Alpha', alpha)]},
                         {'id': 'wapp', 'models': [mdl('wapp', 'Wal', wal)]}]}
    a0 = [fld('a', 'IntegerField', null=True), fld('old', 'IntegerField', null=True)]
    w0 = [fld('w', 'CharField', max_length=10, null=True), fld('old', 'IntegerField', null=True)]
    a1 = a0 + [fld('email', 'CharField', max_length=30, null=True)]
    w1 = w0 + [fld('pages', 'IntegerField')]
    specs = [project(a0, w0), project(a1, w0), project(a1, w1), project(a1[:1] + a1[2:], w1[:1] + w1[2:])]
    evos = [
        {'app': 'vapp', 'label': 'add_fields', 'mutations': [
            {'t': 'AddField', 'model': 'Alpha', 'field': 'email', 'ftype': 'CharField', 'initial': None,
             'attrs': [['max_length', '30'], ['null', 'true']]}]},
        {'app': 'wapp', 'label': 'add_fields', 'mutations': [
            {'t': 'AddField', 'model': 'Wal', 'field': 'pages', 'ftype': 'IntegerField', 'initial': '1', 'attrs': []}]},
        [{'app': 'vapp', 'label': 'cleanup', 'mutations': [{'t': 'DeleteField', 'model': 'Alpha', 'field': 'old'}]},
         {'app': 'wapp', 'label': 'cleanup', 'mutations': [{'t': 'DeleteField', 'model': 'Wal', 'field': 'old'}]}],
    ]
    return specs, evos


def touched_tables(specs, muts, schema):
    """tables that some mutation of the segment can have altered: the tables of every model a mutation names (under
    any name the model has in any version) and their many-to-many tables.  Every other table - in particular the
    tables of models that are merely CREATED along the way - has no excuse to differ between two paths."""
    names = set()
    for m in muts:
        if m['t'] == 'ChangeMeta' and m.get('prop') in ('unique_together', 'index_together', 'indexes'):
            continue        # CREATE / DROP INDEX only: such a mutation rebuilds nothing
        for k in ('model', 'old', 'new'):
            if m.get(k) and m['t'] != 'RenameField' or (k == 'model' and m.get(k)):
                names.add(m[k])
    tables = set()
    for sp in specs:
        for a in sp['apps']:
            for md in a['models']:
                if md['name'] in names:
                    tables.add(md['table'])
    return {t: 1 for t in schema if any(t == x or t.startswith(x + '_') for x in tables)}


def parts(i, e):
    """the (app, label, mutations) evolutions that version i+1 adds"""
    if isinstance(e, dict):
        return [(e['app'], e['label'], e['mutations'])]
    if e and isinstance(e[0], dict) and 'app' in e[0]:
        return [(x['app'], x['label'], x['mutations']) for x in e]
    return [('vapp', 'e%d' % (i + 1), e)]


def muts_of(e):
    return [m for _, _, ms in parts(0, e) for m in ms]


SCRIPTED = [rename_beside_together_history, together_readded_history, meta_indexes_twice_history, scripted_history, two_app_history, signature_only_history, new_model_history, readd_history, rename_model_history, reuse_after_rename_history, twice_changed_history,
            together_with_relation_history]


def install(specs, evos, version):
    evorig.install_models(specs[version])
    per = {}
    for i in range(version):
        for app, label, muts in parts(i, evos[i]):
            per.setdefault(app, []).append({'label': label, 'mutations': [sigs.real_mutation(m) for m in muts]})
    for app in ('vapp', 'wapp'):
        evorig.set_evolutions(app, per.get(app, []))


def drive(how):
    """one upgrade run through the chosen front end; returns (ok, error text)"""
    if how == 'evolver':
        r = evorig.run_evolver()
        return r[0] == 'ok', None if r[0] == 'ok' else '%s: %s' % (type(r[1]).__name__, str(r[1])[:150])
    if how == 'evolve':
        r = evorig.run_command(execute=True, interactive=False)
        return r[0] == 'ok', None if r[0] == 'ok' else '%s: %s' % (type(r[1]).__name__, str(r[1])[:150])
    import io
    from django.core.management import call_command
    evorig._hygiene()
    import contextlib
    try:
        with contextlib.redirect_stdout(io.StringIO()), contextlib.redirect_stderr(io.StringIO()):
            call_command('migrate', interactive=False, verbosity=0)
        return True, None
    except BaseException as e:
        if isinstance(e, KeyboardInterrupt):
            raise
        return False, '%s: %s' % (type(e).__name__, str(e)[:150])


def final_state():
    from django_evolution.diff import Diff
    from django_evolution.models import Version
    from django_evolution.signature import ProjectSignature
    bk = evorig.bookkeeping()
    stored = Version.objects.current_version().signature
    target = ProjectSignature.from_database('default')
    d = Diff(stored, target)
    mine = ('vapp_', 'wapp_')
    return {'schema': {t: v for t, v in dbrig.abs_schema().items() if t.startswith(mine)},
            'rows': {t: v for t, v in dbrig.abs_rows().items() if t.startswith(mine)},
            'labels': sorted((e[1] if e[0] == 'vapp' else '%s:%s' % (e[0], e[1])) for e in bk['evolutions']
                             if e[0] in ('vapp', 'wapp')),
            'sig_matches_models': d.is_empty(ignore_apps=True) and Diff(target, stored).is_empty(ignore_apps=True)}


def second_run():
    from django_evolution.evolve import Evolver
    evorig._hygiene()
    tr = evorig.Trace()
    with tr.recording():
        try:
            ev = Evolver()
            ev.queue_evolve_all_apps()
            required = ev.get_evolution_required()
            diff_empty = ev.diff_evolutions().is_empty(ignore_apps=True)
        except Exception as e:
            # a further run that cannot even be prepared is certainly not "nothing required"
            return 'raises %s: %s' % (type(e).__name__, str(e)[:80]), False, tr.write_statements()
    return required, diff_empty, tr.write_statements()


def deleted_target_needed(err, seg):
    import re
    m = re.search(r'model signature for "vapp\.(\w+)"', err or '')
    return bool(m) and any(x['t'] == 'DeleteModel' and x['model'] == m.group(1) for x in seg) and \
        sum(1 for x in seg if x['t'] in ('DeleteModel', 'DeleteField')) >= 2


def opt_explains(ctx, spec, seg):
    """a batched-only difference is put down to the optimiser findings of C03 only where the batch has their
    shape (a name that changes existence twice, a renamed model), the optimiser does what its Lean model does,
    and by the model that changes the outcome"""
    if not (name_reuse(seg) or touches_renamed_model(seg)):
        return False
    single = all(a['id'] == 'vapp' for a in spec['apps']) and len(spec['apps']) == 1
    if not single:
        return True        # multi-app histories are outside the optimiser rig
    return optrig.model_explains_optimiser(ctx, spec, seg) and optrig.model_predicts_difference(ctx, spec, seg)


def split_correspondence(ctx, spec0, evos):
    """the signature reached by simulating a history one evolution per run and all at once: the Lean
    `stepwise`/`direct` of C04_signature_stepwise_eq_direct next to the real mutation classes"""
    sig0 = dbrig.sig_from_models(dbrig.build_models(spec0))
    flags = {'rename_app_label_fixed': bool(ctx.variant.get('rename_app_label_fixed'))}
    flat = [m for e in evos for m in e]

    def lean(sig_json, muts):
        out = ctx.driver.ask([{'op': 'simulate', 'sig': sig_json, 'ctx': {'app': 'vapp'},
                               'mutations': [sigs.model_mutation(m) for m in muts], 'flags': flags}])[0]
        return out
    # the model
    md = lean(sigs.abs_sig(sig0), flat) if ctx.driver else None
    ms = None
    if ctx.driver:
        cur = {'ok': sigs.abs_sig(sig0)}
        for e in evos:
            cur = lean(cur['ok'], e)
            if 'ok' not in cur:
                break
        ms = cur
    # the code
    rd = sigs.real_simulate(sig0, 'vapp', [sigs.real_mutation(m) for m in flat])
    cur = ('ok', sig0, 'vapp')
    for e in evos:
        cur = sigs.real_simulate(cur[1], 'vapp', [sigs.real_mutation(m) for m in e])
        if cur[0] != 'ok':
            break
    rs = cur

    def norm_real(r):
        return {'ok': sigs.norm_sig(sigs.abs_sig(r[1]))} if r[0] == 'ok' else {'err': r[1]}

    def norm_model(o):
        return {'ok': sigs.norm_sig(o['ok'])} if 'ok' in o else {'err': o.get('err')}
    case = {'spec': spec0, 'evolutions': evos}
    if md is not None:
        ctx.corr_case('simulate_direct', norm_model(md) == norm_real(rd), case=case, model=norm_model(md),
                      impl=norm_real(rd))
        ctx.corr_case('simulate_stepwise', norm_model(ms) == norm_real(rs), case=case, model=norm_model(ms),
                      impl=norm_real(rs))
    ctx.count('split:' + ('same' if norm_real(rd) == norm_real(rs) else 'differs'))
    if norm_real(rd) != norm_real(rs):
        ctx.fail(None, 'simulating the history one evolution per run and all in one run gives different signatures',
                 {'kind': 'split', 'specs': [spec0], 'evolutions': evos,
                  'stepwise': norm_real(rs), 'direct': norm_real(rd)})


def run(ctx):
    evorig.setup()
    quick = ctx.tier == 'quick'
    ctx.rule = ('linear histories V0..Vn (n<=3 quick, <=4 thorough) of one app (plus a two-app history whose apps reuse evolution labels), each step a generated evolution of 1-3 '
                'mutations in SEQUENCE; for every start point i: stepwise and direct upgrades with identical initial rows, '
                'and a fresh install of Vn; front ends Evolver.evolve, `evolve --execute`, `migrate`; non-trivial = n>=2')
    nh = (len(SCRIPTED) * 3 + 12) if quick else 150 + len(SCRIPTED) * 3
    done = tries = 0
    opt_w = None
    noop_w = None
    while done < nh and tries < nh * 8 and ctx.time_left() > 40:
        tries += 1
        n = ctx.rng.randint(2, 3 if quick else 4)
        if tries <= len(SCRIPTED) * 3:
            # every scripted history through every front end
            h = SCRIPTED[(tries - 1) // 3]()
            n = 3
        else:
            h = gen_history(ctx.rng, n)
        if h is None:
            continue
        specs, evos = h
        if all(isinstance(e, list) and not (e and 'app' in e[0]) for e in evos):
            split_correspondence(ctx, specs[0], evos)
        how = ['evolver', 'evolve', 'migrate'][(tries - 1) % 3] if tries <= len(SCRIPTED) * 3 else \
            ctx.rng.choice(['evolver', 'evolve', 'migrate'])
        seed = ctx.seed * 613 + tries
        rep = {'specs': specs if tries <= len(SCRIPTED) * 3 else [specs[0]], 'evolutions': evos, 'front_end': how, 'seed': seed}
        flat = [m for e in evos for m in muts_of(e)]
        # fresh install of Vn
        evorig.fresh_databases()
        evorig.clear_evolutions()
        install(specs, evos, n)
        ok, err = drive(how)
        if not ok:
            ctx.count('fresh_failed')
            if tries <= len(SCRIPTED) * 3:
                # the scripted histories are valid by construction: a fresh install of their last version works
                ctx.fail(None, 'a fresh install of the last version of a scripted history fails (%s): %s' % (how, err), rep)
            continue
        fresh = final_state()
        results = {}
        failed = False
        for i in range(n):
            for path in ('stepwise', 'direct'):
                if path == 'direct' and i == n - 1:
                    continue        # identical to stepwise from n-1
                evorig.fresh_databases()
                evorig.clear_evolutions()
                install(specs, evos, i)
                ok, err = drive('evolver')
                if not ok:
                    failed = True
                    break
                dbrig.insert_rows(evorig.install_models(specs[i]), random.Random(seed + i))
                install(specs, evos, i)
                versions = range(i + 1, n + 1) if path == 'stepwise' else [n]
                for v in versions:
                    install(specs, evos, v)
                    ok, err = drive(how)
                    if not ok:
                        break
                if not ok:
                    ctx.count('path_failed:%s' % path)
                    r = dict(rep, start=i, path=path, error=err)
                    seg = [m for e in evos[i:] for m in muts_of(e)]
                    if 'constraint failed' in (err or ''):
                        ctx.count('path_failed:data_violates_new_constraint')   # not a defect: the rows do
                    elif opt_explains(ctx, specs[i], seg) or \
                            any(opt_explains(ctx, specs[k], muts_of(evos[k])) for k in range(i, n)):
                        opt_w = opt_w or r
                    elif 'no such index' in (err or '') or 'DatabaseStateError' in (err or ''):
                        ctx.count('path_failed_known_C01')
                    elif deleted_target_needed(err, seg):
                        # findings F35 (C01) / F42 (C15): a model is deleted in the run in which another mutation still
                        # needs its signature to build the model that refers to it
                        ctx.count('path_failed_known_C01')
                    else:
                        ctx.fail(None, 'upgrading from V%d (%s, %s) fails: %s' % (i, path, how, err), r)
                    continue
                st = final_state()
                results[(i, path)] = st
                req, diff_empty, writes = second_run()
                ctx.case({'n': n, 'start': i, 'path': path, 'front_end': how,
                          'evolutions': [[sigs.model_mutation(m) for m in muts_of(e)] for e in evos]}, nontrivial=n >= 2,
                         sample_cap=4)
                ctx.count('path:%s' % path)
                ctx.count('front_end:%s' % how)
                r = dict(rep, start=i, path=path)
                seg = [m for e in evos[i:] for m in muts_of(e)]
                # batches in which a name changes existence more than once are mis-optimised (C03 finding
                # F20): what the run then leaves behind is attributed to that finding, nothing else is
                excused = (path == 'direct' and (opt_explains(ctx, specs[i], seg) or initial_rollup(seg))) \
                    or any(opt_explains(ctx, specs[k], muts_of(evos[k])) for k in range(i, n))

                def report(what):
                    nonlocal opt_w
                    if excused:
                        ctx.count('excused_by_C03_F20')
                        opt_w = opt_w or dict(r, observed=what)
                    else:
                        ctx.fail(None, what, r)
                if st['labels'] != fresh['labels']:
                    missing = [l for l in fresh['labels'] if l not in st['labels']]
                    # evolutions whose net effect on the models is empty (V_{k-1} and V_k are the same models)
                    # labels of runs whose pending evolutions have, together, no net effect on the models
                    # (V_from and V_to are the same models): one run per version when stepwise, one run i -> n
                    # when direct
                    runs = [(v - 1, v) for v in range(i + 1, n + 1)] if path == 'stepwise' else [(i, n)]
                    empty = ['e%d' % k for a, b in runs if specs[a] == specs[b] for k in range(a + 1, b + 1)]
                    what = ('recorded labels after upgrading from V%d (%s, %s) are %r, fresh install has %r'
                            % (i, path, how, st['labels'], fresh['labels']))
                    if how in ('evolve', 'migrate') and missing and set(missing) <= set(empty) and \
                            set(st['labels']) <= set(fresh['labels']):
                        noop_w = noop_w or dict(r, observed=what)
                    else:
                        ctx.fail(None, what, r)
                if not st['sig_matches_models']:
                    report('after upgrading from V%d (%s) the stored signature differs from the models' % (i, path))
                if req or not diff_empty or writes:
                    report('a second run after upgrading from V%d (%s) is not a no-op: required=%s, writes=%d'
                           % (i, path, req, len(writes)))
                # two indexes over the same columns are two indexes: the same KINDS of indexes in different numbers is a
                # difference, too (a named Meta.indexes entry next to the column's own db_index index)
                from collections import Counter
                for t in fresh['schema']:
                    cf = Counter(json.dumps(ix) for ix in fresh['schema'][t].get('indexes', []))
                    ce = Counter(json.dumps(ix) for ix in (st['schema'].get(t) or {}).get('indexes', []))
                    if set(cf) == set(ce) and cf != ce:
                        k = [x for x in cf if cf[x] != ce[x]][0]
                        report('upgrade from V%d (%s) and fresh install end in different schemas: %s has %d index(es) %s, '
                               'the fresh install %d' % (i, path, t, ce[k], k, cf[k]))
                sd = dbrig.schema_diff(st['schema'], fresh['schema'])
                if sd:
                    from .c01 import classify
                    kinds = classify(st['schema'], fresh['schema'], touched_tables(specs, flat, st['schema']), flat)
                    if all(fid is not None for fid, _ in kinds):
                        ctx.count('schema_differs_known_C01')
                    else:
                        report('upgrade from V%d (%s) and fresh install end in different schemas: %s'
                               % (i, path, [t for f, t in kinds if f is None][0][:160]))
            if failed:
                break
        if failed:
            continue
        done += 1
        # stepwise vs direct from the same start: same schema and same (preserved) rows
        for i in range(n - 1):
            a, b = results.get((i, 'stepwise')), results.get((i, 'direct'))
            if a is None or b is None:
                continue
            seg = [m for e in evos[i:] for m in muts_of(e)]
            r = dict(rep, start=i)
            if a['rows'] != b['rows'] or dbrig.schema_diff(a['schema'], b['schema']):
                ctx.count('stepwise_vs_direct_differ')
                if opt_explains(ctx, specs[i], seg) or initial_rollup(seg):
                    opt_w = opt_w or r
                else:
                    from .c01 import classify
                    kinds = classify(b['schema'], a['schema'], touched_tables(specs, seg, a['schema']), seg)
                    if a['rows'] == b['rows'] and kinds and all(fid is not None for fid, _ in kinds):
                        ctx.count('schema_differs_known_C01')
                    else:
                        ctx.fail(None, 'stepwise and direct upgrades from V%d end differently (%s)'
                                 % (i, 'rows' if a['rows'] != b['rows'] else 'schema'), r)
    if noop_w is not None:
        ctx.fail(F_NOOP, 'the evolve/migrate commands skip a run whose pending evolutions have no net effect, so their '
                 'labels are never recorded: ' + noop_w['observed'], noop_w)
    if opt_w is not None:
        ctx.fail(F_OPT, 'the direct (batched) path differs from the stepwise path for reasons recorded under C03', opt_w)


def replay(ctx, obj):
    """re-run one history along the recorded path and front end, next to a fresh install"""
    evorig.setup()
    r = obj.get('replay', obj)
    if 'evolutions' not in r:
        print('nothing to replay in this file: %r' % list(r))
        return 0
    spec0, evos = r['specs'][0], r['evolutions']
    if r.get('kind') == 'split':
        before = len(ctx.failures) if hasattr(ctx, 'failures') else 0
        split_correspondence(ctx, spec0, evos)
        print('stepwise/direct simulation of the recorded history compared')
        return 1 if (hasattr(ctx, 'failures') and len(ctx.failures) > before) else 0
    sig = dbrig.sig_from_models(dbrig.build_models(spec0))
    specs = [spec0]
    for e in evos:
        if len(r['specs']) == len(evos) + 1:
            specs = r['specs']         # a recorded multi-app history carries every version
            break
        sig = sigs.real_simulate(sig, 'vapp', [sigs.real_mutation(m) for m in e])[1]
        sp = dbrig.spec_from_sig(sig)
        sp['apps'] = [a for a in sp['apps'] if a['id'] == 'vapp']
        specs.append(sp)
    n, how, i, path = len(evos), r.get('front_end', 'evolver'), r.get('start', 0), r.get('path', 'direct')
    evorig.fresh_databases()
    evorig.clear_evolutions()
    install(specs, evos, n)
    print('fresh install:', drive(how))
    fresh = final_state()
    evorig.fresh_databases()
    evorig.clear_evolutions()
    install(specs, evos, i)
    drive('evolver')
    dbrig.insert_rows(evorig.install_models(specs[i]), random.Random(r.get('seed', 0) + i))
    for v in (range(i + 1, n + 1) if path == 'stepwise' else [n]):
        install(specs, evos, v)
        print('-> V%d (%s):' % (v, how), drive(how))
    st = final_state()
    req, diff_empty, writes = second_run()
    sd = dbrig.schema_diff(st['schema'], fresh['schema'])
    print('labels %r (fresh %r); stored signature matches models: %s; second run required=%s writes=%d; schema differs from fresh: %s'
          % (st['labels'], fresh['labels'], st['sig_matches_models'], req, len(writes), sd[:2]))
    return 1 if (st['labels'] != fresh['labels'] or not st['sig_matches_models'] or req or writes or sd) else 0
