"""C07 — a failed upgrade leaves the database as it was and can be retried.

Lean: DEvo/Run/Tx.lean, DEvo/Props/C07.lean (atomicity for every batch and every crash point
under the rollback variant; the variant in force is read off the generated skeleton of
SQLExecutor.finish_transaction; evolver-level theorems over the generated skeleton of
Evolver.evolve).
Tie: translator + fault enumeration on the real code: for every generated single-batch
evolution and EVERY write-statement index k, a database error is injected through
connection.execute_wrapper; before/after snapshots, error payload, fault-free retry.
"""
from .. import dbrig, evocases, evorig, sigs

F_COMMIT = 'F9'
F_BOOK = 'F38'
F_SUBTX = 'F39'
F_CLASSES = 'F65'


def fault_free(case, seed):
    evocases.restore_db('v0')
    evocases.install_v1(case)
    r = evorig.run_evolver()
    if r[0] != 'ok':
        return None
    tr = r[2]
    return {'writes': tr.write_statements(), 'snapshot': evorig.snapshot()}


def one_fault(case, k):
    evocases.restore_db('v0')
    evocases.install_v1(case)
    before = evorig.snapshot()
    tr = evorig.Trace(fail_at=k)
    r = evorig.run_evolver(trace=tr)
    # the failed run must have given the connection back outside any transaction: a block that is still open means no
    # rollback was issued (what the half-done batch wrote is still there for this connection, and nothing else works)
    from django.db import connection
    stuck = connection.in_atomic_block
    if stuck:
        dbrig.clear_stuck_transaction('default')
        connection.ensure_connection()
    after = evorig.snapshot()
    rep = {'k': k, 'failed_sql': tr.failed_sql, 'outcome': r[0]}
    problems = []
    if stuck:
        problems.append(('stuck', 'the failed run left the connection inside its transaction: no rollback was issued'))
    if r[0] != 'error':
        problems.append(('no-error', 'the injected failure at write #%d was swallowed: the run returned normally' % k))
    else:
        e = r[1]
        rep['error'] = '%s: %s' % (type(e).__name__, str(e)[:160])
        last = getattr(e, 'last_sql_statement', None)
        rep['last_sql_statement'] = repr(last)[:200]
        if 'Error' in type(e).__name__ and last is None and not is_bookkeeping(tr.failed_sql) and \
                not is_foreign(tr.failed_sql or ''):
            problems.append(('payload', 'the error does not identify the failing statement'))
        elif last is not None and tr.failed_sql is not None and last[0].split()[:3] != tr.failed_sql.split()[:3]:
            problems.append(('payload', 'the reported statement %r is not the failing one %r' % (last[0][:60], tr.failed_sql[:60])))
    changed = [key for key in before if before[key] != after[key]]
    rep['changed'] = changed
    # only whole new tables (created by an earlier, already committed run_sql() of the same
    # executor), every pre-existing table untouched?
    # (the content-type rows that post_migrate receivers write are data an upgrade leaves behind, too: they may only
    # differ once every batch had been applied, i.e. when post_migrate had legitimately been sent before the fault)
    rep['only_new_tables'] = bool(changed) and set(changed) <= {'schema', 'rows'} and \
        all(after['schema'].get(t) == before['schema'][t] for t in before['schema']) and \
        all(after['rows'].get(t) == before['rows'][t] for t in before['rows']) and \
        'TEMP_TABLE' not in after['schema']
    # the fault hit a later sub-transaction (deferred SQL of new models) after every evolution
    # batch had been applied and committed
    sig_names = [e[1] for e in tr.events if e[0] == 'signal']
    fault_after_all_applied = (sig_names.count('applying_evolution') == sig_names.count('applied_evolution') and
                               sig_names.count('creating_models') == sig_names.count('created_models') and
                               'TEMP_TABLE' not in after['schema'])
    if bool(changed) and set(changed) <= {'schema', 'rows', 'content_types'} and fault_after_all_applied:
        rep['only_new_tables'] = True
    # F39 is about tables whose creation had COMPLETED (created_models sent) before a later step
    # failed; a fault inside the model creation itself must leave nothing behind
    rep['fault_inside_model_creation'] = sig_names.count('creating_models') > sig_names.count('created_models')
    if rep['fault_inside_model_creation']:
        rep['only_new_tables'] = False
    if r[0] == 'error' and changed:
        problems.append(('persisted', 'after the failed run these differ from before: %s' % changed))
    # retry without the fault
    r2 = evorig.run_evolver()
    rep['retry'] = r2[0]
    final = evorig.snapshot() if r2[0] == 'ok' else None
    return rep, problems, final, (None if r2[0] == 'ok' else '%s: %s' % (type(r2[1]).__name__, str(r2[1])[:160]))


def same_instance_retry(case, k, reference):
    """the fault at write k again, and this time the retry is a second evolve() on the SAME Evolver (allowed while the
    first call has not succeeded): it must end where an uninterrupted run ends, too"""
    evocases.restore_db('v0')
    evocases.install_v1(case)
    tr = evorig.Trace(fail_at=k)
    r = evorig.run_evolver(trace=tr)
    from django.db import connection
    if connection.in_atomic_block:
        dbrig.clear_stuck_transaction('default')
        connection.ensure_connection()
    ev = getattr(tr, 'evolver', None)
    if r[0] != 'error' or ev is None or tr.failed_sql is None:
        return None
    try:
        ev.evolve()
    except Exception as e:
        return 'the retry on the same Evolver fails: %s: %s' % (type(e).__name__, str(e)[:120])
    fin = evorig.snapshot()
    if strip_versions(fin) != strip_versions(reference):
        diff = [key for key in strip_versions(fin) if strip_versions(fin)[key] != strip_versions(reference)[key]]
        return 'the retry on the same Evolver ends in a different state than the uninterrupted run: %s' % diff
    return None


def no_transaction_case():
    """an evolution whose ordinary statements (a table rebuild) are followed, in the same run, by a statement that has
    to run outside a transaction (NoTransactionSQL, what the SQLite backend itself emits as VACUUM after fixing
    references): the ordinary statements are still one transaction"""
    def fld(name, t, **attrs):
        return {'name': name, 'type': t, 'attrs': attrs, 'related': None}
    def model(fields):
        return {'name': 'Alpha', 'table': 'vapp_alpha', 'unique_together': [], 'index_together': [], 'indexes': [],
                'constraints': [], 'fields': fields}
    f0 = [fld('id', 'AutoField', primary_key=True), fld('a', 'IntegerField', null=True),
          fld('gone', 'CharField', max_length=20, null=True)]
    return {'spec0': {'apps': [{'id': 'vapp', 'models': [model(f0)]}]},
            'spec1': {'apps': [{'id': 'vapp', 'models': [model(f0[:2])]}]},
            'muts': [{'t': 'DeleteField', 'model': 'Alpha', 'field': 'gone'},
                     {'t': 'SQLMutation', 'tag': 'reclaim', 'no_tx_sql': ['VACUUM;'], 'can_simulate': True}],
            'rows': True}


def batch_correspondence(ctx):
    """SQLExecutor._prepare_sql + _prepare_transaction_batches on generated lists of statement groups (plain lists,
    single strings, NoTransactionSQL, NewTransactionSQL; empty statements, comments, padded statements) against the
    Lean model `cut (prepare groups)`; and, on the real output alone, the rule the property rests on: a statement
    that is to run inside a transaction never lands in a batch that runs without one"""
    import random
    from django_evolution.utils.sql import SQLExecutor, NoTransactionSQL, NewTransactionSQL
    rng = random.Random(ctx.seed * 131 + 7)
    pool = ['CREATE TABLE "TEMP_TABLE" (x);', 'INSERT INTO "TEMP_TABLE" SELECT 1;', 'DROP TABLE "t";', 'VACUUM;',
            'PRAGMA writable_schema = 1;', 'UPDATE t SET a = 1;', '', '-- a comment', '  SELECT 1;  ', '--', '-x']
    n = 300 if ctx.tier == 'quick' else 5000
    cases = []
    fixed = [[('plain', ['CREATE TABLE "TEMP_TABLE" (x);', 'DROP TABLE "t";']), ('no_tx', ['VACUUM;'])],
             [('no_tx', ['VACUUM;']), ('plain', ['UPDATE t SET a = 1;'])],
             [('plain', ['UPDATE t SET a = 1;']), ('new_tx', ['PRAGMA writable_schema = 1;', 'UPDATE t SET a = 1;']),
              ('no_tx', ['VACUUM;'])],
             [('new_tx', ['', 'UPDATE t SET a = 1;']), ('new_tx', ['UPDATE t SET a = 1;'])]]
    for i in range(n):
        if i < len(fixed):
            cases.append(fixed[i])
            continue
        gs = []
        for _ in range(rng.randint(1, 5)):
            kind = rng.choice(['plain', 'plain', 'single', 'no_tx', 'new_tx'])
            if kind == 'single':
                gs.append(('single', [rng.choice(pool)]))
            else:
                gs.append((kind, [rng.choice(pool) for _ in range(rng.randint(0, 3))]))
        cases.append(gs)
    ex = SQLExecutor('default')
    from django_evolution.db import EvolutionOperationsMulti
    ex._evolver_backend = EvolutionOperationsMulti('default').get_evolver()   # what __enter__ sets
    reqs, reals = [], []
    for gs in cases:
        real_in = []
        for kind, ss in gs:
            real_in.append(ss[0] if kind == 'single' else NoTransactionSQL(list(ss)) if kind == 'no_tx' else
                           NewTransactionSQL(list(ss)) if kind == 'new_tx' else list(ss))
        prepared = list(ex._prepare_sql(real_in))
        batches = [([st for st, _params in b], tx) for b, tx in ex._prepare_transaction_batches(prepared)]
        reals.append((prepared, batches))
        reqs.append({'op': 'batches', 'groups': [{'kind': 'plain' if k == 'single' else k, 'sql': [x.strip() for x in ss]}
                                                 for k, ss in gs]})
        ctx.count('batch_groups=%d' % len(gs))
        for k, _ in gs:
            ctx.count('group:' + k)
    outs = ctx.driver.ask(reqs) if ctx.driver else [None] * len(cases)
    for gs, (prepared, batches), out in zip(cases, reals, outs):
        impl = [{'sql': b, 'tx': tx} for b, tx in batches]
        if out is not None:
            ctx.corr_case('transaction_batches', out.get('batches') == impl, case={'groups': gs},
                          model=out.get('batches'), impl=impl)
        # the rule itself, judged on the real code alone
        want = [(st, use) for st, _p, use, _n in prepared]
        got = [(st, tx) for b, tx in batches for st in b]
        ctx.count('batching_cases')
        if [st for st, _ in want] != [st for st, _ in got]:
            ctx.fail(None, 'batching loses or reorders statements: %r -> %r' % ([w[0] for w in want], [g[0] for g in got]),
                     {'scenario': 'batching', 'groups': gs})
        else:
            # the statements of ONE NewTransactionSQL group run in one transaction: they land in one batch
            batch_of = [bi for bi, (b, _tx) in enumerate(batches) for _st in b]
            pos = 0
            for kind, ss in gs:
                kept = [x.strip() for x in ss if x.strip() and not x.strip().startswith('--')]
                if kind == 'new_tx' and len(set(batch_of[pos:pos + len(kept)])) > 1:
                    ctx.fail(None, 'the statements of one NewTransactionSQL group %r are spread over %d batches: each batch '
                             'is committed before the next starts' % (kept, len(set(batch_of[pos:pos + len(kept)]))),
                             {'scenario': 'batching', 'groups': gs})
                    break
                pos += len(kept)
            wrong = [(w[0], w[1], g[1]) for w, g in zip(want, got) if w[1] is not g[1]]
            if wrong:
                ctx.fail(None, 'statement %r is to run %s a transaction, but its batch is executed %s one'
                         % (wrong[0][0][:40], 'inside' if wrong[0][1] else 'outside', 'inside' if wrong[0][2] else 'outside'),
                         {'scenario': 'batching', 'groups': gs})


def other_database_faults(ctx):
    """the fault enumeration on a second database (Evolver(database_name='other')): a failed upgrade of THAT database
    leaves it as it was - its transaction is a transaction on that connection - and the retry completes"""
    import random
    done = tries = 0
    while done < 1 and tries < 8 and ctx.time_left() > 40:
        tries += 1
        case = evocases.gen_upgrade(random.Random(ctx.seed * 53 + tries), new_model=0)
        if case is None:
            continue
        seed = ctx.seed * 59 + tries
        evorig.fresh_databases()
        evorig.clear_evolutions()
        models = evorig.install_models(case['spec0'])
        if evorig.run_evolver('default')[0] != 'ok' or evorig.run_evolver('other')[0] != 'ok':
            continue
        dbrig.insert_rows(models, random.Random(seed), alias='other')
        evocases.save_db('o0', 'other')
        evocases.install_v1(case)
        tr0 = evorig.Trace('other')
        r0 = evorig.run_evolver('other', trace=tr0)
        if r0[0] != 'ok' or not tr0.write_statements():
            continue
        writes = tr0.write_statements()
        reference = evorig.snapshot('other')
        done += 1
        for k in range(len(writes)):
            if ctx.time_left() < 25:
                break
            if is_foreign(writes[k]) or is_bookkeeping(writes[k]) or writes[k].strip().upper().startswith('VACUUM'):
                continue
            evocases.restore_db('o0', 'other')
            evocases.install_v1(case)
            before = evorig.snapshot('other')
            tr = evorig.Trace('other', fail_at=k)
            r = evorig.run_evolver('other', trace=tr)
            from django.db import connections
            if connections['other'].in_atomic_block:
                dbrig.clear_stuck_transaction('other')
                connections['other'].ensure_connection()
            after = evorig.snapshot('other')
            rep = {'scenario': 'fault while evolving database `other`', 'spec0': case['spec0'], 'mutations': case['muts'],
                   'k': k, 'failed_sql': tr.failed_sql, 'seed': seed}
            ctx.count('other_database_faults')
            ctx.case({'scenario': rep['scenario'], 'k': k, 'statement': (tr.failed_sql or '')[:60],
                      'mutations': [sigs.model_mutation(m) for m in case['muts']]}, nontrivial=True, sample_cap=3)
            if r[0] != 'error':
                ctx.fail(None, 'other database: the injected failure at write #%d was swallowed' % k, rep)
                continue
            changed = [key for key in before if before[key] != after[key]]
            if changed:
                ctx.fail(None, 'other database: after the failed run at write #%d of %d (%s) these differ from before: %s'
                         % (k, len(writes), (tr.failed_sql or '')[:40], changed), dict(rep, changed=changed))
                continue
            r2 = evorig.run_evolver('other')
            if r2[0] != 'ok':
                ctx.fail(None, 'other database: the fault-free retry does not complete: %s' % str(r2[1])[:120], rep)
            elif strip_versions(evorig.snapshot('other')) != strip_versions(reference):
                ctx.fail(None, 'other database: the retry ends in a different state than the uninterrupted run', rep)


def two_app_creation_faults(ctx):
    """a release in which TWO apps get new models (their tables are created in one batch), with a fault at each of the
    creation statements: the reported error names the failing statement"""
    def fld(name, t, **attrs):
        return {'name': name, 'type': t, 'attrs': attrs, 'related': None}

    def mdl(app, name):
        return {'name': name, 'table': '%s_%s' % (app, name.lower()), 'unique_together': [], 'index_together': [],
                'indexes': [], 'constraints': [], 'fields': [fld('id', 'AutoField', primary_key=True),
                                                             fld('n', 'IntegerField', null=True, db_index=True)]}
    spec0 = {'apps': [{'id': 'vapp', 'models': [mdl('vapp', 'Alpha')]}]}
    spec1 = {'apps': [{'id': 'vapp', 'models': [mdl('vapp', 'Alpha'), mdl('vapp', 'Shelf')]},
                      {'id': 'wapp', 'models': [mdl('wapp', 'Wal')]}]}
    for k in range(4):
        if ctx.time_left() < 25:
            return
        evorig.fresh_databases()
        evorig.clear_evolutions()
        evorig.install_models(spec0)
        if evorig.run_evolver()[0] != 'ok':
            return
        evorig.install_models(spec1)
        tr = evorig.Trace(fail_at=k)
        r = evorig.run_evolver(trace=tr)
        from django.db import connection
        if connection.in_atomic_block:
            dbrig.clear_stuck_transaction('default')
            connection.ensure_connection()
        if r[0] != 'error' or tr.failed_sql is None or is_bookkeeping(tr.failed_sql) or is_foreign(tr.failed_sql):
            continue
        e = r[1]
        last = getattr(e, 'last_sql_statement', None)
        rep = {'scenario': 'two apps get new models in one release, fault in the model creation', 'k': k,
               'failed_sql': tr.failed_sql, 'error': '%s: %s' % (type(e).__name__, str(e)[:160]),
               'last_sql_statement': repr(last)[:200]}
        ctx.count('two_app_creation_faults')
        ctx.case({'scenario': rep['scenario'], 'k': k, 'statement': tr.failed_sql[:60]}, nontrivial=True, sample_cap=2)
        if last is None:
            ctx.fail(None, 'fault at %r while the models of two apps are created: the error does not identify the failing '
                     'statement' % tr.failed_sql[:50], rep)
        elif last[0].split()[:3] != tr.failed_sql.split()[:3]:
            ctx.fail(None, 'the reported statement %r is not the failing one %r' % (last[0][:60], tr.failed_sql[:60]), rep)


def purge_fault_cases(ctx):
    """an upgrade that also purges an app that is no longer installed (two task classes in one run), with a fault at
    every statement of the purge: whatever the first class had done, no evolution may be recorded, the stored
    signature and the number of versions stay as they were, and a fault-free retry still purges the app"""
    import random
    from .c15 import add_stale, owned_tables
    done = tries = 0
    while done < 2 and tries < 10 and ctx.time_left() > 40:
        tries += 1
        case = evocases.gen_upgrade(random.Random(ctx.seed * 71 + tries))
        if case is None:
            continue
        seed = ctx.seed * 73 + tries
        try:
            evocases.prepare_v0(case, seed)
        except Exception:
            continue
        stale = add_stale(random.Random(seed), seed, case['spec0'])
        if stale is None:
            continue
        tables = owned_tables(stale)
        evocases.save_db('p0')
        evocases.install_v1(case)
        r = evorig.run_evolver(purge=True)
        if r[0] != 'ok':
            continue
        writes = r[2].write_statements()
        ref = evorig.snapshot()
        purge_idx = [i for i, w in enumerate(writes) if w.startswith('DROP TABLE') and any('"%s"' % t in w for t in tables)]
        if not purge_idx:
            continue
        done += 1
        for k in purge_idx:
            if ctx.time_left() < 25:
                return
            evocases.restore_db('p0')
            evocases.install_v1(case)
            before = evorig.snapshot()
            tr = evorig.Trace(fail_at=k)
            rk = evorig.run_evolver(trace=tr, purge=True)
            after = evorig.snapshot()
            rep = {'scenario': 'upgrade + purge of a stale app in one run, fault in the purge', 'spec0': case['spec0'],
                   'mutations': case['muts'], 'stale_tables': tables, 'k': k, 'failed_sql': tr.failed_sql, 'seed': seed}
            ctx.count('purge_fault_runs')
            ctx.case({'scenario': 'purge fault', 'k': k, 'statement': (tr.failed_sql or '')[:60],
                      'mutations': [sigs.model_mutation(m) for m in case['muts']]}, nontrivial=True, sample_cap=3)
            if rk[0] != 'error':
                ctx.fail(None, 'the injected failure in the purge was swallowed', rep)
                continue
            kept = [key for key in ('evolutions', 'versions', 'sig') if before[key] != after[key]]
            if kept:
                ctx.fail(None, 'the purge failed at %r, yet the run left its records behind: %s changed'
                         % ((tr.failed_sql or '')[:50], kept), rep)
            # what the first task class (the evolutions) did is committed before the purge starts: the separate
            # transactions of finding F39, at the level of task classes - a retry then meets its own leftovers
            changed_all = [key for key in before if before[key] != after[key]]
            committed_first_class = bool(changed_all) and set(changed_all) <= {'schema', 'rows', 'content_types'} and \
                all(t in after['schema'] for t in tables)
            r2 = evorig.run_evolver(purge=True)
            if r2[0] != 'ok':
                what = 'the fault-free retry of upgrade + purge does not complete: %s' % str(r2[1])[:120]
                if committed_first_class:
                    ctx.fail(F_CLASSES, 'the evolutions of the run were committed before its purge failed: ' + what,
                             dict(rep, what=what, changed=changed_all))
                else:
                    ctx.fail(None, what, rep)
            else:
                fin = evorig.snapshot()
                left = [t for t in tables if t in fin['schema']]
                if left:
                    ctx.fail(None, 'after the retry the tables %s of the stale app are still there (the uninterrupted run '
                             'removes them)' % left, rep)
                elif strip_versions(fin)['evolutions'] != strip_versions(ref)['evolutions'] or fin['sig'] != ref['sig']:
                    ctx.fail(None, 'the retry of upgrade + purge ends with other records than the uninterrupted run', rep)


def is_bookkeeping(sql):
    return bool(sql) and ('django_project_version' in sql or '"django_evolution"' in sql)


def is_foreign(sql):
    """statements issued by other apps' signal handlers (contenttypes' post_migrate) or by Django's
    migration recorder: not part of the evolution"""
    return bool(sql) and ('django_content_type' in sql or 'django_migrations' in sql)


def strip_versions(snap):
    """the retry saves one Version row like the uninterrupted run; ids/timestamps are not compared"""
    s = dict(snap)
    s['evolutions'] = sorted([e[0], e[1]] for e in snap['evolutions'])
    s.pop('versions', None)
    return s


def run(ctx):
    evorig.setup()
    quick = ctx.tier == 'quick'
    ctx.rule = ('generated single-batch evolutions (1-3 mutations, optionally a new model with a foreign key, i.e. model '
                'creation + deferred SQL in the same run) on a database with rows x EVERY write-statement index k of '
                'the run (rebuild statements, index creation, model creation, the bookkeeping inserts); non-trivial = '
                'k > 0 or the batch has one statement; distinct by (case, k)')
    # variant in force, from the generated skeleton (evaluated by the Lean driver) --------------
    v = ctx.driver.ask([{'op': 'variant'}])[0] if ctx.driver else {}
    ctx.variant['commit_on_failure(skeleton)'] = v.get('commit_on_failure')
    ncases = 10 if quick else 120
    done = 0
    tries = 0
    same_instance_cases = set()
    commit_witness = None
    book_witness = None
    sub_witness = None
    fixed = [no_transaction_case()]
    while done < ncases and tries < ncases * 6 and ctx.time_left() > 30:
        tries += 1
        is_fixed = bool(fixed)
        # the first two cases always create models (a model with a many-to-many field: three creation statements;
        # then a single new model), the rest mostly do not
        case = fixed.pop(0) if is_fixed else \
            evocases.gen_upgrade(ctx.rng, new_model=(2 if done == 0 else 1 if done == 1 else
                                                     ctx.rng.choice([0, 0, 0, 1, 2])))
        if case is None:
            continue
        seed = ctx.seed * 1009 + tries
        try:
            evocases.prepare_v0(case, seed)
        except Exception:
            continue
        evocases.save_db('v0')
        ff = fault_free(case, seed)
        if ff is None or not ff['writes']:
            continue         # the evolution itself cannot be executed: C01's business
        done += 0 if is_fixed else 1
        n = len(ff['writes'])
        ctx.count('cases:fixed' if is_fixed else 'cases')
        ctx.count('writes=%d' % min(n, 12))
        for k in range(n):
            if ctx.time_left() < 20:
                break
            if is_foreign(ff['writes'][k]):
                ctx.count('skipped:foreign_statement')
                continue
            if ff['writes'][k].strip().upper().startswith('VACUUM'):
                # a statement that cannot run inside a transaction: what was executed before it had to be committed
                # first, so a failure of this very statement is outside what the property can promise
                ctx.count('skipped:non_transactional_statement')
                continue
            rep, problems, final, retry_err = one_fault(case, k)
            rep.update({'spec0': case['spec0'], 'mutations': case['muts'], 'new_model': len(case['spec1']['apps'][0]['models']) >
                        len(case['spec0']['apps'][0]['models']), 'n_writes': n, 'seed': seed})
            ctx.case({'mutations': [sigs.model_mutation(m) for m in case['muts']], 'k': k, 'of': n,
                      'statement': (rep['failed_sql'] or '')[:80]}, nontrivial=(k > 0 or n == 1), sample_cap=6)
            ctx.count('fault:bookkeeping' if is_bookkeeping(rep['failed_sql']) else 'fault:schema/data')
            if is_bookkeeping(rep['failed_sql']):
                # outside the property's quantifier (the evolution's own statements all succeeded);
                # what happens is recorded as finding F38 when it matches its description
                if rep.get('changed') and set(rep['changed']) <= {'schema', 'rows', 'content_types', 'versions', 'sig'} and \
                        'evolutions' not in rep['changed']:
                    book_witness = book_witness or dict(rep, what='bookkeeping write failed after the evolution was committed')
                elif rep.get('changed'):
                    ctx.fail(None, 'fault in the bookkeeping writes: unexpected change %s' % rep['changed'], rep)
                continue
            for kind, text in problems:
                if kind == 'persisted' and rep.get('only_new_tables') and k > 0:
                    sub_witness = sub_witness or dict(rep, what=text)
                elif kind == 'persisted' and set(rep['changed']) <= {'schema', 'rows'} and k > 0:
                    # the executed prefix of the batch was committed: the model's prediction for
                    # commitOnFailure = true (finding F9)
                    if commit_witness is None or n < commit_witness['n_writes']:
                        commit_witness = dict(rep, what=text)
                else:
                    ctx.fail(None, 'fault at write #%d of %d (%s): %s' % (k, n, (rep['failed_sql'] or '')[:50], text), rep)
            if final is None:
                if commit_witness is not None and rep.get('changed'):
                    pass     # a consequence of the committed prefix (stray TEMP_TABLE etc.)
                elif not rep.get('changed'):
                    ctx.fail(None, 'the fault-free retry after a clean failure does not complete: %s' % retry_err, rep)
            elif strip_versions(final) != strip_versions(ff['snapshot']) and rep.get('changed'):
                pass         # the failed run had already left a committed prefix behind (F9)
            elif strip_versions(final) != strip_versions(ff['snapshot']):
                diff = [key for key in strip_versions(final) if strip_versions(final)[key] != strip_versions(ff['snapshot'])[key]]
                ctx.fail(None, 'the retry ends in a different state than the uninterrupted run: %s' % diff, rep)
            # the first cases also retry on the Evolver whose run failed (clean failures only)
            if not rep['new_model'] and (seed in same_instance_cases or len(same_instance_cases) < 2):
                same_instance_cases.add(seed)
            if (done <= 2 or seed in same_instance_cases) and not rep.get('changed') and \
                    not is_bookkeeping(rep['failed_sql']) and ctx.time_left() > 40:
                what = same_instance_retry(case, k, ff['snapshot'])
                ctx.count('same_instance_retry')
                if what:
                    ctx.fail(None, 'fault at write #%d of %d: %s' % (k, n, what), dict(rep, retry='same Evolver'))
    purge_fault_cases(ctx)
    other_database_faults(ctx)
    two_app_creation_faults(ctx)
    batch_correspondence(ctx)
    if book_witness is not None:
        ctx.fail(F_BOOK, 'the version/evolution records are written outside the evolution\'s transaction: a failure '
                 'there leaves the evolved schema without its records', book_witness)
    if sub_witness is not None:
        ctx.fail(F_SUBTX, 'model creation and each task\'s SQL are separate transactions inside one batch: the tables '
                 'created before the failing evolution persist', sub_witness)
    observed = commit_witness is not None
    ctx.variant['commit_on_failure(observed)'] = observed
    if observed:
        ctx.fail(F_COMMIT, 'a failed batch is committed up to the failing statement: ' + commit_witness['what'],
                 commit_witness)
    if v and v.get('commit_on_failure') is False and observed:
        ctx.brk('correspondence', 'commit_on_failure', 'the skeleton says rollback, the real run committed a prefix')
    if v and v.get('commit_on_failure') is True and not observed and done >= 3:
        ctx.notes.append('skeleton flag commit_on_failure is true but no committed prefix was observed')


def replay(ctx, obj):
    _r = obj.get('replay', obj)
    if isinstance(_r, dict) and _r.get('scenario') == 'batching':
        evorig.setup()
        from django_evolution.utils.sql import SQLExecutor, NoTransactionSQL, NewTransactionSQL
        ex = SQLExecutor('default')
        from django_evolution.db import EvolutionOperationsMulti
        ex._evolver_backend = EvolutionOperationsMulti('default').get_evolver()
        real_in = [ss[0] if k == 'single' else NoTransactionSQL(list(ss)) if k == 'no_tx' else
                   NewTransactionSQL(list(ss)) if k == 'new_tx' else list(ss) for k, ss in _r['groups']]
        prepared = list(ex._prepare_sql(real_in))
        batches = list(ex._prepare_transaction_batches(prepared))
        print('prepared:', [(st, use, new) for st, _p, use, new in prepared])
        print('batches: ', [([st for st, _ in b], tx) for b, tx in batches])
        want = [(st, use) for st, _p, use, _n in prepared]
        got = [(st, tx) for b, tx in batches for st, _ in b]
        batch_of = [bi for bi, (b, _tx) in enumerate(batches) for _st in b]
        pos, split = 0, False
        for kind, ss in _r['groups']:
            kept = [x.strip() for x in ss if x.strip() and not x.strip().startswith('--')]
            if kind == 'new_tx' and len(set(batch_of[pos:pos + len(kept)])) > 1:
                split = True
            pos += len(kept)
        return 0 if not split and len(want) == len(got) and all(w[0] == g[0] and w[1] is g[1] for w, g in zip(want, got)) else 1
    if isinstance(_r, dict) and _r.get('scenario'):
        print('this scenario (%s) is rebuilt by the check itself: VERIF_SEED=%s ./check C07' % (_r['scenario'], obj.get('seed')))
        return 0
    evorig.setup()
    r = obj.get('replay', obj)
    case = {'spec0': r['spec0'], 'muts': r['mutations']}
    models = dbrig.build_models(case['spec0'])
    sig0 = dbrig.sig_from_models(models)
    final = sigs.real_simulate(sig0, 'vapp', [sigs.real_mutation(m) for m in case['muts']])[1]
    spec1 = dbrig.spec_from_sig(final)
    spec1['apps'] = [a for a in spec1['apps'] if a['id'] == 'vapp']
    case['spec1'] = spec1
    evocases.prepare_v0(case, r.get('seed', 0))
    evocases.save_db('v0')
    rep, problems, final, err = one_fault(case, r['k'])
    print(rep)
    print(problems)
    return 1 if problems else 0
