"""C03 — optimising a mutation sequence never changes its outcome.

Lean: DEvo/Opt/{Optimize,Regroup}.lean, DEvo/Props/C03.lean.
Tie: the optimiser's own I/O (optimised list, every original object after processing, second
pass over the same objects) against the Lean transliteration — exhaustively over all
applicable sequences up to length 3 (quick) / 4 (thorough) of a 52-mutation alphabet with name
reuse and SQLMutation barriers, randomly up to length 12 — plus the property oracle on the real
code: final signature (all sequences), schema and rows on a real SQLite database through a
bare AppMutator and through the Evolver pipeline (sample).
"""
import json

from .. import dbrig, evorig, optrig, sigs

F_DEFS = 'F4'
F_REUSE = 'F20'
F_REGROUP = 'F24'
F_INDEX = 'F18'
F_INITIAL = 'F21'
F_REBUILD = 'F1'
F_RETYPE = 'F60'
F_RENAME_TABLE = 'F66'


# ---------------------------------------------------------------------------
# shape predicates of the known findings
# ---------------------------------------------------------------------------

def existence_flips(seq):
    """per (model, field) / model name: how often does the name change existence in the batch?"""
    flips = {}

    def hit(key):
        flips[key] = flips.get(key, 0) + 1
    for m in seq:
        t = m['t']
        if t == 'AddField':
            hit((m['model'], m['field']))
        elif t == 'DeleteField':
            hit((m['model'], m['field']))
        elif t == 'RenameField':
            hit((m['model'], m['old']))
            hit((m['model'], m['new']))
        elif t == 'RenameModel':
            hit(('', m['old']))
            hit(('', m['new']))
        elif t == 'DeleteModel':
            hit(('', m['model']))
    return flips


def name_reuse(seq):
    return any(v >= 2 for v in existence_flips(seq).values())


def touches_renamed_model(seq):
    """a RenameModel/DeleteModel of X together with mutations addressed to another model name
    (X's new name, or a model related to X): regrouping by *sorted* model name can move them
    across the rename/delete"""
    model_level = [m for m in seq if m['t'] in ('RenameModel', 'DeleteModel')]
    if not model_level:
        return False
    names = set()
    for m in seq:
        names.add(m.get('model') or m.get('old'))
        if m['t'] == 'RenameModel':
            names.add(m['new'])
    names.discard(None)
    return len(names) >= 2


def index_interplay(seq):
    """db_index/unique changed on some field, or a field renamed, in a batch that also rebuilds
    the table or changes an index of the same model (findings F18 / F2)"""
    idx_models = set(m['model'] for m in seq if m['t'] == 'ChangeField' and
                     any(a in ('db_index', 'unique') for a, _ in m['attrs']))
    idx_models |= set(m['model'] for m in seq if m['t'] == 'AddField' and
                      any(a in ('db_index', 'unique') for a, _ in m['attrs']))
    ren_models = set(m['model'] for m in seq if m['t'] == 'RenameField')
    return bool(idx_models or ren_models)


def initial_rollup(seq):
    """a mutation carrying an initial value is rolled up with another mutation of the same field
    (AddField+ChangeField, ChangeField+ChangeField): the data rewrite of the intermediate step is
    replaced or dropped"""
    with_initial = set()
    seen = set()
    for m in seq:
        if m['t'] == 'RenameField':
            for s_ in (with_initial, seen):
                if (m['model'], m['old']) in s_:
                    s_.add((m['model'], m['new']))
            continue
        if m['t'] not in ('AddField', 'ChangeField'):
            continue
        key = (m['model'], m['field'])
        if key in seen and (key in with_initial or m.get('initial') is not None):
            return True
        seen.add(key)
        if m.get('initial') is not None:
            with_initial.add(key)
    return False


def retype_merge(seq):
    """a ChangeField that changes the field's type, preceded in the batch by another AddField/ChangeField of the
    same field (one at a time the type change replaces the attributes, merged it adds to them: finding F60)"""
    seen = set()
    for m in seq:
        if m['t'] in ('AddField', 'ChangeField'):
            key = (m['model'], m['field'])
            if m['t'] == 'ChangeField' and m.get('ftype') and key in seen:
                return True
            seen.add(key)
        elif m['t'] == 'RenameField' and (m['model'], m['old']) in seen:
            seen.add((m['model'], m['new']))      # the optimiser follows the field through its rename
    return False


def table_level_meta(seq):
    return any(m['t'] == 'ChangeMeta' for m in seq)


def only_multicolumn_index_diffs(a, b):
    if not only_index_diffs(a, b):
        return False
    for t in a:
        ia = [json.dumps(x) for x in a[t]['indexes']]
        ib = [json.dumps(x) for x in b[t]['indexes']]
        for x in set(ia) ^ set(ib):
            if len(json.loads(x)[0]) < 2:
                return False
    return True


# ---------------------------------------------------------------------------

def sig_equal(a, b):
    return sigs.norm_sig(sigs.abs_sig(a), True, True) == sigs.norm_sig(sigs.abs_sig(b), True, True)


def check_sequence(ctx, sig, existing, seq, model_out, witnesses):
    """optimiser correspondence + signature-level oracle for one sequence"""
    real, objs = optrig.real_optimize(sig, seq, passes=2)
    orig = [sigs.model_mutation(m) for m in seq]
    r1 = real[0]
    agree = None
    if model_out is not None:
        if 'err' in r1:
            agree = model_out.get('err') == r1['err']
        else:
            agree = ('out' in model_out and
                     [optrig.norm_mut(x) for x in r1['out']] == model_out['out'] and
                     [optrig.norm_mut(x) for x in r1['arr']] == model_out['arr'])
            if agree and len(real) > 1:
                r2 = real[1]
                sec = model_out.get('second', {})
                if 'err' in r2:
                    agree = sec.get('err') == r2['err']
                else:
                    agree = 'out' in sec and [optrig.norm_mut(x) for x in r2['out']] == sec['out']
        ctx.corr_case('optimiser', bool(agree), case={'mutations': orig},
                      model={k: v for k, v in model_out.items()},
                      impl=[{k: v for k, v in r.items() if k != 'out_objs'} for r in real])
    step_objs = [sigs.real_mutation(m) for m in seq]
    before_defs = [optrig.norm_mut(sigs.abs_mutation_obj(o)) for o in step_objs]
    step = sigs.real_simulate(sig, 'vapp', step_objs)
    rep = {'kind': 'sig', 'mutations': seq}
    after_defs = [optrig.norm_mut(sigs.abs_mutation_obj(o)) for o in step_objs]
    if step[0] == 'ok' and after_defs != before_defs:
        # the definitions are the caller's: simulating them one at a time must leave them as they were
        ctx.fail(None, 'simulating the mutations altered the evolution definitions',
                 dict(rep, observed={'before': before_defs, 'after': after_defs}))
    reuse = name_reuse(seq)
    regroup = touches_renamed_model(seq)

    def model_predicts_difference():
        """does the Lean model of `simulate`, run on the sequence and on the optimised list, also end in two
        different outcomes?  Only then do the optimiser findings (F20/F24/F60) explain what was observed."""
        if not ctx.driver or 'out' not in r1:
            return True
        flags = {'rename_app_label_fixed': bool(ctx.variant.get('rename_app_label_fixed'))}
        base = {'op': 'simulate', 'sig': sigs.abs_sig(sig), 'ctx': {'app': 'vapp'}, 'flags': flags}
        a, b = ctx.driver.ask([dict(base, mutations=[optrig.norm_mut(m) for m in orig]),
                               dict(base, mutations=[optrig.norm_mut(m) for m in r1['out']])])
        if a is None or b is None:
            return True
        if ('ok' in a) != ('ok' in b):
            return True
        if 'ok' not in a:
            return a.get('err') != b.get('err')
        return sigs.norm_sig(a['ok'], True, True) != sigs.norm_sig(b['ok'], True, True)

    def known_or_fail(what, observed):
        r = dict(rep, observed=observed)
        if 'err' not in r1 and not model_predicts_difference():
            # the optimiser did what its model does, and by the model of `simulate` that is harmless here: the
            # difference comes from somewhere else
            ctx.fail(None, what + ' (not explained by the optimiser: the model of simulate gives the same outcome '
                     'for the sequence and for the optimised list)', r)
        elif agree and reuse:
            if witnesses.get(F_REUSE) is None or len(seq) < len(witnesses[F_REUSE]['mutations']):
                witnesses[F_REUSE] = r
        elif agree and regroup:
            if witnesses.get(F_REGROUP) is None or len(seq) < len(witnesses[F_REGROUP]['mutations']):
                witnesses[F_REGROUP] = r
        elif agree and retype_merge(seq):
            if witnesses.get(F_RETYPE) is None or len(seq) < len(witnesses[F_RETYPE]['mutations']):
                witnesses[F_RETYPE] = r
        else:
            ctx.fail(None, what, r)

    if 'err' in r1:
        ctx.count('opt:crash')
        known_or_fail('the optimiser raises %s on a sequence that is valid one mutation at a time' % r1['err'],
                      r1['err'])
        return real, objs
    res = sigs.real_simulate(sig, 'vapp', r1['out_objs'])
    if res[0] != 'ok':
        ctx.count('opt:batched_rejected')
        known_or_fail('the optimised sequence is rejected (%s) although the sequence is valid one mutation '
                      'at a time' % res[1], res[1])
    elif not sig_equal(res[1], step[1]):
        ctx.count('opt:sig_differs')
        known_or_fail('the optimised run ends in a different project signature', 'signature differs')
    else:
        ctx.count('opt:same_sig')
    # definitions unchanged / second pass
    rewritten = [optrig.norm_mut(x) for x in r1['arr']] != orig
    if rewritten:
        ctx.count('opt:defs_rewritten')
        r = dict(rep, observed={'before': orig, 'after': [optrig.norm_mut(x) for x in r1['arr']]})
        if agree:
            if witnesses.get(F_DEFS) is None or len(seq) < len(witnesses[F_DEFS]['mutations']):
                witnesses[F_DEFS] = r
        else:
            ctx.fail(None, 'processing altered the evolution definitions', r)
    elif len(real) > 1 and ('err' in real[1] or
                            [optrig.norm_mut(x) for x in real[1]['out']] != [optrig.norm_mut(x) for x in r1['out']]):
        ctx.fail(None, 'processing the same (unaltered) definitions again gives a different result', rep)
    EXPLAINED[json.dumps([sigs.model_mutation(m) for m in seq], sort_keys=True)] = (agree is not False)
    return real, objs


EXPLAINED = {}

# ---------------------------------------------------------------------------
# database level
# ---------------------------------------------------------------------------

def db_run(spec, seq, mode, seed):
    """mode: 'stepwise' | 'batched' | 'evolver'; returns dict(schema, rows, sig) or dict(error)"""
    import random
    rng = random.Random(seed)
    try:
        if mode in ('stepwise', 'batched'):
            models = dbrig.build_models(spec)
            sig = dbrig.sig_from_models(models)
            dbrig.reset_db('default')
            dbrig.create_tables(models, 'default')
            dbrig.insert_rows(models, rng, alias='default')
            out = dbrig.evolve(sig, 'vapp', [sigs.real_mutation(m) for m in seq], one_at_a_time=(mode == 'stepwise'))
            return {'schema': dbrig.abs_schema(), 'rows': dbrig.abs_rows(), 'sig': sigs.norm_sig(sigs.abs_sig(out), True)}
        evorig.fresh_databases()
        evorig.clear_evolutions()
        models = evorig.install_models(spec)
        r = evorig.run_evolver()
        if r[0] != 'ok':
            return {'error': 'baseline: %r' % (r[1],)}
        dbrig.insert_rows(models, rng, alias='default')
        from django_evolution.signature import ProjectSignature
        sig0 = ProjectSignature.from_database('default')
        st = sigs.real_simulate(sig0, 'vapp', [sigs.real_mutation(m) for m in seq])
        if st[0] != 'ok':
            return {'error': 'stepwise simulation: %r' % (st,)}
        from .c11 import dangling
        if dangling(st[1], set()):
            # the final models would hold a relation to a deleted model: they cannot be installed, so this
            # sequence has no "current models" to evolve to (the batched AppMutator run still covers it)
            return {'skip': 'final models are not installable'}
        target = dbrig.spec_from_sig(st[1])
        target['apps'] = [a for a in target['apps'] if a['id'] == 'vapp']
        evorig.install_models(target)
        evorig.set_evolutions('vapp', [{'label': 'e1', 'mutations': [sigs.real_mutation(m) for m in seq]}])
        r = evorig.run_evolver()
        if r[0] != 'ok':
            return {'error': '%s: %s' % (type(r[1]).__name__, str(r[1])[:200])}
        return {'schema': dbrig.abs_schema(), 'rows': dbrig.abs_rows(), 'sig': None}
    except Exception as e:
        return {'error': '%s: %s' % (type(e).__name__, str(e)[:200])}


def only_index_diffs(a, b):
    for t in set(a) | set(b):
        if t not in a or t not in b:
            return False
        for part in ('columns', 'fks', 'checks'):
            if a[t][part] != b[t][part]:
                return False
    return True


def db_case(ctx, spec, seq, seed, witnesses, rewritten, explained=True):
    # the optimiser findings explain a batched-only difference at database level only where the optimiser did
    # something to the list, or where by its Lean model the optimised list ends in another signature
    if explained and (name_reuse(seq) or touches_renamed_model(seq) or retype_merge(seq)) and not rewritten and \
            not optrig.model_optimiser_acts(ctx, spec, seq) and not optrig.model_predicts_difference(ctx, spec, seq):
        explained = False
    A = db_run(spec, seq, 'stepwise', seed)
    if 'error' in A:
        ctx.count('db:stepwise_failed')        # C01's business
        return
    rep = {'kind': 'db', 'spec': spec, 'mutations': seq, 'seed': seed}
    for mode in ('batched', 'evolver'):
        B = db_run(spec, seq, mode, seed)
        if 'skip' in B:
            ctx.count('db:%s skipped (%s)' % (mode, B['skip']))
            continue
        ctx.count('db:%s' % mode)
        if 'error' in B:
            r = dict(rep, mode=mode, observed=B['error'])
            if mode == 'evolver' and any(m['t'] == 'RenameModel' and m.get('db_table') and
                                         ('already another table or index with this name: %s' % m['db_table']) in B['error']
                                         for m in seq):
                # the Evolver takes the renamed model (whose new table does not exist yet) for a NEW model and
                # creates its table before the RenameModel renames the old table onto it
                witnesses.setdefault(F_RENAME_TABLE + ':db', r)
            elif explained and (name_reuse(seq) or touches_renamed_model(seq)):
                witnesses.setdefault(F_REUSE + ':db', r)
            elif explained and retype_merge(seq):
                witnesses.setdefault(F_RETYPE + ':db', r)
            elif mode == 'evolver' and rewritten:
                witnesses.setdefault(F_DEFS + ':db', r)
            elif index_interplay(seq):
                witnesses.setdefault(F_INDEX + ':crash', r)
            else:
                ctx.fail(None, 'the %s run fails (%s) although the sequence succeeds one mutation at a time'
                         % (mode, B['error'][:120]), r)
            continue
        sd = dbrig.schema_diff(A['schema'], B['schema'])
        if sd:
            r = dict(rep, mode=mode, observed=sd[:4])
            if explained and (name_reuse(seq) or touches_renamed_model(seq)):
                witnesses.setdefault(F_REUSE + ':db', r)
            elif explained and retype_merge(seq):
                witnesses.setdefault(F_RETYPE + ':db', r)
            elif only_multicolumn_index_diffs(A['schema'], B['schema']) and table_level_meta(seq):
                # one of the two runs rebuilt the table after the ChangeMeta and lost the index (F1)
                witnesses.setdefault(F_REBUILD, r)
            elif only_index_diffs(A['schema'], B['schema']) and index_interplay(seq):
                witnesses.setdefault(F_INDEX, r)
            else:
                ctx.fail(None, 'the %s run ends in a different schema: %s' % (mode, sd[0][:160]), r)
        if A['rows'] != B['rows']:
            r = dict(rep, mode=mode, observed='row data differs')
            if explained and (name_reuse(seq) or touches_renamed_model(seq)):
                witnesses.setdefault(F_REUSE + ':db', r)
            elif explained and retype_merge(seq):
                witnesses.setdefault(F_RETYPE + ':db', r)
            elif explained and initial_rollup(seq):
                witnesses.setdefault(F_INITIAL, r)
            else:
                ctx.fail(None, 'the %s run ends with different row data' % mode, r)


def run(ctx):
    evorig.setup()
    quick = ctx.tier == 'quick'
    spec = optrig.start_spec()
    sig = sigs.sig_from_spec(spec)
    existing = ['Alpha', 'Beta']
    ctx.rule = ('all applicable sequences (simulation-valid, no rename onto an existing name) up to length %d over a '
                '52-mutation alphabet on 2 models x 3 field names (name reuse, renames, ChangeMeta, RenameModel, '
                'DeleteModel, SQLMutation barrier), plus random sequences up to length 12 over the 68-mutation '
                'alphabet; non-trivial = length >= 2; distinct by canonical JSON' % (3 if quick else 4))
    seqs = list(optrig.valid_sequences(sig, optrig.alphabet(small=True), 3 if quick else 4))
    ctx.exhaustive = False
    full = optrig.alphabet(small=False)
    for _ in range(1500 if quick else 30000):
        seqs.append(optrig.random_sequence(ctx.rng, sig, full, ctx.rng.randint(3, 12)))
    # deterministic family: a change of type, then (across a barrier or not) another change of the same field
    cf = lambda field, ftype, initial, *attrs: {'t': 'ChangeField', 'model': 'Alpha', 'field': field, 'ftype': ftype,
                                                'initial': initial, 'attrs': [list(a) for a in attrs]}
    barrier = {'t': 'SQLMutation', 'tag': 'barrier', 'can_simulate': True, 'sql': []}
    retype = cf('a', 'CharField', None, ('max_length', '20'), ('null', 'true'))
    family = [[retype, barrier, cf('a', None, '"x"', ('null', 'false'))],
              [retype, barrier, cf('a', None, None, ('db_index', 'true'))],
              [retype, barrier, cf('a', None, None, ('max_length', '30'))],
              [cf('b', None, None, ('null', 'true')), retype, barrier, cf('a', None, '"x"', ('null', 'false'))]]
    # ... and a relation added between two renames of its target (the reference names an intermediate model name)
    rm = lambda old, new: {'t': 'RenameModel', 'old': old, 'new': new, 'db_table': 'vapp_alpha'}
    fk = lambda field, target: {'t': 'AddField', 'model': 'Beta', 'field': field, 'ftype': 'ForeignKey', 'initial': None,
                                'attrs': [['null', 'true'], ['related_model', '"vapp.%s"' % target]]}
    family += [[rm('Alpha', 'Gamma'), fk('c', 'Gamma'), rm('Gamma', 'Delta')],
               [rm('Alpha', 'Gamma'), fk('c', 'Gamma'), rm('Gamma', 'Delta'), rm('Delta', 'Alpha')],
               [fk('c', 'Alpha'), rm('Alpha', 'Gamma'), rm('Gamma', 'Delta')],
               [rm('Alpha', 'Gamma'), rm('Gamma', 'Delta'), fk('c', 'Delta')]]
    # ... and a relation of a model to itself, added in the batch that renames the model
    fk_self = {'t': 'AddField', 'model': 'Alpha', 'field': 'p', 'ftype': 'ForeignKey', 'initial': None,
               'attrs': [['null', 'true'], ['related_model', '"vapp.Alpha"']]}
    add_int = lambda model, field: {'t': 'AddField', 'model': model, 'field': field, 'ftype': 'IntegerField',
                                    'initial': '0', 'attrs': []}
    family += [[fk_self, rm('Alpha', 'Gamma')],
               [fk_self, rm('Alpha', 'Gamma'), add_int('Gamma', 'q')],
               [fk_self, rm('Alpha', 'Gamma'), rm('Gamma', 'Delta')]]
    # ... and a column dropped and a column of the same name added again (the optimiser leaves both alone)
    delb = {'t': 'DeleteField', 'model': 'Alpha', 'field': 'b'}
    addb = lambda initial, *attrs: {'t': 'AddField', 'model': 'Alpha', 'field': 'b', 'ftype': 'IntegerField',
                                    'initial': initial, 'attrs': [list(a) for a in attrs]}
    family += [[delb, addb(None, ('null', 'true'))], [delb, addb('5')],
               [delb, add_int('Alpha', 'q'), addb(None, ('null', 'true'))]]
    # ... and two different Meta properties of one model changed in one batch (each keeps its own last value)
    cm = lambda prop, value: {'t': 'ChangeMeta', 'model': 'Alpha', 'prop': prop, 'py_value': value}
    ut, ut0 = cm('unique_together', [('a', 'b')]), cm('unique_together', [])
    ix, ix0 = cm('indexes', [{'name': 'alpha_a_ix', 'fields': ['a']}]), cm('indexes', [])
    family += [[ut, ix], [ix, ut], [ut, ix, ut0], [ix, ut, ix0], [ut, add_int('Alpha', 'q'), ix],
               [ix, ix0, ut], [ut, ut0, ix]]
    # ... and a rolled-up ChangeField whose initial value is set but falsy (0, '', False): it is still the value the
    # merged mutation needs
    addn = lambda field, ftype, *attrs: {'t': 'AddField', 'model': 'Alpha', 'field': field, 'ftype': ftype,
                                         'initial': None, 'attrs': [['null', 'true']] + [list(a) for a in attrs]}
    family += [[addn('z', 'IntegerField'), cf('z', None, '0', ('null', 'false'))],
               [addn('s', 'CharField', ('max_length', '10')), cf('s', None, '""', ('null', 'false'))],
               [addn('f', 'BooleanField'), cf('f', None, 'false', ('null', 'false'))],
               [cf('b', None, None, ('max_length', '50')), cf('b', None, '""', ('null', 'false'))],
               [cf('b', None, None, ('db_index', 'true')), cf('b', None, '""', ('null', 'false'))]]
    # ... and a chain of renames of a field added in the batch, an explicit column name on a link that is not the last
    rnc = lambda old, new, col: {'t': 'RenameField', 'model': 'Alpha', 'old': old, 'new': new, 'db_column': col,
                                 'db_table': None}
    addq = {'t': 'AddField', 'model': 'Alpha', 'field': 'q', 'ftype': 'IntegerField', 'initial': None,
            'attrs': [['null', 'true']]}
    family += [[addq, rnc('q', 'q2', 'legacy_q'), rnc('q2', 'q3', None)],
               [addq, rnc('q', 'q2', 'legacy_q'), rnc('q2', 'q3', 'newer_q')],
               [addq, rnc('q', 'q2', None), rnc('q2', 'q3', 'legacy_q'), rnc('q3', 'q4', None)],
               [rnc('b', 'b2', 'legacy_b'), rnc('b2', 'b3', None)]]
    seqs = family + seqs
    copies = bool(ctx.variant.get('optimizer_copies'))
    reqs = [{'op': 'optimize', 'existing': existing, 'copies': copies,
             'mutations': [sigs.model_mutation(m) for m in s]} for s in seqs]
    outs = ctx.driver.ask(reqs) if ctx.driver else [None] * len(seqs)
    witnesses = {}
    rewritten_of = {}
    for i, (s, o) in enumerate(zip(seqs, outs)):
        real, objs = check_sequence(ctx, sig, existing, s, o, witnesses)
        ctx.case({'mutations': [sigs.model_mutation(m) for m in s]}, nontrivial=len(s) >= 2, sample_cap=4)
        ctx.count('len=%d' % min(len(s), 8))
        if 'arr' in real[0]:
            rewritten_of[i] = [optrig.norm_mut(x) for x in real[0]['arr']] != [sigs.model_mutation(m) for m in s]
    # ---- the same question on a legacy start signature (unique_together listed but never applied): signature
    # level only, every applicable sequence up to length 2 plus a sample of longer ones
    lspec = optrig.legacy_spec()
    lsig = sigs.sig_from_spec(lspec)
    lalpha = [m for m in optrig.alphabet(small=True) if not (m['t'] == 'ChangeMeta' and m['model'] == 'Alpha')] + \
        [{'t': 'ChangeMeta', 'model': 'Alpha', 'prop': 'unique_together', 'py_value': [('a', 'b')]}]
    lseqs = list(optrig.valid_sequences(lsig, lalpha, 2))
    for _ in range(150 if quick else 3000):
        lseqs.append(optrig.random_sequence(ctx.rng, lsig, lalpha, ctx.rng.randint(3, 6)))
    lreqs = [{'op': 'optimize', 'existing': existing, 'copies': copies,
              'mutations': [sigs.model_mutation(m) for m in s]} for s in lseqs]
    louts = ctx.driver.ask(lreqs) if ctx.driver else [None] * len(lseqs)
    for s, o in zip(lseqs, louts):
        check_sequence(ctx, lsig, existing, s, o, witnesses)
        ctx.case({'legacy_start': True, 'mutations': [sigs.model_mutation(m) for m in s]}, nontrivial=len(s) >= 2,
                 sample_cap=2)
        ctx.count('legacy_start:len=%d' % min(len(s), 6))
    # ---- database level: a sample, biased towards sequences in which the optimiser acts ------
    idx = list(range(len(seqs)))
    ctx.rng.shuffle(idx)
    acting = [i for i in idx if rewritten_of.get(i)]
    plain = [i for i in idx if not rewritten_of.get(i) and len(seqs[i]) >= 2]
    n_db = 70 if quick else 1500
    chosen = list(range(len(family))) + acting[:n_db // 2] + plain[:n_db - n_db // 2]
    for i in chosen:
        if ctx.time_left() < 25:
            break
        db_case(ctx, spec, seqs[i], ctx.seed * 7919 + i, witnesses, rewritten_of.get(i, False),
                explained=EXPLAINED.get(json.dumps([sigs.model_mutation(m) for m in seqs[i]], sort_keys=True), True))
    # ---- Lean counterexample witnesses replayed on the real code ------------------------------
    w = [{'t': 'AddField', 'model': 'Alpha', 'field': 'c', 'ftype': 'IntegerField', 'initial': '1', 'attrs': []},
         {'t': 'RenameField', 'model': 'Alpha', 'old': 'c', 'new': 'd', 'db_column': None, 'db_table': None}]
    real, objs = optrig.real_optimize(sig, w, passes=1)
    changed = 'arr' in real[0] and [optrig.norm_mut(x) for x in real[0]['arr']] != [sigs.model_mutation(m) for m in w]
    ctx.variant['optimizer_rewrites_definitions'] = bool(changed)
    if changed:
        witnesses.setdefault(F_DEFS, {'kind': 'sig', 'mutations': w, 'observed': 'AddField object renamed in place'})
    for key, r in sorted(witnesses.items()):
        fid = key.split(':')[0]
        ctx.fail(fid, WHAT[fid], r)


WHAT = {
    F_DEFS: 'the optimiser rewrites the evolution definitions in place (and the production pipeline runs it twice)',
    F_REUSE: 'a batch in which a field/model name changes existence more than once is optimised into a different outcome',
    F_REGROUP: 'regrouping by sorted model name moves a mutation across the RenameModel that creates/removes its model name',
    F_INDEX: 'a db_index/unique change or field rename merged with other changes of the same table leaves different indexes',
    F_INITIAL: 'rolling up mutations that carry initial values changes or drops the data rewrite of the intermediate step',
    F_RETYPE: 'a type-changing ChangeField merged with earlier changes of the same field keeps attributes that it drops when applied on its own',
    F_RENAME_TABLE: 'through the Evolver a RenameModel that also moves the table fails: the renamed model is taken for a new one and its table is created first',
    F_REBUILD: 'a table rebuild after ChangeMeta drops the multi-column index in one of the two runs (rebuild loses table-level indexes)',
}


def replay(ctx, obj):
    evorig.setup()
    r = obj.get('replay', obj)
    spec = r.get('spec') or optrig.start_spec()
    sig = sigs.sig_from_spec(spec)
    seq = r['mutations']
    real, objs = optrig.real_optimize(sig, seq, passes=2)
    print(json.dumps([{k: v for k, v in x.items() if k != 'out_objs'} for x in real])[:1500])
    step = sigs.real_simulate(sig, 'vapp', [sigs.real_mutation(m) for m in seq])
    if 'err' in real[0]:
        return 1
    res = sigs.real_simulate(sig, 'vapp', real[0]['out_objs'])
    bad = res[0] != 'ok' or not sig_equal(res[1], step[1])
    print('stepwise vs optimised signature equal:', not bad)
    if r.get('kind') == 'db':
        A = db_run(spec, seq, 'stepwise', r.get('seed', 0))
        B = db_run(spec, seq, r.get('mode', 'batched'), r.get('seed', 0))
        print('stepwise:', A.get('error') or 'ok', '| %s:' % r.get('mode', 'batched'), B.get('error') or 'ok')
        if 'error' in B and 'error' not in A:
            return 1
        if 'error' not in A and 'error' not in B:
            d = dbrig.schema_diff(A['schema'], B['schema'])
            print(d[:3], 'rows equal:', A['rows'] == B['rows'])
            return 1 if d or A['rows'] != B['rows'] else 0
    return 1 if bad else 0
