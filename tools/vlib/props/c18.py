"""C18 — batched changes rewrite each table once, never more than unbatched.

Lean: DEvo/Sql/Merge.lean, DEvo/Props/C18.lean (`mergeable_ops` and the `needs_rebuild` item
table are *extracted* from the source on every run).
Tie: rebuild-count correspondence (model prediction from the real ModelMutator op lists vs
`CREATE TABLE "TEMP_TABLE"` statements in the real SQL), and the property oracle: per table,
rebuilds of the optimised run <= rebuilds one mutation at a time; documented single-rebuild runs.
"""
import json
import re

from .. import dbrig, dj, optrig, sigs

F_MERGE = 'F15'
F_REUSE = 'F20'


def count_rebuilds(statements):
    """{final table name: number of rebuilds}; follows table renames"""
    counts = {}
    for st in statements:
        sql = st[0] if isinstance(st, tuple) else st
        if not isinstance(sql, str):
            continue
        m = re.match(r'ALTER TABLE "([^"]+)" RENAME TO "([^"]+)"', sql)
        if m:
            a, b = m.group(1), m.group(2)
            if a == 'TEMP_TABLE':
                counts[b] = counts.get(b, 0) + 1
            elif a in counts:
                counts[b] = counts.get(b, 0) + counts.pop(a)
    return counts


def real_ops_and_sql(sig, muts, alias='default'):
    """bare AppMutator on the current database: abstract op lists per model mutator + SQL"""
    from django.db import models as dm
    from django_evolution.mutators import AppMutator
    from django_evolution.mutators.model_mutator import ModelMutator
    am = AppMutator(app_label='vapp', project_sig=sig.clone(), database_state=dbrig.scan_state(alias),
                    database=alias)
    am.run_mutations([sigs.real_mutation(m) for m in muts])
    am._finalize_model_mutator()
    per_mutator = []
    for mt in am._mutators:
        if isinstance(mt, ModelMutator):
            ops = []
            last_meta = {}        # Meta property -> the value the batch has established so far
            for op in mt._ops:
                d = []
                if op['type'] == 'change_column':
                    d = sorted(op['new_attrs'].keys())
                    if isinstance(op['field'], dm.ManyToManyField):
                        d = [a for a in d if a not in ('null',)]
                elif op['type'] == 'change_meta':
                    d = [op['prop_name']]
                    # a ChangeMeta that restates the value in force (the signature's, or what an earlier ChangeMeta of
                    # the batch set) changes nothing in the database
                    norm = lambda v: json.dumps(v, sort_keys=True, default=str)
                    before = last_meta.get(op['prop_name'], norm(op.get('old_value')))
                    last_meta[op['prop_name']] = norm(op.get('new_value'))
                    if before == norm(op.get('new_value')):
                        d = []        # still an operation in the queue (it separates what could otherwise be merged)
                ops.append({'type': op['type'], 'detail': d})
            per_mutator.append((mt.model_name, ops))
    sql = am.to_sql()
    return per_mutator, sql


def run_on_db(spec, seq, stepwise):
    models = dbrig.build_models(spec)
    sig = dbrig.sig_from_models(models)
    dbrig.reset_db('default')
    dbrig.create_tables(models, 'default')
    groups = [[m] for m in seq] if stepwise else [seq]
    all_sql = []
    ops_all = []
    cur = sig
    for g in groups:
        per_mutator, sql = real_ops_and_sql(cur, g)
        ops_all += per_mutator
        all_sql += sql
        dbrig.run_sql(sql)
        r = sigs.real_simulate(cur, 'vapp', [sigs.real_mutation(m) for m in g])
        if r[0] != 'ok':
            raise RuntimeError('simulation rejected: %r' % (r,))
        cur = r[1]
    return ops_all, all_sql


def documented_run(seq):
    """consecutive additions, deletions, attribute changes (no type change, no column rename)
    and Meta changes (other than constraints) on ONE model"""
    if len(set(m.get('model') for m in seq)) != 1:
        return False
    for m in seq:
        if m['t'] not in ('AddField', 'DeleteField', 'ChangeField', 'ChangeMeta'):
            return False
        if m['t'] == 'ChangeField' and (m.get('ftype') or any(a in ('db_column', 'db_table') for a, _ in m['attrs'])):
            return False
        if m['t'] == 'AddField' and m['ftype'] == 'ManyToManyField':
            return False
    return True


def m2m_spec():
    f = lambda n, t, **a: {'name': n, 'type': t, 'attrs': a, 'related': None}
    pk = {'name': 'id', 'type': 'AutoField', 'attrs': {'primary_key': True}, 'related': None}
    return {'apps': [{'id': 'vapp', 'models': [
        {'name': 'Alpha', 'table': 'vapp_alpha', 'fields': [pk, f('a', 'IntegerField')],
         'unique_together': [], 'index_together': [], 'indexes': [], 'constraints': []},
        {'name': 'Beta', 'table': 'vapp_beta', 'fields': [pk, f('n', 'IntegerField'),
                                                          dict(f('tags', 'ManyToManyField', db_table='vapp_beta_tags'), related='vapp.Alpha'),
                                                          dict(f('r', 'ForeignKey', null=True), related='vapp.Alpha')],
         'unique_together': [], 'index_together': [], 'indexes': [], 'constraints': []}]}]}


def m2m_alphabet():
    """attribute changes of relation fields: some have no database representation at all (null on a
    ManyToManyField), some are a rename of the join table, some are ordinary column changes"""
    cf = lambda field, *attrs, **kw: {'t': 'ChangeField', 'model': 'Beta', 'field': field, 'ftype': None,
                                      'initial': kw.get('initial'), 'attrs': [list(a) for a in attrs]}
    return [cf('tags', ('null', 'true')), cf('tags', ('null', 'false')),
            cf('tags', ('db_table', '"vapp_beta_labels"')), cf('tags', ('db_table', '"vapp_beta_tags2"')),
            cf('tags', ('null', 'true'), ('db_table', '"vapp_beta_labels"')),
            cf('r', ('null', 'false'), initial='1'), cf('r', ('db_index', 'false')), cf('n', ('null', 'true')),
            cf('n', ('db_index', 'true')),
            {'t': 'AddField', 'model': 'Beta', 'field': 'x', 'ftype': 'IntegerField', 'initial': '1', 'attrs': []},
            {'t': 'DeleteField', 'model': 'Beta', 'field': 'n'},
            {'t': 'AddField', 'model': 'Alpha', 'field': 'y', 'ftype': 'IntegerField', 'initial': '1', 'attrs': []}]


def index_rename_alphabet():
    """index changes and renames of the same columns of `Alpha` (a: indexed integer, b: nullable char):
    what a rename costs must not depend on bookkeeping that an earlier mutation of the batch is about to change"""
    cf = lambda field, *attrs: {'t': 'ChangeField', 'model': 'Alpha', 'field': field, 'ftype': None, 'initial': None,
                                'attrs': [list(a) for a in attrs]}
    rn = lambda old, new: {'t': 'RenameField', 'model': 'Alpha', 'old': old, 'new': new, 'db_column': None,
                           'db_table': None}
    return [cf('a', ('db_index', 'false')), cf('a', ('db_index', 'true')), cf('b', ('db_index', 'true')),
            cf('b', ('db_index', 'false')), cf('c', ('db_index', 'false')), rn('a', 'c'), rn('b', 'c'), rn('c', 'a'),
            {'t': 'AddField', 'model': 'Alpha', 'field': 'c', 'ftype': 'IntegerField', 'initial': '1',
             'attrs': [['db_index', 'true']]},
            cf('a', ('null', 'true')),
            # a column renamed in place (raw SQL on SQLite) next to an index change of another column
            cf('a', ('db_column', '"a_col"')), cf('b', ('db_column', '"b_col"'))]


def meta_sequences():
    """Meta changes of one model on both sides of something the optimiser cannot fold across (an SQLMutation, a
    rename of the model): an index that an earlier mutation of the batch creates is dropped or replaced by a
    later one - what that costs must not depend on the index not being in the database yet"""
    def metas(model):
        cm = lambda prop, val: {'t': 'ChangeMeta', 'model': model, 'prop': prop, 'py_value': val}
        return [cm('unique_together', [('a', 'b')]), cm('unique_together', []), cm('unique_together', [('b', 'a')]),
                cm('index_together', [('a', 'b')]), cm('index_together', [])]
    barrier = {'t': 'SQLMutation', 'tag': 'barrier', 'can_simulate': True, 'sql': []}
    rename = {'t': 'RenameModel', 'old': 'Alpha', 'new': 'Gamma', 'db_table': 'vapp_alpha'}
    out = []
    for sep, after in ((barrier, 'Alpha'), (rename, 'Gamma')):
        for m1 in metas('Alpha'):
            for m2 in metas(after):
                if m1['prop'] == m2['prop'] and m1['py_value'] != m2['py_value']:
                    out.append([m1, dict(sep), m2])
    return out


def rebuild_then_meta_sequences():
    """a change that rebuilds the table, directly followed by a Meta change of the same model (and the other way
    round): what the Meta change costs must not include the neighbour's rebuild a second time"""
    add = {'t': 'AddField', 'model': 'Alpha', 'field': 'c', 'ftype': 'IntegerField', 'initial': '1', 'attrs': []}
    nn = {'t': 'ChangeField', 'model': 'Alpha', 'field': 'b', 'ftype': None, 'initial': '"x"', 'attrs': [['null', 'false']]}
    dl = {'t': 'DeleteField', 'model': 'Alpha', 'field': 'b'}
    cm = lambda prop, val: {'t': 'ChangeMeta', 'model': 'Alpha', 'prop': prop, 'py_value': val}
    metas = [cm('index_together', [('a', 'b')]), cm('unique_together', [('a', 'b')]),
             cm('indexes', [{'name': 'alpha_a_ix', 'fields': ['a']}])]
    out = []
    for r in (add, nn):
        for m in metas:
            out.append([r, m])
            out.append([m, r])
    out.append([dl, cm('indexes', [{'name': 'alpha_a_ix', 'fields': ['a']}])])
    return out


def reuse_sequences():
    """a field name freed by a rename and used again by a new field, with changes of both fields around it"""
    cf = lambda field, *attrs: {'t': 'ChangeField', 'model': 'Alpha', 'field': field, 'ftype': None, 'initial': None,
                                'attrs': [list(a) for a in attrs]}
    rn = {'t': 'RenameField', 'model': 'Alpha', 'old': 'b', 'new': 'old_b', 'db_column': None, 'db_table': None}
    add = {'t': 'AddField', 'model': 'Alpha', 'field': 'b', 'ftype': 'CharField', 'initial': None,
           'attrs': [['max_length', '30'], ['null', 'true']]}
    return [[cf('b', ('db_index', 'true')), rn, add, cf('b', ('max_length', '30'))],
            [cf('b', ('db_index', 'true')), rn, add, cf('b', ('db_index', 'true'))],
            [cf('b', ('max_length', '25')), rn, add, cf('b', ('db_index', 'true'))]]


def rename_after_rebuild_sequences():
    """a mutation that rebuilds the table, then one whose SQL closes the pending group of operations (a column renamed
    in place), then an in-place rename of ANOTHER column through db_column: the second rename costs no rebuild in
    either run"""
    cf = lambda field, *attrs: {'t': 'ChangeField', 'model': 'Alpha', 'field': field, 'ftype': None, 'initial': None,
                                'attrs': [list(a) for a in attrs]}
    rn = lambda old, new: {'t': 'RenameField', 'model': 'Alpha', 'old': old, 'new': new, 'db_column': None, 'db_table': None}
    add = {'t': 'AddField', 'model': 'Alpha', 'field': 'c', 'ftype': 'IntegerField', 'initial': None, 'attrs': [['null', 'true']]}
    return [[add, rn('b', 'bb'), cf('a', ('db_column', '"a_col"'))],
            [add, rn('a', 'aa'), cf('b', ('db_column', '"b_col"'))],
            [cf('b', ('max_length', '30')), rn('a', 'aa'), cf('b', ('db_column', '"b_col"'))],
            [add, rn('b', 'bb'), cf('a', ('db_column', '"a_col"')), cf('bb', ('db_column', '"b_col"'))],
            [{'t': 'DeleteField', 'model': 'Alpha', 'field': 'b'}, cf('a', ('db_column', '"a_col"'))]]


def unique_spec():
    spec = optrig.start_spec()
    spec['apps'][0]['models'][0]['fields'].append(
        {'name': 'u', 'type': 'CharField', 'attrs': {'max_length': 10, 'unique': True}, 'related': None})
    return spec


def unique_rename_sequences():
    """a unique column renamed, then an index attribute of the renamed field changed in the same batch (and the
    other way round): what the later change costs must not depend on bookkeeping the rename left behind"""
    cf = lambda field, *attrs: {'t': 'ChangeField', 'model': 'Alpha', 'field': field, 'ftype': None, 'initial': None,
                                'attrs': [list(a) for a in attrs]}
    rn = lambda old, new: {'t': 'RenameField', 'model': 'Alpha', 'old': old, 'new': new, 'db_column': None,
                           'db_table': None}
    return [[rn('u', 's'), cf('s', ('db_index', 'true'))],
            [rn('u', 's'), cf('s', ('db_index', 'true')), cf('a', ('null', 'true'))],
            [rn('u', 's'), cf('s', ('db_index', 'false'))],
            [cf('u', ('db_index', 'true')), rn('u', 's')],
            [rn('u', 's'), rn('s', 't'), cf('t', ('db_index', 'true'))],
            [rn('a', 'z'), cf('z', ('unique', 'false'))]]


def constraint_spec():
    spec = optrig.start_spec()
    spec['apps'][0]['models'][0]['constraints'] = [{'type': 'UniqueConstraint', 'name': 'alpha_a_b_uniq',
                                                    'fields': ['a', 'b']}]
    return spec


def constraint_sequences():
    """a change that rebuilds the table, then the removal of the model's unique constraint (and the other way round,
    and the removal alone): what the removal costs must not depend on what the batch did before it"""
    add = {'t': 'AddField', 'model': 'Alpha', 'field': 'c', 'ftype': 'IntegerField', 'initial': None,
           'attrs': [['null', 'true']]}
    nn = {'t': 'ChangeField', 'model': 'Alpha', 'field': 'b', 'ftype': None, 'initial': '"x"', 'attrs': [['null', 'false']]}
    drop = {'t': 'ChangeMeta', 'model': 'Alpha', 'prop': 'constraints', 'py_value': []}
    return [[add, drop], [nn, drop], [drop, add], [drop], [add, nn, drop]]


def together_spec():
    spec = optrig.start_spec()
    spec['apps'][0]['models'][0]['unique_together'] = [['a', 'b']]
    return spec


def constraint_after_rename_sequences():
    """a model with unique_together: one of the pair's columns is renamed, then a plain UniqueConstraint over the same
    columns is added (and the addition alone, and after an unrelated rename): what the addition costs must not depend
    on bookkeeping the rename left behind"""
    rn = lambda old, new: {'t': 'RenameField', 'model': 'Alpha', 'old': old, 'new': new, 'db_column': None, 'db_table': None}
    uq = lambda *fields: {'t': 'ChangeMeta', 'model': 'Alpha', 'prop': 'constraints',
                          'py_value': [{'type': 'UniqueConstraint', 'name': 'alpha_pair_uniq', 'fields': list(fields)}]}
    return [[rn('b', 'bb'), uq('a', 'bb')], [uq('a', 'b')], [rn('a', 'aa'), uq('aa', 'b')],
            [{'t': 'ChangeField', 'model': 'Alpha', 'field': 'b', 'ftype': None, 'initial': None,
              'attrs': [['db_column', '"b_col"']]}, uq('a', 'b')]]


def tofield_spec():
    """Beta.r refers to Alpha through a non-key column (to_field), which is unique"""
    spec = optrig.start_spec()
    alpha, beta = spec['apps'][0]['models'][0], spec['apps'][0]['models'][1]
    for f in alpha['fields']:
        if f['name'] == 'a':
            f['attrs'] = {'unique': True}
    for f in beta['fields']:
        if f['name'] == 'r':
            f['attrs'] = dict(f['attrs'], to_field='a')
    return spec


def referenced_column_sequences():
    """the reference to a column goes away (the referring field or model is deleted), then the column is renamed in
    place: what the rename costs must not depend on a reference that an earlier mutation of the run removed"""
    rn = lambda old, new: {'t': 'RenameField', 'model': 'Alpha', 'old': old, 'new': new, 'db_column': None, 'db_table': None}
    return [[{'t': 'DeleteField', 'model': 'Beta', 'field': 'r'}, rn('a', 'aa')],
            [{'t': 'DeleteModel', 'model': 'Beta'}, rn('a', 'aa')],
            [{'t': 'DeleteField', 'model': 'Beta', 'field': 'r'},
             {'t': 'ChangeField', 'model': 'Alpha', 'field': 'a', 'ftype': None, 'initial': None,
              'attrs': [['db_column', '"a_col"']]}]]


def restated_meta_sequences():
    """the same Meta value stated by two evolutions of one batch (each carries the full list): the second statement
    changes nothing and must cost nothing, with or without another mutation in between"""
    from django.db import models
    add = {'t': 'AddField', 'model': 'Alpha', 'field': 'c', 'ftype': 'IntegerField', 'initial': None,
           'attrs': [['null', 'true']]}
    setc = lambda: {'t': 'ChangeMeta', 'model': 'Alpha', 'prop': 'constraints',
                    'py_value': [{'type': models.UniqueConstraint, 'name': 'alpha_a_b_uniq', 'fields': ('a', 'b')}]}
    setu = lambda: {'t': 'ChangeMeta', 'model': 'Alpha', 'prop': 'unique_together', 'py_value': [('a', 'b')]}
    seti = lambda: {'t': 'ChangeMeta', 'model': 'Alpha', 'prop': 'index_together', 'py_value': [('a', 'b')]}
    return [[setc(), setc()], [setc(), add, setc()], [setu(), add, setu()], [seti(), seti()]]


def run(ctx):
    dj.setup()
    quick = ctx.tier == 'quick'
    ctx.rule = ('simulation-valid, applicable sequences of the C03 space (exhaustive length<=2 over the 52-mutation '
                'alphabet sampled, random up to length 8) executed on a real SQLite database batched and one '
                'mutation at a time; non-trivial = at least one rebuild in the one-at-a-time run')
    # status of the extracted table (a proof obligation about generated data, evaluated by the driver)
    st = ctx.driver.ask([{'op': 'rebuilds', 'ops': []}])[0] if ctx.driver else {}
    ctx.variant['mergeable_ops'] = st.get('mergeable')
    ctx.variant['mergeable_ok'] = st.get('mergeable_ok')
    spec = optrig.start_spec()
    sig = sigs.sig_from_spec(spec)
    small = optrig.alphabet(small=True)
    seqs = list(optrig.valid_sequences(sig, small, 2))
    ctx.rng.shuffle(seqs)
    seqs = seqs[:120 if quick else 2500]
    full = optrig.alphabet(small=False)
    for _ in range(80 if quick else 2500):
        seqs.append(optrig.random_sequence(ctx.rng, sig, full, ctx.rng.randint(3, 8)))
    # single-model documented runs
    doc_alpha = [m for m in full if m.get('model') == 'Alpha' and m['t'] in ('AddField', 'DeleteField', 'ChangeField', 'ChangeMeta')]
    for _ in range(60 if quick else 1500):
        seqs.append(optrig.random_sequence(ctx.rng, sig, doc_alpha, ctx.rng.randint(2, 6)))
    # relation fields (many-to-many join tables, foreign keys): exhaustive length <= 2, sampled length 3
    spec2 = m2m_spec()
    sig2 = sigs.sig_from_spec(spec2)
    rel = list(optrig.valid_sequences(sig2, m2m_alphabet(), 2))
    rel3 = list(optrig.valid_sequences(sig2, m2m_alphabet(), 3))
    ctx.rng.shuffle(rel3)
    rel += rel3[:40 if quick else 1200]
    # index changes and renames of the same column: exhaustive length <= 2, sampled length 3
    ira = index_rename_alphabet()
    ir = list(optrig.valid_sequences(sig, ira, 2))
    ir3 = list(optrig.valid_sequences(sig, ira, 3))
    ctx.rng.shuffle(ir3)
    ir += ir3[:50 if quick else 2000]
    work = [(unique_spec(), q) for q in unique_rename_sequences()] + [(constraint_spec(), q) for q in constraint_sequences()] + [(together_spec(), q) for q in constraint_after_rename_sequences()] + [(tofield_spec(), q) for q in referenced_column_sequences()] + [(spec, q) for q in restated_meta_sequences()] + \
        [(spec, q) for q in meta_sequences() + reuse_sequences() + rebuild_then_meta_sequences() + rename_after_rebuild_sequences()] + [(spec2, q) for q in rel] + [(spec, q) for q in ir] + \
        [(spec, q) for q in seqs]
    merge_witness = None
    reqs = []
    pending = []
    reuse_candidates = {}
    for spec, seq in work:
        if ctx.time_left() < 20:
            break
        if not seq:
            continue
        ctx.count('space:relations' if spec is spec2 else 'space:C03+index/rename')
        try:
            ops_s, sql_s = run_on_db(spec, seq, stepwise=True)
        except Exception:
            ctx.count('stepwise_failed')       # C01's business
            continue
        try:
            ops_b, sql_b = run_on_db(spec, seq, stepwise=False)
        except Exception as e:
            ctx.count('batched_failed')        # C03's business
            continue
        cs, cb = count_rebuilds(sql_s), count_rebuilds(sql_b)
        ctx.case({'mutations': [sigs.model_mutation(m) for m in seq], 'stepwise': cs, 'batched': cb},
                 nontrivial=sum(cs.values()) > 0, sample_cap=6)
        ctx.count('rebuilds_stepwise=%d' % min(sum(cs.values()), 5))
        ctx.count('rebuilds_batched=%d' % min(sum(cb.values()), 5))
        rep = {'spec': spec, 'mutations': seq, 'stepwise': cs, 'batched': cb}
        # tables renamed differently in the two runs are compared by total
        worse = [t for t in cb if cb[t] > cs.get(t, 0)]
        if worse and sum(cb.values()) > sum(cs.values()):
            from .c03 import name_reuse, touches_renamed_model
            if (name_reuse(seq) or touches_renamed_model(seq)) and optrig.model_explains_optimiser(ctx, spec, seq):
                # decided below, once the rebuild-count model has been asked: the name-reuse finding explains the
                # extra rebuild only if the operations the optimiser left really cost that many rebuilds in the model
                reuse_candidates[len(pending)] = rep
            else:
                ctx.fail(None, 'the optimised run rebuilds table %s more often (%d) than the one-at-a-time run (%d)'
                         % (worse[0], cb[worse[0]], cs.get(worse[0], 0)), rep)
        if documented_run(seq) and sum(cb.values()) > 1:
            ctx.count('documented_run_multiple_rebuilds')
            if merge_witness is None or len(seq) < len(merge_witness['mutations']):
                merge_witness = rep
        # correspondence: model prediction per model mutator vs real statement count
        for name, ops in ops_b:
            reqs.append({'op': 'rebuilds', 'ops': ops})
        pending.append((seq, ops_b, sum(cb.values())))
    outs = ctx.driver.ask(reqs) if ctx.driver else []
    k = 0
    for i, (seq, ops_b, real_total) in enumerate(pending):
        pred = 0
        for name, ops in ops_b:
            pred += outs[k]['rebuilds'] if outs else 0
            k += 1
        if outs:
            ctx.corr_case('rebuild_count', pred == real_total, case={'mutations': seq, 'ops': ops_b},
                          model=pred, impl=real_total)
        if i in reuse_candidates:
            if not outs or pred == real_total:
                ctx.count('worse_under_name_reuse')
                ctx.fail(F_REUSE, 'with name reuse the optimised run differs from the one-at-a-time run',
                         reuse_candidates[i])
            else:
                ctx.fail(None, 'the optimised run rebuilds more often than the one-at-a-time run, and more often (%d) '
                         'than the operations it executes cost in the model (%d)' % (real_total, pred), reuse_candidates[i])
    # ---- the documented guarantee and the extracted table ------------------------------------
    w = [{'t': 'AddField', 'model': 'Alpha', 'field': 'c', 'ftype': 'IntegerField', 'initial': '1', 'attrs': []},
         {'t': 'DeleteField', 'model': 'Alpha', 'field': 'b'}]
    spec = optrig.start_spec()
    ops_b, sql_b = run_on_db(spec, w, stepwise=False)
    n = sum(count_rebuilds(sql_b).values())
    ctx.variant['C18_cex_add_delete_rebuilds'] = n
    if n > 1:
        ctx.fail(F_MERGE, 'an added and a deleted column of one model are two rebuilds (mergeable_ops = %r)'
                 % (st.get('mergeable'),), {'spec': spec, 'mutations': w, 'rebuilds': n})
    elif merge_witness is not None:
        ctx.fail(None, 'a documented single-rebuild run needs several rebuilds', merge_witness)
    if st and st.get('mergeable_ok') is False and n <= 1:
        ctx.brk('proof', 'C18_documented hypothesis (mergeableOK Generated.mergeableOps)',
                'the extracted table %r does not contain the four documented operation types' % (st.get('mergeable'),))
    if merge_witness is not None and n > 1:
        ctx.fail(F_MERGE, 'a documented single-rebuild run needs several rebuilds', merge_witness)


def replay(ctx, obj):
    dj.setup()
    r = obj.get('replay', obj)
    spec = r.get('spec') or optrig.start_spec()
    _, s1 = run_on_db(spec, r['mutations'], True)
    _, s2 = run_on_db(spec, r['mutations'], False)
    cs, cb = count_rebuilds(s1), count_rebuilds(s2)
    print('one at a time: %r, batched: %r' % (cs, cb))
    return 1 if sum(cb.values()) > sum(cs.values()) or (documented_run(r['mutations']) and sum(cb.values()) > 1) else 0
