"""C10 — handing an app over to Django migrations is clean and one-way.

Lean: DEvo/Run/Migrations.lean, DEvo/Props/C10.lean (which migrations of a chain are recorded
without being executed, which are executed, in which order; no duplicates; no-op afterwards).
Tie/oracle: generated apps with k evolutions followed by MoveToDjangoMigrations(mark_applied =
a prefix S of an in-memory chain of m migrations), started from a fresh database, from a database
at any earlier evolution, and from a database already on migrations; alone and next to an
evolution-only app; the recorded/executed migrations are compared with the Lean model and the
property is checked on the real signals, recorder, stored signature and a second run.
"""
import json

from .. import dbrig, evorig, sigs


def fields(names):
    return [{'name': 'id', 'type': 'AutoField', 'attrs': {'primary_key': True}, 'related': None}] + \
        [{'name': n, 'type': 'IntegerField', 'attrs': {'null': True}, 'related': None} for n in names]


def spec(names, with_other, tag=False):
    apps = [{'id': 'vapp', 'models': [{'name': 'Alpha', 'table': 'vapp_alpha', 'fields': fields(names),
                                       'unique_together': [], 'index_together': [], 'indexes': [], 'constraints': []}]}]
    if tag:
        apps[0]['models'].append({'name': 'Tag', 'table': 'vapp_tag', 'fields': fields(['t']),
                                  'unique_together': [], 'index_together': [], 'indexes': [], 'constraints': []})
    if with_other:
        apps.append({'id': 'wapp', 'models': [{'name': 'Wal', 'table': 'wapp_wal', 'fields': fields(with_other),
                                               'unique_together': [], 'index_together': [], 'indexes': [],
                                               'constraints': []}]})
    return {'apps': apps}


class Case(object):
    def __init__(self, k, m, s, with_other):
        self.k, self.m, self.s, self.with_other = k, m, s, with_other
        self.app = 'vapp'          # the label of the app that is handed over (tools/vlib/c10_worker.py also uses `lapp`)
        self.fnames = ['f%d' % i for i in range(1, k + 1)]
        self.gnames = ['g%d' % j for j in range(1, m)]
        # evolutions: one per f, one per g that the marked prefix already covers, then the hand-over
        self.evo_fields = self.fnames + self.gnames[:max(s - 1, 0)]

    def migrations(self):
        from django.db import migrations, models
        init_fields = [('id', models.AutoField(primary_key=True, serialize=False, auto_created=True, verbose_name='ID'))] + \
            [(n, models.IntegerField(null=True)) for n in ['base'] + self.fnames]
        ops = [migrations.CreateModel(name='Alpha', fields=init_fields, options={'db_table': '%s_alpha' % self.app})]
        if getattr(self, 'tag', False):
            ops.append(migrations.CreateModel(name='Tag', fields=[
                ('id', models.AutoField(primary_key=True, serialize=False, auto_created=True, verbose_name='ID')),
                ('t', models.IntegerField(null=True))], options={'db_table': 'vapp_tag'}))
        Initial = type('Migration', (migrations.Migration,), {'initial': True, 'operations': ops})
        out = [Initial('0001_initial', self.app)]
        prev = '0001_initial'
        for j, g in enumerate(self.gnames):
            name = '%04d_add_%s' % (j + 2, g)
            M = type('Migration', (migrations.Migration,), {
                'dependencies': [(self.app, prev)],
                'operations': [migrations.AddField(model_name='Alpha', name=g, field=models.IntegerField(null=True))]})
            out.append(M(name, self.app))
            prev = name
        return out

    def names(self):
        return ['0001_initial'] + ['%04d_add_%s' % (j + 2, g) for j, g in enumerate(self.gnames)]

    def evolutions(self, upto=None):
        """the first `upto` field evolutions (None: all of them plus the hand-over)"""
        from django.db import models
        from django_evolution.mutations import AddField, MoveToDjangoMigrations
        ev = [{'label': 'e_%s' % n, 'mutations': [AddField('Alpha', n, models.IntegerField, null=True)]}
              for n in self.evo_fields]
        if upto is not None:
            return ev[:upto]
        ev.append({'label': 'to_migrations',
                   'mutations': [MoveToDjangoMigrations(mark_applied=self.names()[:self.s])]})
        return ev


def run_once(case, vapp_fields, evolutions, migrations, other_fields=None, other_evos=None, fail_first=None, tag=False,
             force=False):
    from django_evolution.compat.apps import get_apps
    from django_evolution.evolve import EvolveAppTask, Evolver
    from django_evolution.utils.apps import get_app_label
    evorig._hygiene()
    evorig.install_models(spec(vapp_fields, other_fields, tag=tag))
    evorig.set_evolutions('wapp', other_evos or [])
    # the evolutions are discovered the normal way (modules under vapp.evolutions); only the
    # migrations are handed in, since they exist in memory only
    evorig.set_evolutions('vapp', evolutions or [])
    tr = evorig.Trace(fail_first=fail_first)
    res = {'ok': True, 'error': None, 'required': None}
    with tr.recording():
        try:
            ev = Evolver()
            for a in get_apps():
                if get_app_label(a) == 'vapp':
                    ev.queue_task(EvolveAppTask(ev, a, migrations=migrations))
                else:
                    ev.queue_evolve_app(a)
            res['required'] = ev.get_evolution_required()
            if res['required'] or force:
                # (`force`: the replaced `migrate` command runs the evolver whether or not the package itself has work)
                ev.evolve()
        except Exception as e:
            res['ok'] = False
            res['error'] = '%s: %s' % (type(e).__name__, str(e)[:200])
    res['trace'] = tr
    return res


def recorder(app='vapp'):
    from django.db import connection
    with connection.cursor() as cur:
        tables = connection.introspection.table_names(cur)
        if 'django_migrations' not in tables:
            return []
        cur.execute('SELECT name FROM django_migrations WHERE app = %s ORDER BY id', [app])
        return [r[0] for r in cur.fetchall()]


def run(ctx):
    evorig.setup()
    quick = ctx.tier == 'quick'
    ctx.rule = ('apps with k in 0..2 evolutions then MoveToDjangoMigrations(mark_applied = prefix of length s) and a chain '
                'of m in 1..3 in-memory migrations, every s in 0..m, start states {fresh database, database at each '
                'earlier evolution, database already on migrations}, alone and next to an evolution-only app; '
                'non-trivial = every case (exhaustive over these parameters in both tiers)')
    relabelled_app_probe(ctx)
    late_model_cases(ctx)
    later_migration_cases(ctx)
    unsimulatable_handover_cases(ctx)
    fresh_migration_app_cases(ctx)
    combos = [(k, m, s, o) for k in (0, 1, 2) for m in (1, 2, 3) for s in range(0, m + 1) for o in (False, True)]
    ctx.rng.shuffle(combos)
    if quick:
        # a sample, with the empty prefix (nothing named as already applied) always in it
        combos = [c for c in combos if c[2] == 0][:3] + [c for c in combos if c[2] != 0][:9]
    else:
        ctx.exhaustive = True
    for (k, m, s, other) in combos:
        if ctx.time_left() < 25:
            ctx.exhaustive = False
            break
        case = Case(k, m, s, other)
        names = case.names()
        final_fields = ['base'] + case.fnames + case.gnames
        other_final = ['base', 'w1'] if other else None
        other_evos = None
        if other:
            from django.db import models
            from django_evolution.mutations import AddField
            other_evos = [{'label': 'w_e1', 'mutations': [AddField('Wal', 'w1', models.IntegerField, null=True)]}]
        # 'interrupted': the hand-over run itself was started before and died while saving its records
        starts = ['fresh'] + ['evo%d' % i for i in range(len(case.evo_fields) + 1)] + ['migrated', 'interrupted',
                                                                                      'interrupted_early']
        for start in starts:
            rep = {'k': k, 'm': m, 's': s, 'with_other_app': other, 'start': start}
            evorig.fresh_databases()
            evorig.clear_evolutions()
            pre_recorded = []
            if start != 'fresh':
                i = len(case.evo_fields) if start in ('migrated', 'interrupted', 'interrupted_early') else int(start[3:])
                base_fields = ['base']
                r0 = run_once(case, base_fields, None, None, ['base'] if other else None)
                if not r0['ok']:
                    ctx.fail(None, 'creating the start database fails: %s' % r0['error'], rep)
                    continue
                if i > 0:
                    r1 = run_once(case, ['base'] + case.evo_fields[:i], case.evolutions(upto=i), None,
                                  ['base'] if other else None)
                    if not r1['ok']:
                        ctx.fail(None, 'bringing the database to evolution %d fails: %s' % (i, r1['error']), rep)
                        continue
                if start == 'migrated':
                    r2 = run_once(case, final_fields, case.evolutions(), case.migrations(), other_final, other_evos)
                    if not r2['ok']:
                        if s == m and 'was not found (required by "evolution:vapp:to_migrations")' in r2['error']:
                            ctx.fail('F45', 'the hand-over run fails: %s' % r2['error'], rep)
                        else:
                            ctx.fail(None, 'the first hand-over (to prepare the migrated start state) fails: %s' % r2['error'], rep)
                        continue
                if start in ('interrupted', 'interrupted_early'):
                    if start == 'interrupted':
                        pred = lambda sql: 'django_project_version' in sql
                    else:
                        # ... or right after the named migrations were written, before anything else happened
                        seen = []

                        def pred(sql):
                            if 'INSERT INTO "django_migrations"' in sql:
                                seen.append(1)
                                return False
                            return bool(seen)
                    r3 = run_once(case, final_fields, case.evolutions(), case.migrations(), other_final, other_evos,
                                  fail_first=pred)
                    ctx.count('%s_first_attempt:%s' % (start, 'failed' if not r3['ok'] else 'completed'))
                pre_recorded = recorder()
            # ---- the run under test -----------------------------------------------------------
            res = run_once(case, final_fields, case.evolutions(), case.migrations(), other_final, other_evos)
            ctx.case(rep, nontrivial=True, sample_cap=8)
            ctx.count('start:%s' % ('evo' if start.startswith('evo') else start))
            if start.startswith('interrupted'):
                ctx.count('%s:retry_%s' % (start, 'ok' if res['ok'] else 'fails'))
            if not res['ok']:
                if s == m and start != 'fresh' and 'was not found (required by "evolution:vapp:to_migrations")' in res['error']:
                    ctx.fail('F45', 'the hand-over run fails: %s' % res['error'], rep)
                elif start == 'interrupted' and all(x in pre_recorded for x in names[:s]) and \
                        'was not found (required by "evolution:vapp:to_migrations")' in res['error']:
                    ctx.fail('F61', 'the repeated hand-over run fails: %s' % res['error'], rep)
                else:
                    ctx.fail(None, 'the hand-over run fails: %s' % res['error'], rep)
                continue
            sig_list = res['trace'].signals()
            executed = [info['migration'][1] for n, info in sig_list
                        if n == 'applying_migration' and info['migration'][0] == 'vapp']
            applied_evo_idx = [i for i, (n, info) in enumerate(sig_list) if n == 'applied_evolution' and info.get('app') == 'vapp']
            first_mig_idx = [i for i, (n, info) in enumerate(sig_list)
                             if n == 'applying_migration' and info['migration'][0] == 'vapp']
            rec = recorder()
            rep.update({'executed': executed, 'recorded': rec, 'signals': [s_[0] for s_ in sig_list]})
            # correspondence with the Lean model
            if ctx.driver:
                pre_idx = [names.index(x) for x in pre_recorded if x in names]
                out = ctx.driver.ask([{'op': 'migrations', 'm': m, 's': s, 'recorded': pre_idx,
                                       'fresh': start == 'fresh'}])[0]
                want_exec = [names[i] for i in out['execute']]
                want_rec = sorted(names[i] for i in out['recorded_after'])
                if (start == 'fresh' or s == 0) and rec.count(names[0]) == 2 and want_rec.count(names[0]) == 1:
                    want_rec = sorted(want_rec + [names[0]])      # findings F44 / F62, see below
                ctx.corr_case('handover', executed == want_exec and sorted(rec) == want_rec, case=rep,
                              model={'execute': want_exec, 'recorded': want_rec},
                              impl={'execute': executed, 'recorded': sorted(rec)})
            # ---- oracle ----------------------------------------------------------------------
            # every migration that is neither named as covered nor recorded before the run must be executed
            must_run = names if start == 'fresh' else [x for x in names[s:] if x not in pre_recorded]
            not_run = [x for x in must_run if x not in executed]
            if not_run:
                ctx.fail(None, 'migrations %s were not executed although they are neither named as already covered '
                         'nor recorded' % not_run, rep)
            if s == 0 and start != 'fresh':
                # the empty prefix: finding F62 (the initial migration is treated as a pre-stage migration)
                dup0 = sorted(rec) == sorted(names + [names[0]])
                early = bool(applied_evo_idx and first_mig_idx and max(applied_evo_idx) > min(first_mig_idx))
                bk0 = evorig.bookkeeping()
                a0 = bk0['sig'].get_app_sig('vapp') if bk0['sig'] is not None else None
                sig_ok = a0 is not None and sorted(set(a0.applied_migrations or [])) == sorted(set(rec))
                empty_after_interrupt = (start.startswith('interrupted') and a0 is not None and
                                         not (a0.applied_migrations or []))
                if (dup0 or early or empty_after_interrupt) and sorted(set(rec)) == sorted(names) and \
                        (sig_ok or empty_after_interrupt) and executed == [x for x in names if x in executed]:
                    ctx.fail('F62', 'with an empty mark_applied the initial migration is handled as a pre-stage migration: '
                             'recorded %s, ran before the evolutions: %s' % (rec, early), rep)
                    continue
            if applied_evo_idx and first_mig_idx and max(applied_evo_idx) > min(first_mig_idx):
                ctx.fail(None, 'a migration of the app ran before its pending evolutions were applied', rep)
            dup_initial_only = (start == 'fresh' and sorted(rec) == sorted(names + [names[0]]))
            if dup_initial_only:
                ctx.fail('F44', 'on a fresh database the initial migration is recorded twice: %s' % rec, rep)
                rec = sorted(set(rec))
            if len(rec) != len(set(rec)):
                ctx.fail(None, 'a migration is recorded twice: %s' % rec, rep)
            if sorted(rec) != sorted(names):
                ctx.fail(None, 'recorded migrations %s, expected the whole chain %s' % (rec, names), rep)
            if start != 'fresh':
                for x in names[:s]:
                    if x in executed:
                        ctx.fail(None, 'migration %s is named as already covered but was executed' % x, rep)
            for x in pre_recorded:
                if x in executed:
                    ctx.fail(None, 'already applied migration %s was executed again' % x, rep)
            if executed != [x for x in names if x in executed]:
                ctx.fail(None, 'migrations executed out of chain order: %s' % executed, rep)
            if len(executed) != len(set(executed)):
                ctx.fail(None, 'a migration was executed twice: %s' % executed, rep)
            cols = sorted(dbrig.abs_schema().get('vapp_alpha', {}).get('columns', {}))
            if cols != sorted(['id'] + final_fields):
                ctx.fail(None, 'final columns %s, expected %s' % (cols, sorted(['id'] + final_fields)), rep)
            bk = evorig.bookkeeping()
            a = bk['sig'].get_app_sig('vapp')
            if a is None or a.upgrade_method != 'migrations' or sorted(a.applied_migrations or []) != sorted(rec):
                ctx.fail(None, 'stored signature says upgrade_method=%r applied_migrations=%r, recorder has %r'
                         % (getattr(a, 'upgrade_method', None), sorted(getattr(a, 'applied_migrations', None) or []), sorted(rec)), rep)
            # second run: nothing required, no evolution SQL for the app
            res2 = run_once(case, final_fields, case.evolutions(), case.migrations(), other_final, other_evos)
            w2 = [w for w in res2['trace'].write_statements()]
            if not res2['ok'] or res2['required'] or w2:
                ctx.fail(None, 'a further run is not a no-op: ok=%s required=%s writes=%d'
                         % (res2['ok'], res2['required'], len(w2)), rep)


def late_model_cases(ctx):
    """a model that enters the app in the release that hands it over: its table is not in the database yet, and the
    migration that would create it is among those named as already applied - the hand-over run must create it"""
    for (k, m, s, start_i) in ((1, 2, 1, 0), (1, 2, 2, 1), (0, 2, 1, 0), (1, 3, 1, 1)):
        if ctx.time_left() < 25:
            return
        case = Case(k, m, s, False)
        case.tag = True
        names = case.names()
        final_fields = ['base'] + case.fnames + case.gnames
        rep = {'scenario': 'model added in the hand-over release', 'k': k, 'm': m, 's': s, 'start': 'evo%d' % start_i}
        evorig.fresh_databases()
        evorig.clear_evolutions()
        r0 = run_once(case, ['base'], None, None)
        ok = r0['ok']
        if ok and start_i > 0:
            r1 = run_once(case, ['base'] + case.evo_fields[:start_i], case.evolutions(upto=start_i), None)
            ok = r1['ok']
        if not ok:
            ctx.count('late_model:start_failed')
            continue
        res = run_once(case, final_fields, case.evolutions(), case.migrations(), tag=True)
        ctx.case(rep, nontrivial=True, sample_cap=2)
        ctx.count('late_model:%s' % ('ok' if res['ok'] else 'fails'))
        if not res['ok']:
            if s == m and 'was not found (required by "evolution:vapp:to_migrations")' in res['error']:
                ctx.fail('F45', 'the hand-over run fails: %s' % res['error'], rep)
            else:
                ctx.fail(None, 'the hand-over run with a new model fails: %s' % res['error'], rep)
            continue
        schema = dbrig.abs_schema()
        cols = sorted(schema.get('vapp_tag', {}).get('columns', {}))
        if cols != ['id', 't']:
            ctx.fail(None, 'the model added in the hand-over release has columns %s after the run, expected [id, t]: '
                     'nobody created its table' % cols, rep)
        rec = recorder()
        if sorted(set(rec)) != sorted(names):
            ctx.fail(None, 'recorded migrations %s, expected the whole chain %s' % (rec, names), rep)
        res2 = run_once(case, final_fields, case.evolutions(), case.migrations(), tag=True)
        w2 = [w for w in res2['trace'].write_statements()]
        if not res2['ok'] or res2['required'] or w2:
            ctx.fail(None, 'a further run after the hand-over with a new model is not a no-op: ok=%s required=%s '
                     'writes=%d' % (res2['ok'], res2['required'], len(w2)), rep)


def later_migration_cases(ctx):
    """a release AFTER the hand-over that only adds a migration to the app's chain (nothing for the package itself to
    do): the migration is executed and recorded once, and the stored signature lists it"""
    for (k, m, s, other) in ((1, 2, 1, False), (0, 2, 1, False), (1, 3, 2, True)):
        if ctx.time_left() < 25:
            return
        c1, c2 = Case(k, m, s, other), Case(k, m + 1, s, other)
        rep = {'scenario': 'a migration added after the hand-over', 'k': k, 'm': m, 's': s, 'with_other_app': other}
        other_final = ['base', 'w1'] if other else None
        other_evos = None
        if other:
            from django.db import models
            from django_evolution.mutations import AddField
            other_evos = [{'label': 'w_e1', 'mutations': [AddField('Wal', 'w1', models.IntegerField, null=True)]}]
        evorig.fresh_databases()
        evorig.clear_evolutions()
        r0 = run_once(c1, ['base'], None, None, ['base'] if other else None)
        f1 = ['base'] + c1.fnames + c1.gnames
        r1 = run_once(c1, f1, c1.evolutions(), c1.migrations(), other_final, other_evos) if r0['ok'] else r0
        if not r1['ok']:
            ctx.count('later_migration:handover_failed')       # judged by the main cases (F45 etc.)
            continue
        f2 = ['base'] + c2.fnames + c2.gnames
        res = run_once(c2, f2, c2.evolutions(), c2.migrations(), other_final, other_evos, force=True)
        ctx.case(rep, nontrivial=True, sample_cap=2)
        ctx.count('later_migration:%s' % ('ok' if res['ok'] else 'fails'))
        if not res['ok']:
            ctx.fail(None, 'the release after the hand-over fails: %s' % res['error'], rep)
            continue
        names = c2.names()
        executed = [info['migration'][1] for n, info in res['trace'].signals()
                    if n == 'applying_migration' and info['migration'][0] == 'vapp']
        rec = recorder()
        rep.update({'executed': executed, 'recorded': rec})
        if executed != [names[-1]]:
            ctx.fail(None, 'the release after the hand-over executed %s, expected exactly the new migration %s'
                     % (executed, names[-1]), rep)
        if sorted(set(rec)) != sorted(names) or rec.count(names[-1]) != 1:
            ctx.fail(None, 'recorded migrations %s, expected the chain %s with the new one once' % (rec, names), rep)
        bk = evorig.bookkeeping()
        a = bk['sig'].get_app_sig('vapp') if bk['sig'] is not None else None
        if a is None or a.upgrade_method != 'migrations' or sorted(set(a.applied_migrations or [])) != sorted(set(rec)):
            ctx.fail(None, 'after the release that added a migration the stored signature lists %r, the recorder has %r'
                     % (sorted(getattr(a, 'applied_migrations', None) or []), sorted(set(rec))), rep)
        res2 = run_once(c2, f2, c2.evolutions(), c2.migrations(), other_final, other_evos, force=True)
        w2 = [w for w in res2['trace'].write_statements() if 'django_project_version' not in w]
        if not res2['ok'] or res2['required'] or w2:
            ctx.fail(None, 'a further run after the added migration is not a no-op: %s' % (w2[:1],), rep)
        else:
            bk = evorig.bookkeeping()
            a = bk['sig'].get_app_sig('vapp') if bk['sig'] is not None else None
            if a is None or sorted(set(a.applied_migrations or [])) != sorted(set(rec)):
                ctx.fail(None, 'after a further run the stored signature still lists %r, the recorder has %r'
                         % (sorted(getattr(a, 'applied_migrations', None) or []), sorted(set(rec))), rep)


def unsimulatable_handover_cases(ctx):
    """the hand-over release also has an evolution made of raw SQL that the package cannot simulate (SQLMutation
    without an update function) pending in the same run: the hand-over is stored all the same"""
    from django_evolution.mutations import SQLMutation
    for (k, m, s, start_i) in ((1, 2, 1, 0), (1, 3, 2, 1), (0, 2, 1, 0)):
        if ctx.time_left() < 25:
            return
        case = Case(k, m, s, False)
        names = case.names()
        final_fields = ['base'] + case.fnames + case.gnames

        def evolutions(upto=None, case=case):
            ev = case.evolutions(upto=upto)
            if upto is None:
                ev.insert(len(ev) - 1, {'label': 'raw_touch', 'mutations': [
                    SQLMutation('raw_touch', ['UPDATE "vapp_alpha" SET "base" = "base";'])]})
            return ev
        rep = {'scenario': 'hand-over next to an evolution that cannot be simulated', 'k': k, 'm': m, 's': s,
               'start': 'evo%d' % start_i}
        evorig.fresh_databases()
        evorig.clear_evolutions()
        ok = run_once(case, ['base'], None, None)['ok']
        if ok and start_i > 0:
            ok = run_once(case, ['base'] + case.evo_fields[:start_i], evolutions(upto=start_i), None)['ok']
        if not ok:
            ctx.count('unsimulatable_handover:start_failed')
            continue
        res = run_once(case, final_fields, evolutions(), case.migrations())
        ctx.case(rep, nontrivial=True, sample_cap=2)
        ctx.count('unsimulatable_handover:%s' % ('ok' if res['ok'] else 'fails'))
        if not res['ok']:
            ctx.fail(None, 'the hand-over run next to a raw-SQL evolution fails: %s' % res['error'], rep)
            continue
        rec = recorder()
        bk = evorig.bookkeeping()
        a = bk['sig'].get_app_sig('vapp') if bk['sig'] is not None else None
        rep.update({'recorded': rec, 'stored_upgrade_method': getattr(a, 'upgrade_method', None),
                    'stored_applied_migrations': sorted(getattr(a, 'applied_migrations', None) or [])})
        if sorted(set(rec)) != sorted(names):
            ctx.fail(None, 'recorded migrations %s, expected the whole chain %s' % (rec, names), rep)
        if a is None or a.upgrade_method != 'migrations' or sorted(set(a.applied_migrations or [])) != sorted(set(rec)):
            ctx.fail(None, 'after the hand-over the stored signature says upgrade_method=%r applied_migrations=%r, the '
                     'recorder has %r' % (rep['stored_upgrade_method'], rep['stored_applied_migrations'], sorted(set(rec))), rep)


def fresh_migration_app_cases(ctx):
    """the hand-over next to a migration-managed app that is installed in the very same run (tools/vlib/c10_worker.py,
    own process: the project then has such an app): the run also has migrations to apply before the evolutions; the
    migrations named as covered are recorded once and not executed, the rest is executed in order, the stored
    signature lists what the migration table has, the same release once more does nothing"""
    import os
    import subprocess
    import sys
    import tempfile
    here = os.path.dirname(os.path.dirname(os.path.abspath(__file__)))
    fd, out = tempfile.mkstemp(prefix='devo-c10-', suffix='.json')
    os.close(fd)
    try:
        p = subprocess.run([sys.executable, '-B', os.path.join(here, 'c10_worker.py'), out],
                           stdout=subprocess.PIPE, stderr=subprocess.STDOUT, timeout=max(60, ctx.time_left()))
        if p.returncode != 0:
            raise RuntimeError('C10 worker failed: %s' % p.stdout.decode()[-600:])
        results = json.load(open(out))
    finally:
        if os.path.exists(out):
            os.unlink(out)
    for r in results:
        k, m, s_ = r['params']
        rep = {'scenario': 'hand-over next to the first installation of a migration-managed app', 'k': k, 'm': m, 's': s_,
               'observed': r}
        ctx.count('fresh_migration_app_cases')
        ctx.case({'scenario': rep['scenario'], 'k': k, 'm': m, 's': s_}, nontrivial=True, sample_cap=2)
        if 'rig_error' in r:
            ctx.fail(None, 'the hand-over next to a fresh migration-managed app cannot be run: %s' % r['rig_error'], rep)
            continue
        bad = [x for x in r['runs'] if not x['ok']]
        if bad:
            ctx.fail(None, '%s fails: %s' % (bad[0]['what'], bad[0]['error']), rep)
            continue
        names = r['expected_vapp_rows']
        app = r.get('app', 'vapp')
        rep['app'] = app
        if r.get('stray_labels'):
            ctx.fail(None, 'after the hand-over of %s django_migrations has rows for labels that are no app of the '
                     'project: %r' % (app, r['stray_labels']), rep)
        signalled = [l for ls in r['runs'][1].get('applying_evolution', []) for l in ls]
        if r.get('expected_evolutions') is not None and len(r['expected_evolutions']) > 1 and \
                signalled != r['expected_evolutions']:      # (a hand-over alone has no SQL and is not announced)
            ctx.fail(None, 'the hand-over run applied the evolutions %r of %s, pending were %r'
                     % (signalled, app, r['expected_evolutions']), rep)
        if r.get('expected_columns') is not None and r.get('columns') != r['expected_columns']:
            ctx.fail(None, 'after the hand-over the table of %s has the columns %r, the models have %r'
                     % (app, r.get('columns'), r['expected_columns']), rep)
        if sorted(r['vapp_rows']) != sorted(names):
            ctx.fail(None, 'after the hand-over next to a fresh migration-managed app django_migrations has %r for the '
                     'app, expected each of %r once' % (r['vapp_rows'], names), rep)
        executed = [x for x in r['runs'][1]['applying_migration'] if x.startswith("('%s'" % app)]
        want = ["('%s', '%s')" % (app, n) for n in names[s_:]]
        if executed != want:
            ctx.fail(None, 'the hand-over executed %r, expected exactly the migrations after the covered prefix, in '
                     'order: %r' % (executed, want), rep)
        st = r['stored_vapp']
        if st is None or st['upgrade_method'] != 'migrations' or st['applied_migrations'] != sorted(set(r['vapp_rows'])):
            ctx.fail(None, 'stored signature says %r, the migration table has %r' % (st, r['vapp_rows']), rep)
        if r['runs'][2]['applying_migration'] or r['vapp_rows_after_second_run'] != r['vapp_rows']:
            ctx.fail(None, 'the same release once more is not a no-op: applied %r, rows %r'
                     % (r['runs'][2]['applying_migration'], r['vapp_rows_after_second_run']), rep)


def relabelled_app_probe(ctx):
    """an app whose label (AppConfig.label) differs from its module name: the stored signature lists exactly the
    migrations that django_migrations records for the app LABEL.  The rig's apps cannot change their label inside one
    process, so the step of the hand-over that decides this - handing the recorded migrations to the app's signature -
    is exercised directly, for labels equal to and different from the legacy (module) name."""
    from django_evolution.signature import AppSignature
    from django_evolution.utils.migrations import MigrationList
    rows = [('handover', '0001_initial'), ('handover', '0002_more'), ('c10app', '0001_initial'), ('other', '0001_initial'),
            ('other', '0002_x')]
    for app_id, legacy in (('c10app', 'c10app'), ('handover', 'c10app'), ('other', None), ('handover', 'other')):
        ml = MigrationList()
        for label, name in rows:
            ml.add_migration_info(app_label=label, name=name)
        a = AppSignature(app_id=app_id, legacy_app_label=legacy)
        a.applied_migrations = ml
        got = sorted(a.applied_migrations or [])
        want = sorted(name for label, name in rows if label == app_id)
        ctx.count('relabelled_app_probe')
        ctx.case({'app_id': app_id, 'legacy_app_label': legacy, 'recorded': rows}, nontrivial=True, sample_cap=2)
        if got != want:
            ctx.fail(None, 'the signature of app %r (legacy label %r) lists %s, django_migrations records %s for it'
                     % (app_id, legacy, got, want), {'app_id': app_id, 'legacy_app_label': legacy, 'recorded': rows})


def replay(ctx, obj):
    print('cases are enumerated: re-run ./check C10 thorough; failing parameters: %r' % (obj.get('replay'),))
    return 0
