"""C15 — purging and deleting remove exactly what was named, nothing else.

Lean: DEvo/Props/C15.lean (exactness and frame of DeleteModel / DeleteApplication on the
signature; owned-table list).
Oracle on the real code: generated projects of installed apps plus a stale app (tables and
signature entries present, app not installed any more) with cross-app relations, many-to-many
fields and table names that are prefixes of each other; `evolve --execute` with and without
--purge; DeleteModel / DeleteApplication through evolutions; table list, per-table schema and
rows, stored signature entries before vs after.
"""
import random

from .. import dbrig, evorig, sigs


def stale_spec(rng, vapp_models):
    """app `yapp`: 1-2 models, optional M2M among themselves, FK into vapp, prefix table names"""
    names = rng.sample(['Yo', 'Yolk'], rng.randint(1, 2))
    models = []
    for i, n in enumerate(names):
        fields = [{'name': 'id', 'type': 'AutoField', 'attrs': {'primary_key': True}, 'related': None},
                  {'name': 'v', 'type': 'IntegerField', 'attrs': {'null': True}, 'related': None}]
        if vapp_models and rng.random() < 0.5:
            fields.append({'name': 'ref', 'type': 'ForeignKey', 'attrs': {'null': True},
                           'related': 'vapp.%s' % rng.choice(vapp_models)})
        if rng.random() < 0.4:
            # a model that refers to itself (a tree, a thread of replies)
            fields.append({'name': 'parent', 'type': 'ForeignKey', 'attrs': {'null': True}, 'related': 'yapp.%s' % n})
        if i > 0 and rng.random() < 0.7:
            fields.append({'name': 'pals', 'type': 'ManyToManyField', 'attrs': {}, 'related': 'yapp.%s' % names[0]})
        if vapp_models and rng.random() < 0.6:
            # several many-to-many fields on one model: each owns an automatically created table
            # ... some of them under an explicit table name (one that extends another table's name)
            fields.append({'name': 'mates', 'type': rng.choice(['ManyToManyField', 'TagsField']),
                           'attrs': rng.choice([{}, {'db_table': 'yapp_%s_links' % n.lower()}, {'db_table': 'vapp_hub_m'}]),
                           'related': 'vapp.%s' % rng.choice(vapp_models)})
            if rng.random() < 0.6:
                fields.append({'name': 'fans', 'type': 'ManyToManyField', 'attrs': {},
                               'related': 'vapp.%s' % rng.choice(vapp_models)})
        # table names that are prefixes of other tables of the project
        table = rng.choice(['vapp_al', 'yapp_%s' % n.lower(), 'vapp'])
        if any(m['table'] == table for m in models):
            table = 'yapp_%s' % n.lower()
        models.append({'name': n, 'table': table, 'fields': fields, 'unique_together': [], 'index_together': [],
                       'indexes': [], 'constraints': []})
    return {'id': 'yapp', 'models': models}


def setup_project(rng, seed, with_stale=True):
    spec = sigs.gen_spec(rng, 'vapp', with_meta=False)
    vnames = [m['name'] for m in spec['apps'][0]['models']]
    # a second installed app with relations into vapp
    wmodel = {'name': 'Wal', 'table': 'wapp_wal', 'unique_together': [], 'index_together': [], 'indexes': [],
              'constraints': [], 'fields': [
                  {'name': 'id', 'type': 'AutoField', 'attrs': {'primary_key': True}, 'related': None},
                  {'name': 'n', 'type': 'IntegerField', 'attrs': {'null': True}, 'related': None},
                  {'name': 'link', 'type': 'ForeignKey', 'attrs': {'null': True}, 'related': 'vapp.%s' % rng.choice(vnames)},
                  {'name': 'many', 'type': 'ManyToManyField', 'attrs': rng.choice([{}, {'db_table': 'wapp_wal_lines'}]),
                   'related': 'vapp.%s' % rng.choice(vnames)},
                  {'name': 'more', 'type': rng.choice(['ManyToManyField', 'TagsField']), 'attrs': {},
                   'related': 'vapp.%s' % rng.choice(vnames)}]}
    spec['apps'].append({'id': 'wapp', 'models': [wmodel]})
    # a model of the evolved app with two many-to-many fields (a DeleteModel candidate)
    spec['apps'][0]['models'].append({
        'name': 'Hub', 'table': 'vapp_hub', 'unique_together': [], 'index_together': [], 'indexes': [], 'constraints': [],
        'fields': [{'name': 'id', 'type': 'AutoField', 'attrs': {'primary_key': True}, 'related': None},
                   {'name': 'spokes', 'type': 'ManyToManyField', 'attrs': {}, 'related': 'vapp.%s' % rng.choice(vnames)},
                   {'name': 'rims', 'type': rng.choice(['ManyToManyField', 'TagsField']), 'attrs': {},
                    'related': 'vapp.%s' % rng.choice(vnames)}]})
    evorig.fresh_databases()
    evorig.clear_evolutions()
    models = evorig.install_models(spec)
    r = evorig.run_evolver()
    if r[0] != 'ok':
        return None
    dbrig.insert_rows(models, random.Random(seed))
    stale = add_stale(rng, seed, spec) if with_stale else None
    if with_stale and stale is None:
        return None
    return spec, stale


def add_stale(rng, seed, spec):
    """tables, rows and signature entries of an app that is not installed (any more)"""
    vnames = [m['name'] for m in spec['apps'][0]['models']]
    stale = stale_spec(rng, vnames)
    both = {'apps': [spec['apps'][0], stale]}
    iso = dbrig.build_models(both)
    try:
        dbrig.create_tables({'yapp': iso['yapp']}, 'default')
    except Exception:
        return None
    dbrig.insert_rows({'yapp': iso['yapp']}, random.Random(seed + 1))
    from django_evolution.models import Version
    ysig = dbrig.sig_from_models({'yapp': iso['yapp']}).get_app_sig('yapp')
    if seed % 2 == 0:
        # every other stale app had been handed over to Django migrations before it was uninstalled: its entry
        # records the upgrade method and the migrations applied
        from django_evolution.consts import UpgradeMethod
        ysig.upgrade_method = UpgradeMethod.MIGRATIONS
        ysig.applied_migrations = ['0001_initial', '0002_more']
    v = Version.objects.current_version()
    s = v.signature
    s.add_app_sig(ysig)
    v.signature = s
    v.save()
    return stale


def subclass_m2m_table_untracked(app_spec, msg):
    """finding F59: the failing table is the DEFAULT many-to-many table name of a field whose class is a
    ManyToManyField subclass and that names its table explicitly"""
    for m in app_spec['models']:
        for f in m['fields']:
            if f['type'] in sigs.M2M_TYPES and f['type'] != 'ManyToManyField' and f['attrs'].get('db_table') and \
                    ('no such table: %s_%s' % (m['table'], f['name'])) in msg:
                return True
    return False


def owned_tables(app_spec):
    out = []
    for m in app_spec['models']:
        out.append(m['table'])
        for f in m['fields']:
            if f['type'] in sigs.M2M_TYPES:
                out.append(f['attrs'].get('db_table') or '%s_%s' % (m['table'], f['name']))
    return sorted(out)


def state():
    snap = evorig.snapshot()
    return {'schema': snap['schema'], 'rows': snap['rows'],
            'sig': {a['id']: a for a in (snap['sig'] or {'apps': []})['apps']}}


def compare(before, after, dropped, rep, ctx, what):
    """everything except the dropped tables and the named signature entries is untouched"""
    tb, ta = set(before['schema']), set(after['schema'])
    if tb - ta != set(dropped):
        ctx.fail(None, '%s: dropped tables %s, expected exactly %s' % (what, sorted(tb - ta), sorted(dropped)), rep)
    if ta - tb:
        ctx.fail(None, '%s: unexpected new tables %s' % (what, sorted(ta - tb)), rep)
    for t in sorted(ta & tb):
        if before['schema'][t] != after['schema'][t]:
            ctx.fail(None, '%s: table %s of another app/model changed' % (what, t), rep)
        elif before['rows'].get(t) != after['rows'].get(t):
            ctx.fail(None, '%s: rows of table %s changed' % (what, t), rep)


def run(ctx):
    evorig.setup()
    quick = ctx.tier == 'quick'
    ctx.rule = ('projects of two installed apps (cross-app ForeignKey and ManyToMany) plus a stale app with 1-2 models, '
                'M2M, a foreign key into an installed app and table names that are prefixes of other tables; '
                '{no purge, --purge}; DeleteModel / DeleteApplication through an evolution; non-trivial = every case')
    relabelled_app_probe(ctx)
    inherited_m2m_probe(ctx)
    two_database_purge_probe(ctx)
    n = 40 if quick else 400
    done = tries = 0
    while done < n and tries < n * 5 and ctx.time_left() > 25:
        tries += 1
        seed = ctx.seed * 331 + tries
        mode = ctx.rng.choice(['purge', 'purge', 'delete_model', 'delete_app'])
        pr = setup_project(ctx.rng, seed, with_stale=(mode == 'purge'))
        if pr is None:
            continue
        spec, stale = pr
        done += 1
        ctx.count('mode:' + mode)
        rep = {'spec': spec, 'stale': stale, 'mode': mode, 'seed': seed}
        ctx.case({'mode': mode, 'installed': {a['id']: [m['table'] for m in a['models']] for a in spec['apps']},
                  'stale_tables': owned_tables(stale) if stale else None}, nontrivial=True, sample_cap=6)
        before = state()
        if mode == 'purge':
            # 1. without --purge nothing of the stale app may go away
            r = evorig.run_command(execute=True, interactive=False)
            mid = state()
            compare(before, mid, [], rep, ctx, 'evolve without --purge')
            if mid['sig'].get('yapp') != before['sig'].get('yapp'):
                ctx.fail(None, 'without --purge the stale app\'s signature entries changed', rep)
            # 2. with --purge exactly its tables and entries go
            r = evorig.run_command(execute=True, interactive=False, purge=True)
            if r[0] != 'ok':
                own_m2m = any(f['type'] == 'ManyToManyField' and (f.get('related') or '').startswith('yapp.')
                              for m in stale['models'] for f in m['fields'])
                msg = str(r[1])
                if own_m2m and 'Unable to find a model signature for "yapp.' in msg:
                    ctx.fail('F42', 'evolve --purge failed: %s' % msg[:160], rep)
                elif subclass_m2m_table_untracked(stale, msg):
                    ctx.fail('F59', 'evolve --purge failed: %s' % msg[:160], rep)
                elif 'cannot resolve automatically' in msg and 'has been deleted' in r[2] and \
                        'In model' not in r[2]:
                    ctx.fail('F43', 'evolve --purge is rejected by its own simulation check', rep)
                else:
                    ctx.fail(None, 'evolve --purge failed: %s' % msg[:160], rep)
                continue
            after = state()
            compare(mid, after, owned_tables(stale), rep, ctx, 'evolve --purge')
            left = after['sig'].get('yapp')
            if left is not None and left['models']:
                ctx.fail(None, 'after --purge the stale app still has signature entries: %s'
                         % [m['name'] for m in left['models']], rep)
            # every other app's entry - including the entries of installed apps that have no models - stays
            for app in sorted((set(mid['sig']) | set(after['sig'])) - {'yapp'}):
                ctx.count('purge:other_entry:%s' % ('empty' if not (mid['sig'].get(app) or {}).get('models') else 'models'))
                if after['sig'].get(app) != mid['sig'].get(app):
                    ctx.fail(None, 'after --purge the signature entries of %s changed' % app, rep)
            # a stale app whose entry is already empty (it deleted its own models before it was uninstalled): a
            # purge removes the entry all the same, and nothing else
            from django_evolution.models import Version
            from django_evolution.signature import AppSignature
            v = Version.objects.current_version()
            s2 = v.signature
            s2.add_app_sig(AppSignature(app_id='zapp'))
            v.signature = s2
            v.save()
            mid2 = state()
            r = evorig.run_command(execute=True, interactive=False, purge=True)
            ctx.count('purge_empty_stale_entry:%s' % r[0])
            if r[0] != 'ok':
                ctx.fail(None, 'evolve --purge of a stale app with an empty entry fails: %s' % str(r[1])[:160],
                         dict(rep, mode='purge of an empty stale entry'))
            else:
                after3 = state()
                compare(mid2, after3, [], rep, ctx, 'evolve --purge of a stale app with an empty entry')
                if 'zapp' in after3['sig']:
                    ctx.fail(None, 'after --purge the empty entry of the stale app zapp is still in the stored signature',
                             dict(rep, mode='purge of an empty stale entry'))
                for app in sorted((set(mid2['sig']) | set(after3['sig'])) - {'zapp'}):
                    if after3['sig'].get(app) != mid2['sig'].get(app):
                        ctx.fail(None, 'after --purge (empty stale entry) the signature entries of %s changed' % app, rep)
        else:
            vapp = spec['apps'][0]
            referenced = set(f['related'].split('.')[1] for a in spec['apps'] for m in a['models']
                             for f in m['fields'] if f.get('related'))
            if mode == 'delete_model':
                cands = [m for m in vapp['models'] if m['name'] not in referenced]
                if not cands:
                    continue
                victim = ctx.rng.choice(cands)
                new_spec = {'apps': [{'id': 'vapp', 'models': [m for m in vapp['models'] if m is not victim]},
                                     spec['apps'][1]]}
                muts = [{'t': 'DeleteModel', 'model': victim['name']}]
                dropped = owned_tables({'models': [victim]})
            else:
                # DeleteApplication on wapp (nothing refers to it)
                victim = spec['apps'][1]
                new_spec = {'apps': [vapp, {'id': 'wapp', 'models': []}]}
                muts = [{'t': 'DeleteApplication'}]
                dropped = owned_tables(victim)
            try:
                evorig.install_models(new_spec)
            except Exception:
                continue
            target_app = 'vapp' if mode == 'delete_model' else 'wapp'
            evorig.set_evolutions(target_app, [{'label': 'drop1', 'mutations': [sigs.real_mutation(m) for m in muts]}])
            r = evorig.run_evolver()
            if r[0] != 'ok':
                ctx.fail('F59' if subclass_m2m_table_untracked({'models': [victim] if mode == 'delete_model' else
                                                                victim['models']}, str(r[1])) else None,
                         '%s through an evolution failed: %s' % (mode, str(r[1])[:160]), rep)
                continue
            after = state()
            compare(before, after, dropped, rep, ctx, mode)
            other = 'wapp' if target_app == 'vapp' else 'vapp'
            for app in sorted((set(before['sig']) | set(after['sig'])) - {target_app}):
                if after['sig'].get(app) != before['sig'].get(app):
                    ctx.fail(None, '%s: the signature entries of %s changed' % (mode, app), rep)
            left = [m['name'] for m in after['sig'][target_app]['models']]
            want = [m['name'] for m in (new_spec['apps'][0] if target_app == 'vapp' else new_spec['apps'][1])['models']]
            if sorted(left) != sorted(want):
                ctx.fail(None, '%s: signature entries of %s are %s, expected %s' % (mode, target_app, left, want), rep)
            # a later purge of some other, stale app leaves the emptied-but-installed app's entry alone
            if mode == 'delete_app':
                stale = add_stale(ctx.rng, seed, {'apps': [vapp]})
                if stale is None:
                    continue
                rep = dict(rep, stale=stale, mode='delete_app then purge')
                mid = state()
                r = evorig.run_command(execute=True, interactive=False, purge=True)
                if r[0] != 'ok':
                    ctx.count('purge_after_delete_app:failed')
                    continue
                after2 = state()
                ctx.count('purge_after_delete_app')
                compare(mid, after2, owned_tables(stale), rep, ctx, 'evolve --purge after DeleteApplication')
                for app in sorted((set(mid['sig']) | set(after2['sig'])) - {'yapp'}):
                    if after2['sig'].get(app) != mid['sig'].get(app):
                        ctx.fail(None, 'after --purge the signature entry of %s (%s) changed'
                                 % (app, 'empty, app installed' if not mid['sig'][app]['models'] else 'with models'), rep)
                r = evorig.run_evolver()
                bk = evorig.bookkeeping()
                labels = [tuple(e[:2]) for e in bk['evolutions']]
                if len(labels) != len(set(labels)):
                    ctx.fail(None, 'an evolution is recorded twice after the purge: %s'
                             % sorted(x for x in set(labels) if labels.count(x) > 1), rep)


def inherited_m2m_probe(ctx):
    """a model that inherits (multi-table) from a model of another app which owns a many-to-many table: deleting
    the child removes the child's table and nothing of the parent's"""
    import warnings
    from django.apps.registry import Apps
    from django.db import models
    from django_evolution.mutations import DeleteModel
    for explicit in (True, False):
        registry = Apps()
        with warnings.catch_warnings():
            warnings.simplefilter('ignore')
            Person = type('Person', (models.Model,), {
                '__module__': 'wapp.models', 'name': models.CharField(max_length=10, null=True),
                'Meta': type('Meta', (), {'app_label': 'wapp', 'apps': registry, 'db_table': 'wapp_person'})})
            Book = type('Book', (models.Model,), {
                '__module__': 'wapp.models', 'title': models.CharField(max_length=10, null=True),
                'editors': models.ManyToManyField(Person, related_name='+',
                                                  **({'db_table': 'wapp_book_eds'} if explicit else {})),
                'Meta': type('Meta', (), {'app_label': 'wapp', 'apps': registry, 'db_table': 'wapp_book'})})
            Rare = type('RareBook', (Book,), {
                '__module__': 'vapp.models', 'year': models.IntegerField(null=True),
                'Meta': type('Meta', (), {'app_label': 'vapp', 'apps': registry, 'db_table': 'vapp_rarebook'})})
        by_app = {'wapp': [Person, Book], 'vapp': [Rare]}
        dbrig.reset_db('default')
        dbrig.create_tables(by_app, 'default')
        sig0 = dbrig.sig_from_models(by_app)
        before = dbrig.abs_schema()
        m2m_table = 'wapp_book_eds' if explicit else 'wapp_book_editors'
        rep = {'scenario': 'DeleteModel of a multi-table-inheritance child whose parent (another app) owns a '
                           'many-to-many table', 'parent_m2m_table': m2m_table, 'tables_before': sorted(before)}
        ctx.count('inherited_m2m_probe')
        ctx.case(rep, nontrivial=True, sample_cap=2)
        try:
            dbrig.evolve(sig0, 'vapp', [DeleteModel('RareBook')])
        except Exception as e:
            ctx.fail(None, 'deleting a model that inherits from a model with a many-to-many field fails: %s: %s'
                     % (type(e).__name__, str(e)[:120]), rep)
            continue
        after = dbrig.abs_schema()
        gone = sorted(set(before) - set(after))
        if gone != ['vapp_rarebook']:
            ctx.fail(None, 'deleting the child model removed the tables %s, expected only its own (vapp_rarebook)'
                     % gone, dict(rep, tables_after=sorted(after)))
        changed = [t for t in after if before.get(t) != after[t]]
        if changed:
            ctx.fail(None, 'deleting the child model altered other tables: %s' % changed, rep)
    dbrig.reset_db('default')


def two_database_purge_probe(ctx):
    """the same stale app on two databases, purged on `default` first and on `other` afterwards: each database is
    purged from what is stored THERE - its tables go, its entries go, and the other database is not touched"""
    from django.db import connections
    from django_evolution.models import Version
    from django_evolution.signature import AppSignature, ModelSignature

    def fld(name, t, **attrs):
        return {'name': name, 'type': t, 'attrs': attrs, 'related': None}
    spec = {'apps': [{'id': 'vapp', 'models': [{'name': 'Alpha', 'table': 'vapp_alpha', 'unique_together': [],
                                                 'index_together': [], 'indexes': [], 'constraints': [],
                                                 'fields': [fld('id', 'AutoField', primary_key=True),
                                                            fld('a', 'IntegerField', null=True)]}]}]}
    evorig.fresh_databases()
    evorig.clear_evolutions()
    evorig.install_models(spec)
    for alias in ('default', 'other'):
        if evorig.run_evolver(alias=alias)[0] != 'ok':
            ctx.count('two_database_purge:start_failed')
            return
        v = Version.objects.using(alias).order_by('-id')[0]
        s = v.signature
        a = AppSignature(app_id='yapp')
        a.add_model_sig(ModelSignature(model_name='Yo', table_name='yapp_yo'))
        s.add_app_sig(a)
        v.signature = s
        v.save(using=alias)
        with connections[alias].cursor() as cur:
            cur.execute('CREATE TABLE "yapp_yo" ("id" integer NOT NULL PRIMARY KEY AUTOINCREMENT)')
            cur.execute('INSERT INTO "yapp_yo" ("id") VALUES (1)')
    steps = []
    rep = {'scenario': 'stale app on two databases, purged on default, then on other', 'history': steps}
    ctx.count('two_database_purge_probe')
    ctx.case({'scenario': rep['scenario']}, nontrivial=True, sample_cap=1)

    def stored_apps(alias):
        v = Version.objects.using(alias).order_by('-id')[0]
        return sorted(a.app_id for a in v.signature.app_sigs)
    for alias, other in (('default', 'other'), ('other', 'default')):
        before_other = evorig.snapshot(other)
        r = evorig.run_evolver(alias=alias, purge=True)
        tables = sorted(dbrig.abs_schema(alias))
        steps.append('purge on %s: %s; tables %s; stored apps %s' % (alias, r[0], tables, stored_apps(alias)))
        if r[0] != 'ok':
            ctx.fail(None, 'purging the stale app on %s fails: %s' % (alias, str(r[1])[:120]), rep)
            return
        if 'yapp_yo' in tables:
            ctx.fail(None, 'after the purge on %s the stale app\'s table is still there' % alias, rep)
        if 'yapp' in stored_apps(alias):
            ctx.fail(None, 'after the purge on %s the stored signature still has the stale app\'s entry' % alias, rep)
        if 'vapp_alpha' not in tables or 'vapp' not in stored_apps(alias):
            ctx.fail(None, 'the purge on %s removed something of the installed app' % alias, rep)
        if evorig.snapshot(other) != before_other:
            ctx.fail(None, 'the purge on %s modified database %s' % (alias, other), rep)
    evorig.fresh_databases()


def relabelled_app_probe(ctx):
    """an installed app that was given a new label (AppConfig.label) is NOT a stale app: the difference between the
    stored signature (old id) and the current one (new id, the old one as legacy label) lists nothing as deleted, so a
    purge has nothing to take.  The rig's apps cannot change their label inside one process; the step that decides
    what a purge may take - the `deleted` part of the signature difference - is exercised directly."""
    from django_evolution.diff import Diff
    from django_evolution.signature import AppSignature, ModelSignature, ProjectSignature

    def project(apps):
        p = ProjectSignature()
        for app_id, legacy, models in apps:
            a = AppSignature(app_id=app_id, legacy_app_label=legacy)
            for m in models:
                a.add_model_sig(ModelSignature(model_name=m, table_name='%s_%s' % (legacy or app_id, m.lower())))
            p.add_app_sig(a)
        return p
    cases = [
        # (stored, current, ids that are really gone)
        ([('lapp', None, ['Crate', 'Pallet']), ('gone', None, ['Old'])],
         [('depot', 'lapp', ['Crate', 'Pallet'])], ['gone']),
        ([('lapp', None, ['Crate'])], [('depot', 'lapp', ['Crate'])], []),
        ([('lapp', None, ['Crate']), ('shop', None, ['Item'])], [('shop', None, ['Item'])], ['lapp']),
        # the relabelled app listed after an app that has the old id as its own id: the id wins
        ([('lapp', None, ['Crate'])], [('depot', 'lapp', ['Crate']), ('lapp', None, ['Crate'])], []),
    ]
    for stored, current, gone in cases:
        d = Diff(project(stored), project(current))
        deleted = sorted(d.deleted)
        ctx.count('relabelled_app_probe')
        ctx.case({'stored': stored, 'current': current}, nontrivial=True, sample_cap=2)
        if deleted != sorted(gone):
            ctx.fail(None, 'apps listed as deleted (what a purge would take): %s, really gone: %s' % (deleted, sorted(gone)),
                     {'stored': stored, 'current': current})


def replay(ctx, obj):
    print('projects are regenerated from the seed: VERIF_SEED=%s ./check C15' % obj.get('seed'))
    return 0
