"""C05 — the hinted evolution for a model change fully resolves that change.

Lean: DEvo/Sig/Diff.lean (diff at four levels, __eq__, Diff.evolution), DEvo/Props/C05.lean.
Tie: `_ATTRIBUTE_DEFAULTS` extracted; differential correspondence of diff dictionaries, hinted
mutations and the post-simulation residual diff on generated signature pairs.
"""
import json

from .. import dbrig, evorig, sigs

FINDING_RELATED = 'F5'
FINDING_EQ = 'F6'
FINDING_HINT_NULL = 'F30'
FINDING_STALE = 'F31'


def normalised(p):
    """clone with the representation freedoms that finding F6 is about removed: attributes
    stored with their default value, a stray `related_model` attribute (F5), index/constraint
    order"""
    q = p.clone()
    for a in q.app_sigs:
        for m in a.model_sigs:
            for f in m.field_sigs:
                for k in list(f.field_attrs):
                    if k == 'related_model' or f.field_attrs[k] == f.get_attr_default(k):
                        del f.field_attrs[k]
            m.index_sigs.sort(key=repr)
            m.constraint_sigs.sort(key=repr)
    return q


def abs_diff(d):
    def model(md):
        return {'added': list(md.get('added', [])),
                'changed': [[f, list(attrs)] for f, attrs in md.get('changed', {}).items()],
                'deleted': list(md.get('deleted', [])),
                'meta_changed': list(md.get('meta_changed', []))}

    def app(ad):
        return {'changed': [[m, model(md)] for m, md in ad.get('changed', {}).items()],
                'deleted': list(ad.get('deleted', [])),
                'meta_changed': list(ad.get('meta_changed', {}).keys())}
    return {'changed': [[a, app(ad)] for a, ad in d.changed.items()],
            'deleted': [[a, list(ms)] for a, ms in d.deleted.items()]}


abs_real_mutation = sigs.abs_mutation_obj


def edit_new_sig(rng, new):
    """direct edits that no mutation of the generator produces: re-targeted relations, defaults
    stated explicitly, reordered index lists, re-typed fields"""
    tags = []
    models = [(a, m) for a in new.app_sigs for m in a.model_sigs]
    if not models:
        return tags
    for _ in range(rng.choice([0, 1, 1, 2])):
        a, m = rng.choice(models)
        fields = [f for f in m.field_sigs if not f.get_attr_value('primary_key')]
        k = rng.choice(['retarget', 'explicit_default', 'explicit_value', 'reorder_indexes', 'retype', 'meta_pair',
                        'meta_pair'])
        if k == 'retarget':
            rel = [f for f in fields if f.related_model and f.field_type.__name__ != 'ManyToManyField']
            others = ['%s.%s' % (b.app_id, x.model_name) for b, x in models]
            if rel and len(others) > 1:
                f = rng.choice(rel)
                f.related_model = rng.choice([o for o in others if o != f.related_model])
                tags.append(k)
        elif k == 'explicit_default' and fields:
            f = rng.choice(fields)
            attr = rng.choice(['null', 'unique', 'db_column', 'max_length'])
            if attr not in f.field_attrs:
                f.field_attrs[attr] = f.get_attr_default(attr)
                tags.append(k)
        elif k == 'explicit_value' and fields:
            # a boolean attribute stated explicitly with either value, whatever the field type's own default is
            # (ForeignKey / OneToOneField default to db_index=True, everything else to False)
            f = rng.choice([x for x in fields if x.related_model] or fields)
            attr = rng.choice(['db_index', 'db_index', 'null', 'unique'])
            if f.field_type.__name__ != 'ManyToManyField':
                f.field_attrs[attr] = rng.choice([True, False])
                tags.append(k)
        elif k == 'reorder_indexes' and len(m.index_sigs) >= 2:
            m.index_sigs.reverse()
            tags.append(k)
        elif k == 'meta_pair':
            # two table-level Meta properties of one model change together: an index and a constraint
            plain = [f.field_name for f in fields if f.field_type.__name__ not in ('ManyToManyField', 'TextField')]
            if len(plain) >= 2 and not any(ix.name == 'mp_ix' for ix in m.index_sigs):
                from django.db import models as dm
                from django_evolution.signature import ConstraintSignature, IndexSignature
                a1, a2 = rng.sample(plain, 2)
                m.index_sigs.append(IndexSignature(name='mp_ix', fields=[a1]))
                m.constraint_sigs.append(ConstraintSignature(name='mp_uq', constraint_type=dm.UniqueConstraint,
                                                             attrs={'fields': (a1, a2)}))
                tags.append(k)
        elif k == 'retype':
            c = [f for f in fields if f.field_type.__name__ in ('IntegerField', 'CharField')]
            if c:
                from django.db import models as dm
                f = rng.choice(c)
                if f.field_type.__name__ == 'IntegerField':
                    f.field_type = dm.BigIntegerField
                else:
                    f.field_type = dm.TextField
                    f.field_attrs.pop('max_length', None)
                tags.append(k)
    return tags


def fixed_pairs():
    """deterministic pairs that run first: a field re-typed to a SUBCLASS of its type with another column type, the
    old field carrying attributes the new one does not have"""
    def fld(name, t, **attrs):
        return {'name': name, 'type': t, 'attrs': attrs, 'related': None}

    def project(fields):
        return {'apps': [{'id': 'vapp', 'models': [{
            'name': 'Alpha', 'table': 'vapp_alpha', 'unique_together': [], 'index_together': [], 'indexes': [],
            'constraints': [], 'fields': [fld('id', 'AutoField', primary_key=True)] + fields}]}]}
    out = []
    for a, b in ((fld('n', 'IntegerField', db_index=True, db_column='n_col'), fld('n', 'BigIntegerField')),
                 (fld('n', 'IntegerField', null=True, unique=True), fld('n', 'PositiveIntegerField')),
                 (fld('d', 'DateField', null=True, db_index=True), fld('d', 'DateTimeField', null=True)),
                 (fld('n', 'BigIntegerField', db_index=True), fld('n', 'IntegerField'))):
        spec = project([a])
        out.append((spec, sigs.sig_from_spec(spec), sigs.sig_from_spec(project([b])), [], ['retype_fixed']))
    return out


def gen_pair(rng):
    spec = sigs.gen_spec(rng, 'vapp')
    # a second index so that reordering is possible
    for m in spec['apps'][0]['models']:
        plain = [f['name'] for f in m['fields'] if f['type'] not in ('ManyToManyField', 'TextField') and f['name'] != 'id']
        if plain and rng.random() < 0.3:
            m['indexes'] = m['indexes'] + [{'name': '%s_jx' % m['name'].lower(), 'fields': [rng.choice(plain)]}]
        if rng.random() < 0.3:
            # a table comment that stays as it is through the whole upgrade (clones, hints and diffs must carry it)
            m['comment'] = 'rows of %s' % m['name']
    old = sigs.sig_from_spec(spec)
    stored_form = rng.random() < 0.25
    if stored_form:
        # the old side is a STORED signature (read back from its JSON text: tuples have become lists), the new side
        # comes from the models (tuples): a unique constraint over two fields is on both sides
        from django.db import models as dm
        from django_evolution.signature import ConstraintSignature
        for m in old.get_app_sig('vapp').model_sigs:
            plain = [f.field_name for f in m.field_sigs if f.field_type.__name__ not in ('ManyToManyField', 'TextField')
                     and not f.get_attr_value('primary_key')]
            if len(plain) >= 2:
                m.constraint_sigs.append(ConstraintSignature(name='%s_uq' % m.model_name.lower(),
                                                             constraint_type=dm.UniqueConstraint,
                                                             attrs={'fields': tuple(plain[:2])}))
                break
    muts, new = sigs.gen_sequence(rng, old, 'vapp', rng.randint(0, 4),
                                  kinds=['AddField'] * 3 + ['ChangeField'] * 4 + ['DeleteField'] * 2 +
                                  ['ChangeMeta'] * 2 + ['DeleteModel'])
    if new is None:
        return None
    new = new.clone()
    tags = edit_new_sig(rng, new)
    if stored_form:
        import json as _json
        from collections import OrderedDict
        from django_evolution.signature import ProjectSignature
        old = ProjectSignature.deserialize(_json.loads(_json.dumps(old.serialize()), object_pairs_hook=OrderedDict))
        tags.append('old_side_read_back_from_storage')
    # the target is what the developer's models say, not what a simulation makes of them: where the entries of
    # unique_together / index_together are the same as before, the models list them in the same order as before
    for a in new.app_sigs:
        oa = old.get_app_sig(a.app_id)
        for m in a.model_sigs:
            om = oa.get_model_sig(m.model_name) if oa is not None else None
            if om is None:
                continue
            for prop in ('unique_together', 'index_together'):
                nv, ov = list(getattr(m, prop) or []), list(getattr(om, prop) or [])
                if nv != ov and sorted(map(tuple, nv)) == sorted(map(tuple, ov)) and 'reorder_together' not in tags:
                    setattr(m, prop, ov)
                    tags.append('together_order_kept')
    return spec, old, new, muts, tags


def real_closure(old, new):
    """Diff -> hint -> simulate on a clone of old -> residual diffs and equality"""
    from django_evolution.diff import Diff
    d = Diff(old, new)
    hint = d.evolution()
    cur = old.clone()
    err = None
    for app_label, muts in hint.items():
        for mu in muts:
            try:
                mu.run_simulation(app_label=app_label, project_sig=cur, database_state=None, database='default')
            except Exception as e:
                err = '%s: %s' % (type(e).__name__, str(e)[:120])
                break
        if err:
            break
    if err:
        return d, hint, {'sim_error': sigs.classify_error(e) if False else err}, None
    after = Diff(cur, new)
    rev = Diff(new, cur)
    eq = all((cur.get_app_sig(a.app_id) is not None and
              [m for m in cur.get_app_sig(a.app_id).model_sigs] == [m for m in a.model_sigs]) for a in new.app_sigs)
    return d, hint, {'residual': abs_diff(after), 'residual_rev': abs_diff(rev), 'eq': eq}, cur


def empty(ad):
    return not ad['changed'] and not ad['deleted']


def overlapping_names_probe(ctx):
    """field names that contain one another (author / author_name, code / zipcode) next to unique_together and
    index_together entries: deleting or renaming ONE of them leaves the entries that name the OTHER alone, so the
    hinted evolution still closes the difference"""
    def fld(name, t, **attrs):
        return {'name': name, 'type': t, 'attrs': attrs, 'related': None}

    def book(names, ut, it):
        return {'apps': [{'id': 'vapp', 'models': [
            {'name': 'Book', 'table': 'vapp_book', 'unique_together': ut, 'index_together': it, 'indexes': [],
             'constraints': [], 'fields': [fld('id', 'AutoField', primary_key=True)] +
             [fld(n, 'CharField', max_length=20, null=True) for n in names]}]}]}
    ut, it = [['author', 'title']], [['code', 'title']]
    cases = [('delete author_name', book(['title', 'author', 'author_name', 'code', 'zipcode'], ut, it),
              book(['title', 'author', 'code', 'zipcode'], ut, it)),
             ('delete zipcode', book(['title', 'author', 'author_name', 'code', 'zipcode'], ut, it),
              book(['title', 'author', 'author_name', 'code'], ut, it)),
             ('delete author (a member)', book(['title', 'author', 'author_name', 'code'], ut, it),
              book(['title', 'author_name', 'code'], [], it))]
    for what, s0, s1 in cases:
        old, new = sigs.sig_from_spec(s0), sigs.sig_from_spec(s1)
        evorig.install_models(s1)
        d, hint, after, cur = real_closure(old, new)
        rep = {'scenario': 'overlapping field names: ' + what, 'spec_old': s0, 'observed': after,
               'hint': [str(m) for ms in hint.values() for m in ms]}
        ctx.count('overlapping_names_probe')
        ctx.case({'scenario': rep['scenario'], 'hint': rep['hint']}, nontrivial=True, sample_cap=3)
        if 'sim_error' in after:
            ctx.fail(None, '%s: the hinted evolution is rejected by the simulation: %s' % (what, after['sim_error']), rep)
        elif not (empty(after['residual']) and empty(after['residual_rev'])):
            ctx.fail(None, '%s: the hinted evolution leaves a residual difference' % what, rep)
        elif not after['eq']:
            ctx.fail(None, '%s: the evolved signature is not equal to the target' % what, rep)


def expression_index_probe(ctx):
    """signatures whose Meta.indexes hold expression-only indexes (no fields), index objects with every optional part,
    and constraints with conditions: empty difference with itself and with its clone (both directions, `==` too),
    and a hinted evolution for a change elsewhere in the model resolves it"""
    from django.db import models
    from django.db.models import F, Q
    from django.db.models.functions import Lower
    from django_evolution.diff import Diff
    from django_evolution.signature import (AppSignature, ConstraintSignature, FieldSignature, IndexSignature,
                                            ModelSignature, ProjectSignature)

    def build(age_indexed, more_meta=False):
        p = ProjectSignature()
        a = AppSignature(app_id='vapp')
        m = ModelSignature(model_name='Person', table_name='vapp_person')
        m.add_field_sig(FieldSignature(field_name='id', field_type=models.AutoField, field_attrs={'primary_key': True}))
        m.add_field_sig(FieldSignature(field_name='name', field_type=models.CharField, field_attrs={'max_length': 20}))
        m.add_field_sig(FieldSignature(field_name='age', field_type=models.IntegerField,
                                       field_attrs=({'db_index': True} if age_indexed else {})))
        m.add_index(models.Index(Lower('name'), name='person_lower_name'))
        m.add_index(models.Index(F('age') + 1, Lower('name').desc(), name='person_expr2'))
        m.add_index(models.Index(fields=['name', '-age'], name='person_plain', condition=Q(age__gt=1), include=['id']))
        m.add_index(models.Index(fields=['age']))
        m.add_constraint(models.CheckConstraint(check=Q(age__gte=0) | Q(name=''), name='person_age_ok'))
        m.add_constraint(models.UniqueConstraint(fields=['name'], condition=Q(age__lt=5), name='person_name_young'))
        if more_meta:
            # entries with several optional parts, in the order Django's deconstruct() gives them
            m.add_constraint(models.UniqueConstraint(fields=['age'], condition=Q(name='x'), name='person_age_x'))
            m.add_index(models.Index(fields=['name'], name='person_ts', db_tablespace='ts1', condition=Q(age__gt=3)))
        a.add_model_sig(m)
        p.add_app_sig(a)
        return p
    old, new = build(False), build(True)
    rep = {'scenario': 'expression-only indexes: self, clone and hinted evolution of a change elsewhere in the model'}
    ctx.count('expression_index_probe')
    ctx.case(rep, nontrivial=True, sample_cap=1)
    for name, sig in (('old', old), ('new', new)):
        for other_name, other in (('itself', sig), ('its clone', sig.clone()), ('a clone of its clone', sig.clone().clone())):
            d1, d2 = Diff(sig, other), Diff(other, sig)
            if not d1.is_empty() or not d2.is_empty():
                ctx.fail(None, 'a signature with expression-only indexes has a non-empty difference with %s: %s'
                         % (other_name, (str(d1) or str(d2))[:160]), rep)
            elif not (sig == other and other == sig):
                ctx.fail(None, 'a signature with expression-only indexes is not equal to %s although the difference is '
                         'empty' % other_name, rep)
    cur = old.clone()
    hint = Diff(old, new).evolution().get('vapp', [])
    try:
        for mu in hint:
            mu.run_simulation(app_label='vapp', project_sig=cur, database_state=None, database='default')
    except Exception as e:
        ctx.fail(None, 'the hinted evolution of a db_index change next to expression indexes is rejected: %s'
                 % type(e).__name__, rep)
        return
    if not Diff(cur, new).is_empty() or not Diff(new, cur).is_empty() or not (cur == new):
        ctx.fail(None, 'the hinted evolution %s leaves a residual difference next to expression-only indexes: %s'
                 % ([m.generate_hint() for m in hint], str(Diff(cur, new))[:160]), rep)
    # ... and a change OF the Meta lists themselves: entries with several optional parts are added
    new2 = build(False, more_meta=True)
    cur = old.clone()
    hint = Diff(old, new2).evolution().get('vapp', [])
    rep2 = {'scenario': 'constraints and indexes with several optional parts added: hinted ChangeMeta, then == and diff'}
    try:
        for mu in hint:
            mu.run_simulation(app_label='vapp', project_sig=cur, database_state=None, database='default')
    except Exception as e:
        ctx.fail(None, 'the hinted evolution that adds a conditional constraint and a partial index is rejected: %s'
                 % type(e).__name__, rep2)
        return
    d_empty = Diff(cur, new2).is_empty() and Diff(new2, cur).is_empty()
    if not d_empty:
        ctx.fail(None, 'the hinted ChangeMeta of constraints/indexes leaves a residual difference: %s'
                 % str(Diff(cur, new2))[:160], rep2)
    elif not (cur == new2 and new2 == cur):
        ctx.fail(None, '`==` and `diff()` disagree after the hinted ChangeMeta of constraints/indexes: the difference is '
                 'empty both ways, the signatures are not equal', rep2)


def run(ctx):
    evorig.setup()
    quick = ctx.tier == 'quick'
    expression_index_probe(ctx)
    overlapping_names_probe(ctx)
    n = 1500 if quick else 20000
    ctx.rule = ('signature pairs (old, new): new is old evolved by 0-4 valid mutations (add/change/delete field, '
                'ChangeMeta, DeleteModel) plus direct edits (re-targeted relation, default stated explicitly, '
                'reordered index list, re-typed field); non-trivial = the diff is non-empty; distinct by canonical JSON')
    cases = []
    tries = 0
    fixed = fixed_pairs()
    while len(cases) < n and tries < 3 * n:
        tries += 1
        g = fixed.pop(0) if fixed else gen_pair(ctx.rng)
        if g is None:
            continue
        spec, old, new, muts, tags = g
        try:
            evorig.install_models({'apps': [a for a in dbrig.spec_from_sig(new)['apps'] if a['id'] == 'vapp']})
        except Exception:
            continue      # the edited target cannot be expressed as Django models
        cases.append(g)
    reqs = [{'op': 'diff', 'old': sigs.abs_sig(old), 'new': sigs.abs_sig(new)} for _, old, new, _, _ in cases]
    outs = ctx.driver.ask(reqs) if ctx.driver else [None] * len(reqs)
    w_rel = w_eq = w_null = w_stale = w_rel_retype = None
    for (spec, old, new, muts, tags), out in zip(cases, outs):
        evorig.install_models({'apps': [a for a in dbrig.spec_from_sig(new)['apps'] if a['id'] == 'vapp']})
        try:
            d, hint, after, cur = real_closure(old, new)
        except Exception as e:
            ctx.count('closure_exception:' + type(e).__name__)
            continue
        rd = abs_diff(d)
        rh = [[a, [abs_real_mutation(m) for m in ms]] for a, ms in hint.items()]
        case = {'old': sigs.abs_sig(old), 'new': sigs.abs_sig(new), 'edits': tags}
        ctx.case({'mutations': [sigs.model_mutation(m) for m in muts], 'edits': tags, 'diff': rd},
                 nontrivial=not empty(rd), sample_cap=5)
        for t in tags:
            ctx.count('edit:' + t)
        agree = None
        if out is not None:
            ctx.corr_case('diff', out.get('diff') == rd, case=case, model=out.get('diff'), impl=rd)
            ctx.corr_case('hint', out.get('hint') == rh, case=case, model=out.get('hint'), impl=rh)
            ma = out.get('after', {})
            if 'sim_error' in after:
                agree = 'sim_error' in ma
            else:
                agree = (ma.get('residual') == after['residual'] and ma.get('residual_rev') == after['residual_rev'])
            if 'sim_error' in after and "missing 2 required positional arguments: 'to' and 'on_delete'" in after['sim_error'] \
                    and retyped_to_relation(old, new):
                # Django's field constructor raises inside ChangeField.simulate (finding F55): the model of simulate
                # does not construct Django fields, so this case is outside what the correspondence can compare
                ctx.count('closure:outside_model(F55)')
            else:
                ctx.corr_case('closure', bool(agree), case=case, model=ma, impl=after)
            # "the model explains this case" (the premise of the attributions below) means all of it: the same
            # difference, the same hint, the same residue
            agree = bool(agree) and out.get('diff') == rd and out.get('hint') == rh
        # ---- property oracle on the real code ------------------------------------------------
        rep = {'spec_old': dbrig.spec_from_sig(old), 'edits': tags,
               'old': sigs.abs_sig(old), 'new': sigs.abs_sig(new), 'observed': after}
        if 'sim_error' in after:
            explicit_null = any(f.field_attrs.get('null', None) is False
                                for a in new.app_sigs for m in a.model_sigs for f in m.field_sigs)
            if agree and explicit_null and 'non-null initial value' in after['sim_error']:
                w_null = w_null or rep
            elif "missing 2 required positional arguments: 'to' and 'on_delete'" in after['sim_error'] and \
                    retyped_to_relation(old, new):
                w_rel_retype = w_rel_retype or rep
            else:
                ctx.fail(None, 'the hinted evolution is rejected by the simulation: %s' % after['sim_error'], rep)
            continue
        residual = not (empty(after['residual']) and empty(after['residual_rev']))
        ctx.count('closure:' + ('residual' if residual else 'resolved'))
        if residual:
            only_related = residual_only_related(after)
            if only_related and agree:
                w_rel = w_rel or rep
            elif agree and residual_only_on_retyped(after, old, new):
                w_stale = w_stale or rep
            else:
                ctx.fail(None, 'the hinted evolution leaves a residual difference', rep)
        # eq <-> empty diff both ways, on (result, new)
        if cur is not None:
            eq = after['eq']
            both_empty = not residual
            if eq != both_empty:
                ctx.count('eq_vs_diff_disagree')
                # the known shapes: defaults stated explicitly / index order (F6), or an attrs key
                # `related_model` left behind by the F5 ChangeField
                from django_evolution.diff import Diff
                ncur, nnew = normalised(cur), normalised(new)
                neq = all((ncur.get_app_sig(a.app_id) is not None and
                           [m for m in ncur.get_app_sig(a.app_id).model_sigs] == [m for m in a.model_sigs])
                          for a in nnew.app_sigs)
                nempty = Diff(ncur, nnew).is_empty(ignore_apps=False) and Diff(nnew, ncur).is_empty(ignore_apps=False)
                if agree and neq == nempty:
                    # the disagreement disappears once defaults/order are normalised: finding F6
                    w_eq = w_eq or rep
                else:
                    ctx.fail(None, '`==` and `diff()` disagree: eq=%s, diff empty both ways=%s' % (eq, both_empty), rep)
    w = f5_witness()
    ctx.variant['changefield_related_model_resolves'] = not w['residual']
    if w['residual']:
        ctx.fail(FINDING_RELATED, 'hinted ChangeField(related_model=...) does not update the relation target', w)
    elif w_rel is not None:
        ctx.fail(None, 'residual related_model difference', w_rel)
    if w_rel_retype is not None:
        ctx.fail('F55', 'the hinted ChangeField that re-types a field to a relation type carries no related_model: '
                 'simulating it cannot construct the field', w_rel_retype)
    if w_stale is not None:
        ctx.fail(FINDING_STALE, 'for a re-typed field whose column type is unchanged the hinted ChangeField updates '
                 'instead of replacing the attributes, so attributes the new field no longer has stay', w_stale)
    if w_null is not None:
        ctx.fail(FINDING_HINT_NULL, 'the hinted ChangeField for a re-typed field carries null=False without an '
                 'initial value and is rejected by the simulation', w_null)
    w6 = f6_witness()
    ctx.variant['eq_iff_diff_on_explicit_default'] = not w6['disagree']
    if w6['disagree']:
        ctx.fail(FINDING_EQ, '`==` is False although diff() is empty both ways (default stated explicitly)', w6)
    elif w_eq is not None:
        ctx.fail(None, '`==` and `diff()` disagree', w_eq)


def retyped_to_relation(old, new):
    """some field that exists on both sides changes its type to ForeignKey / OneToOneField"""
    for a in new.app_sigs:
        oa = old.get_app_sig(a.app_id)
        for m in a.model_sigs:
            om = oa.get_model_sig(m.model_name) if oa is not None else None
            for f in m.field_sigs:
                of = om.get_field_sig(f.field_name) if om is not None else None
                if of is not None and of.field_type is not f.field_type and \
                        f.field_type.__name__ in ('ForeignKey', 'OneToOneField'):
                    return True
    return False


def residual_only_related(after):
    for key in ('residual', 'residual_rev'):
        d = after[key]
        if d['deleted']:
            return False
        for _, ad in d['changed']:
            if ad['deleted'] or ad['meta_changed']:
                return False
            for _, md in ad['changed']:
                if md['added'] or md['deleted'] or md['meta_changed']:
                    return False
                for _, attrs in md['changed']:
                    if set(attrs) != {'related_model'}:
                        return False
    return True


def residual_only_on_retyped(after, old, new):
    """every residual entry is an attribute difference on a field whose type differs between
    old and new (and nothing else)"""
    def ftype(sig, app, model, field):
        a = sig.get_app_sig(app)
        m = a.get_model_sig(model) if a is not None else None
        f = m.get_field_sig(field) if m is not None else None
        return None if f is None else f.field_type
    for key in ('residual', 'residual_rev'):
        d = after[key]
        if d['deleted']:
            return False
        for app, ad in d['changed']:
            if ad['deleted'] or ad['meta_changed']:
                return False
            for model, md in ad['changed']:
                if md['added'] or md['deleted'] or md['meta_changed']:
                    return False
                for field, attrs in md['changed']:
                    t0, t1 = ftype(old, app, model, field), ftype(new, app, model, field)
                    if t0 is None or t1 is None or t0 is t1:
                        return False
    return True


def _two_models():
    return {'apps': [{'id': 'vapp', 'models': [
        {'name': 'Al', 'table': 'vapp_al', 'fields': [
            {'name': 'id', 'type': 'AutoField', 'attrs': {'primary_key': True}, 'related': None}]},
        {'name': 'Beta', 'table': 'vapp_beta', 'fields': [
            {'name': 'id', 'type': 'AutoField', 'attrs': {'primary_key': True}, 'related': None}]},
        {'name': 'Gamma', 'table': 'vapp_gamma', 'fields': [
            {'name': 'id', 'type': 'AutoField', 'attrs': {'primary_key': True}, 'related': None},
            {'name': 'r', 'type': 'ForeignKey', 'attrs': {}, 'related': 'vapp.Al'}]}]}]}


def f5_witness():
    spec = _two_models()
    old = sigs.sig_from_spec(spec)
    new = old.clone()
    new.get_app_sig('vapp').get_model_sig('Gamma').get_field_sig('r').related_model = 'vapp.Beta'
    evorig.install_models(dbrig.spec_from_sig(new))
    d, hint, after, cur = real_closure(old, new)
    res = 'sim_error' in after or not (empty(after['residual']) and empty(after['residual_rev']))
    return {'spec_old': spec, 'edit': 'Gamma.r: vapp.Al -> vapp.Beta', 'observed': after, 'residual': res,
            'hint': [str(m) for ms in hint.values() for m in ms]}


def f6_witness():
    from django_evolution.diff import Diff
    spec = _two_models()
    a = sigs.sig_from_spec(spec)
    b = a.clone()
    b.get_app_sig('vapp').get_model_sig('Gamma').get_field_sig('r').field_attrs['null'] = False
    e1 = Diff(a, b).is_empty(ignore_apps=False) and Diff(b, a).is_empty(ignore_apps=False)
    return {'spec': spec, 'edit': "Gamma.r field_attrs['null'] = False (the default)", 'eq': a == b,
            'diff_empty_both_ways': e1, 'disagree': (a == b) != e1}


def replay(ctx, obj):
    evorig.setup()
    r = obj.get('replay', obj)
    if 'old' not in r:
        print(json.dumps(f5_witness(), default=str)[:600])
        print(json.dumps(f6_witness(), default=str)[:600])
        return 0
    print('replay of signature pairs: re-run with the recorded seed (VERIF_SEED=%s ./check C05)' % obj.get('seed'))
    return 0
