"""C17 — lifecycle signals are paired and tell the truth about the run.

Lean: DEvo/Props/C17.lean — monitor theorems over the control skeletons that the translator
regenerates from Evolver.evolve, EvolveAppTask.execute and EvolveAppTask._create_models.
Tie: translator + receivers on every public signal interleaved with the execute_wrapper
statement trace, for fault-free runs (fresh install, upgrade, nothing to do) and with an
injected failure at EVERY write-statement index.
"""
import re

from .. import evocases, evorig, sigs


def check_trace(tr, outcome, apps=('vapp', 'wapp', 'xapp'), ignore_tables=()):
    """the property, on one interleaved trace; returns a list of problems"""
    problems = []
    ev = [e for e in tr.events if e[0] in ('signal', 'sql', 'fault')]
    names = [e[1] for e in ev if e[0] == 'signal']
    n_evolving = names.count('evolving')
    n_evolved = names.count('evolved')
    n_failed = names.count('evolving_failed')
    if n_evolving > 1:
        problems.append('evolving emitted %d times' % n_evolving)
    if n_evolving == 1:
        idx = [i for i, e in enumerate(ev) if e[0] == 'signal' and e[1] == 'evolving'][0]
        # (rows of Django's migration table are changes, too; that the TABLE itself is created while the tasks are
        # prepared, when it does not exist yet, is what the unchanged code does and not counted)
        early = [e[1][:60] for e in ev[:idx] if e[0] == 'sql' and
                 (any(('"%s_' % a) in e[1] for a in apps) or
                  re.match(r'\s*(INSERT INTO|UPDATE|DELETE FROM) "django_migrations"', e[1]))]
        if early:
            problems.append('changes before evolving: %s' % early[0])
        if n_evolved + n_failed != 1:
            problems.append('evolving followed by %d evolved and %d evolving_failed' % (n_evolved, n_failed))
        if outcome == 'ok' and n_evolved != 1:
            problems.append('the run returned normally without evolved')
        if outcome == 'error' and n_evolved == 1:
            problems.append('evolved although the run failed')
        last = [e for e in ev if e[0] == 'signal'][-1][1]
        if last not in ('evolved', 'evolving_failed'):
            problems.append('the last signal is %s' % last)
    elif n_evolved or n_failed:
        problems.append('evolved/evolving_failed without evolving')
    # pairs and payloads
    open_pair = None
    group = []
    batch = False
    for e in ev:
        if e[0] == 'signal':
            name, info = e[1], e[2]
            if name == 'creating_models' and open_pair is not None and open_pair[0] == 'creating_models' and \
                    info.get('app') not in [g.get('app') for g in group]:
                # the models of several apps are created in ONE batch: every creating_models is sent before the first
                # table is created, every created_models after the last (finding F63) - the pairs overlap, and each
                # brackets the other apps' statements
                group.append(info)
                batch = True
                continue
            if name in ('applying_evolution', 'creating_models', 'applying_migration'):
                if open_pair is not None:
                    problems.append('%s while %s is still open' % (name, open_pair[0]))
                open_pair = (name, info)
                group = [info] if name == 'creating_models' else []
                if name == 'applying_evolution':
                    # the evolutions a task announces are its own app's, each once
                    labels = info.get('evolutions', [])
                    if len(labels) != len(set(labels)):
                        problems.append('applying_evolution of %s lists an evolution twice: %r' % (info.get('app'), labels))
                    foreign = [a for a in info.get('evolution_apps', []) if a is not None and a != info.get('app')]
                    if foreign:
                        problems.append('applying_evolution of %s carries evolutions of %s' % (info.get('app'), sorted(set(foreign))))
            elif name in ('applied_evolution', 'created_models', 'applied_migration'):
                want = {'applied_evolution': 'applying_evolution', 'created_models': 'creating_models',
                        'applied_migration': 'applying_migration'}[name]
                if name == 'created_models' and len(group) > 1:
                    # a batch of several apps closes in the order it was opened, each with its own payload
                    if group[0] != info:
                        problems.append('created_models carries %r but creating_models carried %r' % (info, group[0]))
                    group = group[1:]
                    open_pair = ('creating_models', group[0])
                    continue
                if open_pair is None or open_pair[0] != want:
                    problems.append('%s without %s' % (name, want))
                elif open_pair[1] != info:
                    problems.append('%s carries %r but %s carried %r' % (name, info, want, open_pair[1]))
                open_pair = None
                group = []
            elif name in ('evolved',) and open_pair is not None:
                problems.append('evolved while %s is open' % open_pair[0])
        elif e[0] == 'sql':
            if any(('"%s"' % t) in e[1] for t in ignore_tables):
                continue        # tables of the purged app, whatever they are called: purging has no signals
            touched = [a for a in apps if ('"%s_' % a) in e[1]]
            if touched and open_pair is None and not e[1].startswith(('CREATE INDEX', 'CREATE UNIQUE INDEX')) and 'django_' not in e[1]:
                # deferred SQL of new models (indexes, FK constraints) legitimately runs after the pairs
                problems.append('statement outside any applying/creating pair: %s' % e[1][:70])
            if touched and open_pair is not None and open_pair[0] in ('applying_evolution', 'creating_models'):
                app = open_pair[1].get('app')
                batch_apps = [g.get('app') for g in group] if open_pair[0] == 'creating_models' else []
                if app and not any(('"%s_' % x) in e[1] for x in [app] + batch_apps) and 'REFERENCES' not in e[1]:
                    problems.append('%s of %s brackets a statement on another app: %s' % (open_pair[0], app, e[1][:60]))
    if outcome == 'ok' and open_pair is not None:
        problems.append('%s never closed in a successful run' % open_pair[0])
    if batch:
        problems.append('F63: the creating_models/created_models pairs of several apps overlap (models created in one batch)')
    return problems


def saved_problems(tr, alias='default'):
    """`evolved` means everything was saved: every evolution announced as applied is recorded - in the database
    that was evolved"""
    if not any(e[0] == 'signal' and e[1] == 'evolved' for e in tr.events):
        return []
    recorded = set((e[0], e[1]) for e in evorig.bookkeeping(alias)['evolutions'])
    out = []
    for e in tr.events:
        if e[0] == 'signal' and e[1] == 'applied_evolution':
            for label in e[2].get('evolutions', []):
                if (e[2].get('app'), label) not in recorded:
                    out.append('evolved was sent, but evolution %s.%s (announced as applied) is not recorded'
                               % (e[2].get('app'), label))
    # ... and the signature the run arrived at is the one that is stored: it describes the installed models
    try:
        from django_evolution.diff import Diff
        from django_evolution.models import Version
        from django_evolution.signature import ProjectSignature
        stored = Version.objects.using(alias).order_by('-id')[0].signature
        target = ProjectSignature.from_database(alias)
        mine = set(evorig.APPS + evorig.EXTRA)
        for a in target.app_sigs:
            if a.app_id not in mine:
                continue
            b = stored.get_app_sig(a.app_id)
            if b is None and list(a.model_sigs):
                out.append('evolved was sent, but the stored signature has no entry for the installed app %s' % a.app_id)
            elif b is not None and (a.diff(b) if hasattr(a, 'diff') else None):
                d = a.diff(b)
                if d.get('changed') or d.get('deleted'):
                    out.append('evolved was sent, but the stored signature of app %s is not that of its models' % a.app_id)
    except Exception as e:       # reading the stored signature is not what is under test here
        out.append('the stored signature cannot be read after evolved: %s' % type(e).__name__)
    return out


def lock_value():
    from django_evolution import management
    return getattr(management, '_evolve_lock', None)


def run(ctx):
    evorig.setup()
    quick = ctx.tier == 'quick'
    plain_fail = ctx.fail

    def fail(fid, what, rep):
        # check_trace marks what finding F63 explains (overlapping creating/created pairs of a multi-app batch)
        if 'F63: ' in what:
            return plain_fail('F63', what.split('F63: ', 1)[1], rep)
        return plain_fail(fid, what, rep)
    ctx.fail = fail
    ctx.rule = ('runs of generated upgrades (1-3 mutations, optionally a new model) plus the baseline install and a '
                'nothing-to-do run, each fault-free and with an injected failure at EVERY write-statement index; '
                'non-trivial = the trace has at least one applying/creating pair; distinct by (case, k)')
    shared_label_runs(ctx)
    two_app_new_model_runs(ctx)
    other_database_runs(ctx)
    inside_atomic_runs(ctx)
    unmanaged_model_runs(ctx)
    failing_preparation_runs(ctx)
    later_migration_run(ctx)
    rename_plus_new_model_runs(ctx)
    migration_runs(ctx, quick)
    migration_app_runs(ctx)
    ncases = 9 if quick else 120
    done = 0
    tries = 0
    while done < ncases and tries < ncases * 6 and ctx.time_left() > 30:
        tries += 1
        case = evocases.gen_upgrade(ctx.rng, new_model=ctx.rng.random() < 0.4)
        if case is None:
            continue
        seed = ctx.seed * 977 + tries
        # the baseline install itself is a run worth looking at
        evorig.fresh_databases()
        evorig.clear_evolutions()
        evorig.install_models(case['spec0'])
        lock0 = lock_value()
        tr0 = evorig.Trace()
        r0 = evorig.run_evolver(trace=tr0)
        if r0[0] != 'ok':
            continue
        for p in check_trace(tr0, 'ok') + saved_problems(tr0):
            ctx.fail(None, 'fresh install: ' + p, {'spec0': case['spec0'], 'signals': tr0.signals()})
        # nothing to do
        tr1 = evorig.Trace()
        r1 = evorig.run_evolver(trace=tr1)
        for p in check_trace(tr1, r1[0]):
            ctx.fail(None, 'nothing-to-do run: ' + p, {'spec0': case['spec0'], 'signals': tr1.signals()})
        if [w for w in tr1.write_statements() if 'django_project_version' not in w and 'django_evolution' not in w]:
            ctx.count('noop_run_wrote')
        from .. import dbrig
        import random
        dbrig.insert_rows(evorig.install_models(case['spec0']), random.Random(seed))
        # every other case: an app that is not installed any more is purged in the same run (purging has no
        # signals of its own, so its statements are outside the pairs by design)
        purge = (tries % 2 == 0)
        purged_tables = []
        if purge:
            from .c15 import add_stale
            stale = add_stale(random.Random(seed), seed, case['spec0'])
            if stale is None:
                purge = False
            else:
                from .c15 import owned_tables
                purged_tables = owned_tables(stale)
        ctx.count('upgrade_with_purge:%s' % purge)
        evocases.save_db('v0')
        evocases.install_v1(case)
        tr = evorig.Trace()
        r = evorig.run_evolver(trace=tr, purge=purge)
        if r[0] != 'ok':
            ctx.count('upgrade_failed')
            continue
        done += 1
        n = len(tr.write_statements())
        rep0 = {'spec0': case['spec0'], 'mutations': case['muts'], 'seed': seed}
        for p in check_trace(tr, 'ok', ignore_tables=purged_tables) + saved_problems(tr):
            ctx.fail(None, 'upgrade%s: %s' % (' with purge' if purge else '', p), dict(rep0, purge=purge, signals=tr.signals()))
        ctx.case({'mutations': [sigs.model_mutation(m) for m in case['muts']], 'fault': None,
                  'signals': [s[0] for s in tr.signals()]}, nontrivial=True, sample_cap=3)
        for k in range(n):
            if ctx.time_left() < 20:
                break
            evocases.restore_db('v0')
            evocases.install_v1(case)
            trk = evorig.Trace(fail_at=k)
            rk = evorig.run_evolver(trace=trk, purge=purge)
            sigs_k = [s[0] for s in trk.signals()]
            ctx.case({'mutations': [sigs.model_mutation(m) for m in case['muts']], 'fault': k, 'signals': sigs_k},
                     nontrivial=any(s.startswith(('applying', 'creating')) for s in sigs_k), sample_cap=6)
            ctx.count('fault_runs')
            for p in check_trace(trk, rk[0], ignore_tables=purged_tables) + saved_problems(trk):
                ctx.fail(None, 'fault at write #%d of %d: %s' % (k, n, p), dict(rep0, k=k, purge=purge, signals=trk.signals(),
                                                                               failed_sql=trk.failed_sql))
            # no applied/created after the failing statement
            if rk[0] == 'error':
                idx = [i for i, e in enumerate(trk.events) if e[0] == 'fault']
                if idx:
                    after = [e[1] for e in trk.events[idx[0]:] if e[0] == 'signal']
                    bad = [s for s in after if s in ('applied_evolution', 'created_models', 'applied_migration', 'evolved')]
                    if bad:
                        ctx.fail(None, '%s emitted after the failing statement' % bad[0],
                                 dict(rep0, k=k, signals=trk.signals()))
            if lock_value() != lock0:
                ctx.fail(None, 'the process-wide evolve lock did not return to its previous value (%r -> %r)'
                         % (lock0, lock_value()), dict(rep0, k=k))


def run_mig(case, vapp_fields, evolutions, migrations, fail_at=None):
    """one run of an app that has Django migrations (handed in, as in C10), traced"""
    from django_evolution.compat.apps import get_apps
    from django_evolution.evolve import EvolveAppTask, Evolver
    from django_evolution.utils.apps import get_app_label
    from .c10 import spec
    evorig._hygiene()
    evorig.install_models(spec(vapp_fields, None))
    evorig.set_evolutions('vapp', evolutions or [])
    tr = evorig.Trace(fail_at=fail_at)
    outcome = 'ok'
    with tr.recording():
        try:
            ev = Evolver()
            for a in get_apps():
                if get_app_label(a) == 'vapp':
                    ev.queue_task(EvolveAppTask(ev, a, migrations=migrations))
                else:
                    ev.queue_evolve_app(a)
            if ev.get_evolution_required():
                ev.evolve()
        except Exception:
            outcome = 'error'
    return outcome, tr


def migration_runs(ctx, quick):
    """the C10 histories: an app handed over to migrations from each start state, an app that is on
    migrations from its first install, and a legacy database whose tables exist although no migration is
    recorded (Django then records the initial migration without running it); fault-free and with a
    failure injected at every write statement"""
    from django.db import connection
    from .c10 import Case
    combos = [(1, 2, 1), (0, 3, 2), (2, 1, 1)] if quick else \
        [(k, m, s) for k in (0, 1, 2) for m in (1, 2, 3) for s in range(1, m + 1)]
    for (k, m, s) in combos:
        case = Case(k, m, s, False)
        final_fields = ['base'] + case.fnames + case.gnames

        def start_evolutions():
            # database at the last evolution before the hand-over
            evorig.fresh_databases()
            evorig.clear_evolutions()
            run_mig(case, ['base'], [], None)
            return run_mig(case, ['base'] + case.evo_fields, case.evolutions(upto=len(case.evo_fields)), None)[0] == 'ok'

        def start_fresh():
            evorig.fresh_databases()
            evorig.clear_evolutions()
            return True

        def start_legacy():
            # tables created outside of any tool, nothing recorded for the app
            evorig.fresh_databases()
            evorig.clear_evolutions()
            with connection.cursor() as cur:
                cur.execute('CREATE TABLE "vapp_alpha" ("id" integer NOT NULL PRIMARY KEY AUTOINCREMENT, %s)'
                            % ', '.join('"%s" integer NULL' % n for n in ['base'] + case.fnames))
            return True
        scenarios = [('handover', start_evolutions, lambda: case.evolutions()),
                     ('fresh_on_migrations', start_fresh, lambda: case.evolutions()),
                     ('legacy_tables_unrecorded', start_legacy, lambda: [])]
        for name, start, evos in scenarios:
            if ctx.time_left() < 25:
                return
            if not start():
                ctx.count('migration_runs:start_failed')
                continue
            outcome, tr = run_mig(case, final_fields, evos(), case.migrations())
            rep0 = {'scenario': name, 'k': k, 'm': m, 's': s}
            sig_names = [x[0] for x in tr.signals()]
            ctx.case(dict(rep0, fault=None, signals=sig_names), nontrivial='applying_migration' in sig_names,
                     sample_cap=6)
            ctx.count('migration_runs:%s' % name)
            if outcome != 'ok':
                ctx.count('migration_runs:%s_failed' % name)
                continue
            for p in check_trace(tr, 'ok'):
                ctx.fail(None, 'migrations (%s): %s' % (name, p), dict(rep0, signals=tr.signals()))
            n = len(tr.write_statements())
            for j in range(n):
                if ctx.time_left() < 20:
                    return
                start()
                oj, trj = run_mig(case, final_fields, evos(), case.migrations(), fail_at=j)
                ctx.count('migration_fault_runs')
                ctx.case(dict(rep0, fault=j, signals=[x[0] for x in trj.signals()]), nontrivial=True, sample_cap=4)
                for p in check_trace(trj, oj):
                    ctx.fail(None, 'migrations (%s), fault at write #%d of %d: %s' % (name, j, n, p),
                             dict(rep0, fault=j, signals=trj.signals(), failed_sql=trj.failed_sql))


class _Shim(object):
    def __init__(self, events):
        self.events = [tuple(e) for e in events]


def after_fault_problems(tr, outcome):
    """nothing is announced as applied / created / evolved after the failing statement"""
    if outcome != 'error':
        return []
    idx = [i for i, e in enumerate(tr.events) if e[0] == 'fault']
    if not idx:
        return []
    after = [e[1] for e in tr.events[idx[0]:] if e[0] == 'signal']
    return ['%s emitted after the failing statement' % s for s in after
            if s in ('applied_evolution', 'created_models', 'applied_migration', 'evolved')][:1]


def two_app_new_model_runs(ctx):
    """two apps that each get a new model (one of them with a many-to-many field) in the same upgrade: the models of
    both are created in one batch; fault-free and with a fault at every write"""
    import random
    from .. import dbrig

    def fld(name, t, related=None, **attrs):
        return {'name': name, 'type': t, 'attrs': attrs, 'related': related}

    def mdl(app, name, fields):
        return {'name': name, 'table': '%s_%s' % (app, name.lower()), 'unique_together': [], 'index_together': [],
                'indexes': [], 'constraints': [], 'fields': [fld('id', 'AutoField', primary_key=True)] + fields}
    a0 = mdl('vapp', 'Alpha', [fld('a', 'IntegerField', null=True)])
    w0 = mdl('wapp', 'Wal', [fld('w', 'IntegerField', null=True)])
    spec0 = {'apps': [{'id': 'vapp', 'models': [a0]}, {'id': 'wapp', 'models': [w0]}]}
    spec1 = {'apps': [{'id': 'vapp', 'models': [a0, mdl('vapp', 'Newt', [fld('n', 'IntegerField', null=True),
                                                                        fld('pals', 'ManyToManyField', 'vapp.Alpha')])]},
                      {'id': 'wapp', 'models': [w0, mdl('wapp', 'Newu', [fld('u', 'IntegerField', null=True, db_index=True)])]}]}

    def start():
        evorig.fresh_databases()
        evorig.clear_evolutions()
        evorig.install_models(spec0)
        r = evorig.run_evolver()
        dbrig.insert_rows(evorig.install_models(spec0), random.Random(7))
        evorig.install_models(spec1)
        return r[0] == 'ok'
    if not start():
        ctx.count('two_app_new_models:start_failed')
        return
    tr = evorig.Trace()
    r = evorig.run_evolver(trace=tr)
    rep0 = {'scenario': 'two apps, each with a new model, one run'}
    ctx.count('two_app_new_models:run')
    ctx.case(dict(rep0, fault=None, signals=[x[0] for x in tr.signals()]), nontrivial=True, sample_cap=2)
    for p in check_trace(tr, r[0]) + saved_problems(tr):
        ctx.fail(None, 'two apps with new models: %s' % p, dict(rep0, signals=tr.signals()))
    n = len(tr.write_statements())
    for k in range(n):
        if ctx.time_left() < 20:
            return
        start()
        trk = evorig.Trace(fail_at=k)
        rk = evorig.run_evolver(trace=trk)
        ctx.count('two_app_new_models:fault_runs')
        ctx.case(dict(rep0, fault=k, signals=[x[0] for x in trk.signals()]), nontrivial=True, sample_cap=2)
        for p in check_trace(trk, rk[0]) + saved_problems(trk) + after_fault_problems(trk, rk[0]):
            ctx.fail(None, 'two apps with new models, fault at write #%d of %d: %s' % (k, n, p),
                     dict(rep0, fault=k, signals=trk.signals(), failed_sql=trk.failed_sql))


def inside_atomic_runs(ctx):
    """the same upgrade in autocommit and inside a transaction the CALLER opened (transaction.atomic() around
    Evolver.evolve(), foreign-key checks off as SQLite requires): the signals must be as truthful there - the run
    that says `evolved` leaves the database in the state the autocommit run leaves it in"""
    import random
    from django.db import connections, transaction
    from .. import dbrig
    done = tries = 0
    while done < 3 and tries < 15 and ctx.time_left() > 30:
        tries += 1
        case = evocases.gen_upgrade(random.Random(ctx.seed * 53 + tries), new_model=(tries % 2 == 0))
        if case is None:
            continue
        seed = ctx.seed * 59 + tries
        evocases.prepare_v0(case, seed)
        evocases.save_db('at0')
        evocases.install_v1(case)
        tr_ref = evorig.Trace()
        ref = evorig.run_evolver(trace=tr_ref)
        if ref[0] != 'ok':
            continue
        snap_ref = evorig.snapshot()
        evocases.restore_db('at0')
        evocases.install_v1(case)
        conn = connections['default']
        tr = evorig.Trace()
        conn.disable_constraint_checking()
        try:
            with transaction.atomic():
                r = evorig.run_evolver(trace=tr)
        except Exception as e:
            r = ('error', e, tr)
        finally:
            conn.enable_constraint_checking()
        done += 1
        rep = {'scenario': 'Evolver.evolve() inside the caller\'s transaction.atomic()', 'spec0': case['spec0'],
               'mutations': case['muts'], 'seed': seed, 'signals': tr.signals()}
        ctx.count('inside_atomic:%s' % r[0])
        ctx.case({'scenario': 'inside atomic', 'mutations': [sigs.model_mutation(m) for m in case['muts']],
                  'signals': [x[0] for x in tr.signals()]}, nontrivial=True, sample_cap=2)
        for p in check_trace(tr, r[0]) + (saved_problems(tr) if r[0] == 'ok' else []):
            ctx.fail(None, 'upgrade inside the caller\'s transaction: %s' % p, rep)
        if r[0] == 'ok':
            snap = evorig.snapshot()
            diff = [k for k in snap if snap[k] != snap_ref[k]]
            if diff:
                ctx.fail(None, 'upgrade inside the caller\'s transaction: evolved was sent, but the database is not in the '
                         'state the same upgrade leaves outside a transaction (%s differ)' % diff, rep)
        elif 'evolved' in [x[0] for x in tr.signals()]:
            ctx.fail(None, 'upgrade inside the caller\'s transaction: evolved was sent although the run raised', rep)
        # ... and with every RELEASE SAVEPOINT of the run failing in turn (a transaction of the executor cannot be
        # finished): the run must raise, say evolving_failed and not evolved, and announce nothing afterwards
        for k in range(tr.releases):
            if ctx.time_left() < 20:
                break
            evocases.restore_db('at0')
            evocases.install_v1(case)
            trk = evorig.Trace(fail_release_at=k)
            conn.disable_constraint_checking()
            try:
                with transaction.atomic():
                    rk = evorig.run_evolver(trace=trk)
            except Exception as e:
                rk = ('error', e, trk)
            finally:
                conn.enable_constraint_checking()
            if trk.failed_sql is None:
                continue
            ctx.count('inside_atomic:release_fault_runs')
            names = [x[0] for x in trk.signals()]
            repk = dict(rep, fault='RELEASE SAVEPOINT #%d' % k, signals=trk.signals())
            ctx.case({'scenario': 'inside atomic', 'fault': 'release #%d' % k, 'signals': names,
                      'mutations': [sigs.model_mutation(m) for m in case['muts']]}, nontrivial=True, sample_cap=2)
            if rk[0] == 'ok' or 'evolved' in names:
                ctx.fail(None, 'upgrade inside the caller\'s transaction, a transaction of the run could not be finished '
                         '(RELEASE SAVEPOINT #%d failed): the run %s and sent %s'
                         % (k, 'returned normally' if rk[0] == 'ok' else 'raised', names[-1:]), repk)
            for p in check_trace(trk, rk[0]) + after_fault_problems(trk, rk[0]):
                ctx.fail(None, 'upgrade inside the caller\'s transaction, RELEASE SAVEPOINT #%d fails: %s' % (k, p), repk)


def created_payload_problems(tr, table_of):
    """creating_models / created_models name exactly the models whose CREATE TABLE ran between the two signals
    (`table_of`: model name -> table name, for the models of the case)"""
    import re
    problems, cur = [], None
    for e in tr.events:
        if e[0] == 'signal' and e[1] == 'creating_models':
            cur = {'models': list(e[2].get('models', [])), 'tables': []}
        elif e[0] == 'sql' and cur is not None:
            m = re.match(r'\s*CREATE TABLE "([^"]+)"', e[1])
            if m:
                cur['tables'].append(m.group(1))
        elif e[0] == 'signal' and e[1] == 'created_models' and cur is not None:
            want = sorted(table_of[n.split('.')[-1]] for n in cur['models'] if n.split('.')[-1] in table_of)
            have = sorted(t for t in cur['tables'] if t in table_of.values())
            if want != have:
                problems.append('creating/created_models name %s, the tables created between the two signals are %s'
                                % (cur['models'], have))
            cur = None
    return problems


def rename_plus_new_model_runs(ctx):
    """one release renames a model (and its table) through an evolution and adds a new model: the renamed model is not
    a created one"""
    def fld(name, t, related=None, **attrs):
        return {'name': name, 'type': t, 'attrs': attrs, 'related': related}

    def mdl(name, table, fields):
        return {'name': name, 'table': table, 'unique_together': [], 'index_together': [], 'indexes': [],
                'constraints': [], 'fields': [fld('id', 'AutoField', primary_key=True)] + fields}
    spec0 = {'apps': [{'id': 'vapp', 'models': [mdl('Author', 'vapp_author', [fld('name', 'IntegerField', null=True)])]}]}
    spec1 = {'apps': [{'id': 'vapp', 'models': [mdl('Writer', 'vapp_writer', [fld('name', 'IntegerField', null=True)]),
                                                 mdl('Book', 'vapp_book', [fld('pages', 'IntegerField', null=True)])]}]}
    from django_evolution.mutations import RenameModel
    evorig.fresh_databases()
    evorig.clear_evolutions()
    evorig.install_models(spec0)
    if evorig.run_evolver()[0] != 'ok':
        ctx.count('rename_plus_new_model:start_failed')
        return
    evorig.install_models(spec1)
    evorig.set_evolutions('vapp', [{'label': 'rename_author',
                                    'mutations': [RenameModel('Author', 'Writer', db_table='vapp_writer')]}])
    tr = evorig.Trace()
    r = evorig.run_evolver(trace=tr)
    rep = {'scenario': 'a release renames a model (new table) and adds a model', 'signals': tr.signals()}
    ctx.count('rename_plus_new_model:%s' % r[0])
    ctx.case({'scenario': rep['scenario'], 'signals': [x[0] for x in tr.signals()]}, nontrivial=True, sample_cap=1)
    if r[0] != 'ok':
        ctx.fail(None, 'a release that renames a model and adds another fails: %s' % str(r[1])[:150], rep)
        return
    table_of = {'Writer': 'vapp_writer', 'Book': 'vapp_book', 'Author': 'vapp_author'}
    for p in check_trace(tr, 'ok') + saved_problems(tr) + created_payload_problems(tr, table_of):
        ctx.fail(None, 'rename plus new model: %s' % p, rep)


def unmanaged_model_runs(ctx):
    """a release that adds a regular model and a model that Django does not manage (Meta.managed = False): whatever
    created_models names was created between the pair - fault-free, and nothing is announced that was not done"""
    import random
    from .. import dbrig

    def fld(name, t, related=None, **attrs):
        return {'name': name, 'type': t, 'attrs': attrs, 'related': related}

    def mdl(name, fields, **extra):
        return dict({'name': name, 'table': 'vapp_%s' % name.lower(), 'unique_together': [], 'index_together': [],
                     'indexes': [], 'constraints': [], 'fields': [fld('id', 'AutoField', primary_key=True)] + fields}, **extra)
    a0 = mdl('Alpha', [fld('a', 'IntegerField', null=True)])
    spec0 = {'apps': [{'id': 'vapp', 'models': [a0]}]}
    spec1 = {'apps': [{'id': 'vapp', 'models': [a0, mdl('Shelf', [fld('n', 'IntegerField', null=True)]),
                                                 mdl('Legacy', [fld('code', 'IntegerField', null=True)], managed=False)]}]}
    evorig.fresh_databases()
    evorig.clear_evolutions()
    evorig.install_models(spec0)
    if evorig.run_evolver()[0] != 'ok':
        ctx.count('unmanaged_model:start_failed')
        return
    evorig.install_models(spec1)
    tr = evorig.Trace()
    r = evorig.run_evolver(trace=tr)
    rep = {'scenario': 'a release adds a regular and an unmanaged model', 'signals': tr.signals()}
    ctx.count('unmanaged_model:%s' % r[0])
    ctx.case({'scenario': rep['scenario'], 'signals': [x[0] for x in tr.signals()]}, nontrivial=True, sample_cap=1)
    for p in check_trace(tr, r[0]) + (saved_problems(tr) if r[0] == 'ok' else []):
        ctx.fail(None, 'release with an unmanaged model: %s' % p, rep)
    schema = dbrig.abs_schema()
    tables = {'Shelf': 'vapp_shelf', 'Legacy': 'vapp_legacy', 'Alpha': 'vapp_alpha'}
    for p in created_payload_problems(tr, tables):
        ctx.fail(None, 'release with an unmanaged model: %s' % p, rep)
    named = [nm for n, info in tr.signals() if n == 'created_models' for nm in info.get('models', [])]
    for nm in named:
        t = tables.get(nm.split('.')[-1])
        if t and t not in schema:
            ctx.fail(None, 'created_models names %s, but its table %s was not created' % (nm, t), rep)
    # a further run: what was announced as created is not announced again
    tr2 = evorig.Trace()
    evorig.run_evolver(trace=tr2)
    again = [nm for n, info in tr2.signals() if n == 'created_models' for nm in info.get('models', [])]
    if again:
        ctx.fail(None, 'a further run announces %s as created again' % again, dict(rep, second_run=tr2.signals()))


def failing_preparation_runs(ctx):
    """runs that fail while the tasks are being PREPARED (inside evolve(), before any SQL): an evolution the
    simulation rejects, an evolution that names a model that does not exist with nothing else to do, a cyclic
    dependency between two apps' evolutions.  Whatever was announced is closed: `evolving` is followed by exactly one
    of `evolved` / `evolving_failed`, and the package's own lock is released"""
    from django.db import models
    from django_evolution.mutations import AddField, ChangeField

    def fld(name, t, related=None, **attrs):
        return {'name': name, 'type': t, 'attrs': attrs, 'related': related}

    def mdl(app, name, fields):
        return {'name': name, 'table': '%s_%s' % (app, name.lower()), 'unique_together': [], 'index_together': [],
                'indexes': [], 'constraints': [], 'fields': [fld('id', 'AutoField', primary_key=True)] + fields}
    spec0 = {'apps': [{'id': 'vapp', 'models': [mdl('vapp', 'Alpha', [fld('a', 'IntegerField', null=True)])]},
                      {'id': 'wapp', 'models': [mdl('wapp', 'Wal', [fld('w', 'IntegerField', null=True)])]}]}
    spec1 = {'apps': [{'id': 'vapp', 'models': [mdl('vapp', 'Alpha', [fld('a', 'IntegerField', null=True),
                                                                       fld('b', 'IntegerField')])]},
                      {'id': 'wapp', 'models': [mdl('wapp', 'Wal', [fld('w', 'IntegerField', null=True),
                                                                    fld('x', 'IntegerField', null=True)])]}]}
    scenarios = [
        ('an evolution the simulation rejects (NOT NULL column without an initial value)',
         {'vapp': [{'label': 'add_b', 'mutations': [AddField('Alpha', 'b', models.IntegerField)]}],
          'wapp': [{'label': 'add_x', 'mutations': [AddField('Wal', 'x', models.IntegerField, null=True)]}]}),
        ('an evolution that changes a field that does not exist',
         {'vapp': [{'label': 'add_b', 'mutations': [ChangeField('Alpha', 'nope', initial=None, null=True)]}],
          'wapp': [{'label': 'add_x', 'mutations': [AddField('Wal', 'x', models.IntegerField, null=True)]}]}),
        ('two evolutions that each have to come after the other',
         {'vapp': [{'label': 'add_b', 'after_evolutions': [('wapp', 'add_x')],
                    'mutations': [AddField('Alpha', 'b', models.IntegerField, initial=0)]}],
          'wapp': [{'label': 'add_x', 'after_evolutions': [('vapp', 'add_b')],
                    'mutations': [AddField('Wal', 'x', models.IntegerField, null=True)]}]}),
    ]
    for what, evos in scenarios:
        evorig.fresh_databases()
        evorig.clear_evolutions()
        evorig.install_models(spec0)
        if evorig.run_evolver()[0] != 'ok':
            ctx.count('failing_preparation:start_failed')
            continue
        evorig.install_models(spec1)
        for app, es in evos.items():
            evorig.set_evolutions(app, es)
        lock0 = lock_value()
        tr = evorig.Trace()
        r = evorig.run_evolver(trace=tr)
        names = [n for n, _ in tr.signals()]
        rep = {'scenario': 'preparation fails: ' + what, 'outcome': r[0], 'signals': names,
               'error': None if r[0] == 'ok' else '%s: %s' % (type(r[1]).__name__, str(r[1])[:160])}
        ctx.count('failing_preparation:%s' % r[0])
        ctx.case({'scenario': rep['scenario'], 'signals': names}, nontrivial=True, sample_cap=3)
        if r[0] == 'ok':
            continue        # the scenario did not fail after all: judged by the ordinary runs
        closed = names.count('evolved') + names.count('evolving_failed')
        if names.count('evolving') != closed:
            ctx.fail(None, '%s: evolving was sent %d time(s) and followed by %d evolved and %d evolving_failed'
                     % (what, names.count('evolving'), names.count('evolved'), names.count('evolving_failed')), rep)
        if 'evolved' in names:
            ctx.fail(None, '%s: the run raised and evolved was sent' % what, rep)
        if lock_value() != lock0:
            ctx.fail(None, '%s: the run left the package\'s evolve lock at %r (was %r)' % (what, lock_value(), lock0), rep)
        if tr.write_statements():
            ctx.fail(None, '%s: the run failed while preparing and had already written: %s'
                     % (what, tr.write_statements()[:2]), rep)


def later_migration_run(ctx):
    """a release after the hand-over whose only work is one new migration of the handed-over app (the package itself has
    nothing to evolve): when `evolved` is sent, what the run did is saved - the stored signature lists the migrations
    Django's migration table has"""
    from .c10 import Case, recorder, run_once
    for (k, m, s_) in ((1, 2, 1), (0, 2, 1)):
        if ctx.time_left() < 25:
            return
        c1, c2 = Case(k, m, s_, False), Case(k, m + 1, s_, False)
        evorig.fresh_databases()
        evorig.clear_evolutions()
        r0 = run_once(c1, ['base'], None, None, None)
        f1 = ['base'] + c1.fnames + c1.gnames
        r1 = run_once(c1, f1, c1.evolutions(), c1.migrations(), None, None) if r0['ok'] else r0
        if not r1['ok']:
            ctx.count('later_migration_run:handover_failed')
            continue
        f2 = ['base'] + c2.fnames + c2.gnames
        res = run_once(c2, f2, c2.evolutions(), c2.migrations(), None, None, force=True)
        names = [n for n, _ in res['trace'].signals()]
        rec = recorder()
        bk = evorig.bookkeeping()
        a = bk['sig'].get_app_sig('vapp') if bk['sig'] is not None else None
        stored = sorted(set(getattr(a, 'applied_migrations', None) or []))
        rep = {'scenario': 'a migration-only release after the hand-over', 'k': k, 'm': m, 's': s_, 'signals': names,
               'recorded': rec, 'stored': stored, 'outcome': 'ok' if res['ok'] else res['error']}
        ctx.count('later_migration_run:%s' % ('ok' if res['ok'] else 'fails'))
        ctx.case({'scenario': rep['scenario'], 'signals': names}, nontrivial=True, sample_cap=2)
        for p_ in check_trace(res['trace'], 'ok' if res['ok'] else 'error'):
            ctx.fail(None, 'migration-only release: %s' % p_, rep)
        if 'evolved' in names and stored != sorted(set(rec)):
            ctx.fail(None, 'migration-only release: evolved was sent, but the stored signature lists the migrations %r while '
                     'the migration table has %r: what the run did was not saved' % (stored, sorted(set(rec))), rep)


def other_database_runs(ctx):
    """the same upgrade on a second database (Evolver(database_name='other')), after the default one was
    upgraded: signals, and `evolved` => recorded THERE; the default database is not touched"""
    import random
    from .. import dbrig
    done = tries = 0
    while done < 3 and tries < 12 and ctx.time_left() > 30:
        tries += 1
        case = evocases.gen_upgrade(random.Random(ctx.seed * 31 + tries))
        if case is None:
            continue
        evorig.fresh_databases()
        evorig.clear_evolutions()
        evorig.install_models(case['spec0'])
        if evorig.run_evolver('default')[0] != 'ok' or evorig.run_evolver('other')[0] != 'ok':
            continue
        evocases.install_v1(case)
        if evorig.run_evolver('default')[0] != 'ok':
            continue
        before_default = evorig.snapshot('default')
        tr = evorig.Trace('other')
        r = evorig.run_evolver('other', trace=tr)
        if r[0] != 'ok':
            continue
        done += 1
        ctx.count('other_database:runs')
        rep = {'scenario': 'upgrade of database `other`', 'spec0': case['spec0'], 'mutations': case['muts']}
        ctx.case(dict(scenario=rep['scenario'], signals=[x[0] for x in tr.signals()]), nontrivial=True, sample_cap=2)
        for p in check_trace(tr, 'ok') + saved_problems(tr, 'other'):
            ctx.fail(None, 'other database: %s' % p, dict(rep, signals=tr.signals()))
        if evorig.snapshot('default') != before_default:
            ctx.fail(None, 'other database: the run wrote to the default database', dict(rep, signals=tr.signals()))


def shared_label_runs(ctx):
    """two apps whose pending evolutions carry the same labels, applied in one run (C04's two-app history, V0 -> V3
    directly): fault-free and with a fault at every write"""
    import random
    from .. import dbrig
    from . import c04
    specs, evos = c04.two_app_history()

    def start():
        evorig.fresh_databases()
        evorig.clear_evolutions()
        c04.install(specs, evos, 0)
        r = evorig.run_evolver()
        dbrig.insert_rows(evorig.install_models(specs[0]), random.Random(5))
        c04.install(specs, evos, 3)
        return r[0] == 'ok'
    if not start():
        ctx.count('shared_labels:start_failed')
        return
    tr = evorig.Trace()
    r = evorig.run_evolver(trace=tr)
    ctx.count('shared_labels:run')
    rep0 = {'scenario': 'two apps, same labels, one run'}
    ctx.case(dict(rep0, fault=None, signals=[x[0] for x in tr.signals()]), nontrivial=True, sample_cap=2)
    for p in check_trace(tr, r[0]) + saved_problems(tr):
        ctx.fail(None, 'shared labels: %s' % p, dict(rep0, signals=tr.signals()))
    n = len(tr.write_statements())
    for k in range(n):
        if ctx.time_left() < 20:
            return
        start()
        trk = evorig.Trace(fail_at=k)
        rk = evorig.run_evolver(trace=trk)
        ctx.count('shared_labels:fault_runs')
        ctx.case(dict(rep0, fault=k, signals=[x[0] for x in trk.signals()]), nontrivial=True, sample_cap=2)
        for p in check_trace(trk, rk[0]) + saved_problems(trk) + after_fault_problems(trk, rk[0]):
            ctx.fail(None, 'shared labels, fault at write #%d of %d: %s' % (k, n, p),
                     dict(rep0, fault=k, signals=trk.signals(), failed_sql=trk.failed_sql))


def migration_app_runs(ctx):
    """an app on Django migrations from its first release (tools/vlib/c17_worker.py, own process because the
    project then contains one more app)"""
    import json
    import os
    import subprocess
    import sys
    import tempfile
    here = os.path.dirname(os.path.dirname(os.path.abspath(__file__)))
    fd, out = tempfile.mkstemp(prefix='devo-c17-', suffix='.json')
    os.close(fd)
    try:
        p = subprocess.run([sys.executable, '-B', os.path.join(here, 'c17_worker.py'), out],
                           stdout=subprocess.PIPE, stderr=subprocess.STDOUT, timeout=max(60, ctx.time_left()))
        if p.returncode != 0:
            raise RuntimeError('C17 worker failed: %s' % p.stdout.decode()[-600:])
        results = json.load(open(out))['results']
    finally:
        if os.path.exists(out):
            os.unlink(out)
    for r in results:
        sig_names = [e[1] for e in r['events'] if e[0] == 'signal']
        ctx.count('migration_app:%s%s' % (r['scenario'], '' if r['fault'] is None else ':fault'))
        ctx.case({'scenario': r['scenario'], 'fault': r['fault'], 'signals': sig_names},
                 nontrivial='applying_migration' in sig_names, sample_cap=5)
        rep = {'scenario': r['scenario'], 'fault': r['fault'], 'failed_sql': r.get('failed_sql'), 'error': r['error'],
               'signals': [e[1:] for e in r['events'] if e[0] == 'signal']}
        if r['fault'] is None and r['outcome'] != 'ok':
            ctx.fail(None, 'migration app (%s): the run fails: %s' % (r['scenario'], r['error']), rep)
            continue
        for prob in check_trace(_Shim(r['events']), r['outcome'], apps=('vapp', 'wapp', 'xapp', 'mapp')):
            ctx.fail(None, 'migration app (%s%s): %s' % (r['scenario'], '' if r['fault'] is None else
                                                          ', fault at write #%d of %d' % (r['fault'], r['of']), prob), rep)
        if r['scenario'].endswith(':again'):
            w = [e[1] for e in r['events'] if e[0] == 'sql' and '"mapp_' in e[1]]
            if w or 'applying_migration' in sig_names:
                ctx.fail(None, 'migration app (%s): a second run is not a no-op: %s' % (r['scenario'], (w or sig_names)[:2]), rep)
        if r['fault'] is not None and r['outcome'] == 'error':
            idx = [i for i, e in enumerate(r['events']) if e[0] == 'fault']
            after = [e[1] for e in r['events'][idx[0]:] if e[0] == 'signal'] if idx else []
            bad = [x for x in after if x in ('applied_evolution', 'created_models', 'applied_migration', 'evolved')]
            if bad:
                ctx.fail(None, 'migration app (%s): %s emitted after the failing statement' % (r['scenario'], bad[0]), rep)


def replay(ctx, obj):
    """re-run one upgrade with the fault at the recorded write index and judge the signal trace"""
    _r = obj.get('replay', obj)
    if isinstance(_r, dict) and _r.get('scenario'):
        print('this scenario (%s) is rebuilt by the check itself: VERIF_SEED=%s ./check C17' % (_r['scenario'], obj.get('seed')))
        return 0
    import random
    from .. import dbrig
    evorig.setup()
    r = obj.get('replay', obj)
    if 'spec0' not in r or 'mutations' not in r:
        print('nothing to replay in this file: %r' % list(r))
        return 0
    sig0 = dbrig.sig_from_models(dbrig.build_models(r['spec0']))
    final = sigs.real_simulate(sig0, 'vapp', [sigs.real_mutation(m) for m in r['mutations']])[1]
    spec1 = dbrig.spec_from_sig(final)
    spec1['apps'] = [a for a in spec1['apps'] if a['id'] == 'vapp']
    case = {'spec0': r['spec0'], 'spec1': spec1, 'muts': r['mutations']}
    evocases.prepare_v0(case, r.get('seed', 0))
    evocases.install_v1(case)
    lock0 = lock_value()
    tr = evorig.Trace(fail_at=r.get('k'))
    out = evorig.run_evolver(trace=tr)
    problems = check_trace(tr, out[0])
    if lock_value() != lock0:
        problems.append('the evolve lock did not return to its previous value')
    print('outcome=%s signals=%s' % (out[0], [s[0] for s in tr.signals()]))
    for p_ in problems:
        print('PROBLEM:', p_)
    return 1 if problems else 0
