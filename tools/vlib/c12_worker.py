"""C12 worker: an app that ships BOTH an `evolutions` package and a `migrations` package (a project half way to Django's
migrations: no MoveToDjangoMigrations yet) and is tracked by evolutions.  Its pending evolution does not reach the
models; `evolve --execute --noinput` must refuse and touch nothing.  Own process: the app's `migrations` package is
written into the scratch project before Django starts.

usage: c12_worker.py <out.json>
"""
import json
import os
import sys

sys.path.insert(0, os.path.dirname(os.path.dirname(os.path.abspath(__file__))))

from vlib import dj, evorig  # noqa: E402

MIGRATION = '''
from django.db import migrations, models


class Migration(migrations.Migration):
    initial = True
    dependencies = []
    operations = [
        migrations.CreateModel(
            name='Thing',
            fields=[
                ('id', models.AutoField(auto_created=True, primary_key=True, serialize=False, verbose_name='ID')),
                ('name', models.CharField(max_length=20, null=True)),
            ],
            options={'db_table': 'xapp_thing'},
        ),
    ]
'''


def main(out_path):
    # the scratch project is created by setup(); the migrations package of xapp has to be there before that
    d = dj.scratch_dir()
    pkg = os.path.join(d, 'xapp', 'migrations')
    os.makedirs(pkg, exist_ok=True)
    open(os.path.join(pkg, '__init__.py'), 'w').close()
    with open(os.path.join(pkg, '0001_initial.py'), 'w') as f:
        f.write(MIGRATION)
    evorig.setup()
    from django.db import models
    from django_evolution.mutations import AddField

    def fld(name, t, **attrs):
        return {'name': name, 'type': t, 'attrs': attrs, 'related': None}

    def thing(*more):
        return {'apps': [{'id': 'xapp', 'models': [
            {'name': 'Thing', 'table': 'xapp_thing', 'unique_together': [], 'index_together': [], 'indexes': [],
             'constraints': [], 'fields': [fld('id', 'AutoField', primary_key=True),
                                           fld('name', 'CharField', max_length=20, null=True)] + list(more)}]}]}
    res = {}
    evorig.fresh_databases()
    evorig.clear_evolutions()
    evorig.install_models(thing())
    r0 = evorig.run_evolver()
    res['baseline'] = r0[0] if r0[0] == 'ok' else 'error: %s' % (r0[1],)
    from django_evolution.models import Version
    a = Version.objects.current_version().signature.get_app_sig('xapp')
    res['stored_upgrade_method'] = getattr(a, 'upgrade_method', None)
    # the database was installed by a release of the project that tracked the app by evolutions: that is what its
    # stored signature says (a no-op when the baseline above already says so)
    v = Version.objects.current_version()
    sig = v.signature
    sig.get_app_sig('xapp').upgrade_method = 'evolutions'
    v.signature = sig
    v.save()
    # the models gain two fields, the evolution adds one of them
    evorig.install_models(thing(fld('sku', 'IntegerField', null=True), fld('weight', 'IntegerField', null=True)))
    evorig.set_evolutions('xapp', [{'label': 'add_sku', 'mutations': [AddField('Thing', 'sku', models.IntegerField, null=True)]}])
    before = evorig.snapshot()
    r = evorig.run_command(execute=True, interactive=False)
    after = evorig.snapshot()
    res['outcome'] = r[0]
    res['message'] = (str(r[1])[:300] if r[0] == 'error' else r[2][-200:])
    res['error_type'] = type(r[1]).__name__ if r[0] == 'error' else None
    res['writes'] = r[-1].write_statements()[:6]
    res['changed'] = [k for k in before if before[k] != after[k]]
    json.dump(res, open(out_path, 'w'), default=str)


if __name__ == '__main__':
    main(sys.argv[1])
