"""Sequences for the optimiser (C03/C18): a small alphabet with heavy name reuse, exhaustive
DFS over simulation-valid sequences, random longer sequences; real optimiser I/O."""
import copy

from . import sigs


def start_spec():
    f = lambda n, t, **a: {'name': n, 'type': t, 'attrs': a, 'related': None}
    pk = {'name': 'id', 'type': 'AutoField', 'attrs': {'primary_key': True}, 'related': None}
    return {'apps': [{'id': 'vapp', 'models': [
        {'name': 'Alpha', 'table': 'vapp_alpha', 'fields': [pk, f('a', 'IntegerField', db_index=True),
                                                            f('b', 'CharField', max_length=20, null=True)],
         'unique_together': [], 'index_together': [], 'indexes': [], 'constraints': []},
        {'name': 'Beta', 'table': 'vapp_beta', 'fields': [pk, f('a', 'IntegerField'),
                                                          dict(f('r', 'ForeignKey', null=True), related='vapp.Alpha')],
         'unique_together': [], 'index_together': [], 'indexes': [], 'constraints': []}]}]}


def legacy_spec():
    """the start signature as an old release left it: unique_together is listed, but was never applied to the
    database (the flag `__unique_together_applied` is off until a ChangeMeta runs)"""
    spec = start_spec()
    m = spec['apps'][0]['models'][0]
    m['unique_together'] = [['a', 'b']]
    m['ut_applied'] = False
    return spec


def alphabet(models=('Alpha', 'Beta'), fields=('a', 'b', 'c'), small=False):
    out = []
    for m in models:
        for x in fields:
            out.append({'t': 'AddField', 'model': m, 'field': x, 'ftype': 'IntegerField', 'initial': '1', 'attrs': []})
            if not small:
                out.append({'t': 'AddField', 'model': m, 'field': x, 'ftype': 'CharField', 'initial': None,
                            'attrs': [['max_length', '10'], ['null', 'true']]})
            out.append({'t': 'DeleteField', 'model': m, 'field': x})
            out.append({'t': 'ChangeField', 'model': m, 'field': x, 'ftype': None, 'initial': None,
                        'attrs': [['null', 'true']]})
            out.append({'t': 'ChangeField', 'model': m, 'field': x, 'ftype': None, 'initial': '7',
                        'attrs': [['null', 'false']]})
            out.append({'t': 'ChangeField', 'model': m, 'field': x, 'ftype': None, 'initial': None,
                        'attrs': [['db_index', 'true']]})
            if not small:
                out.append({'t': 'ChangeField', 'model': m, 'field': x, 'ftype': None, 'initial': None,
                            'attrs': [['db_index', 'false']]})
                # a change of the field's type (the column type really changes), alone and together with NOT NULL
                out.append({'t': 'ChangeField', 'model': m, 'field': x, 'ftype': 'CharField', 'initial': None,
                            'attrs': [['max_length', '20'], ['null', 'true']]})
            for y in fields:
                if small and x == y:
                    continue
                out.append({'t': 'RenameField', 'model': m, 'old': x, 'new': y, 'db_column': None, 'db_table': None})
        out.append({'t': 'ChangeMeta', 'model': m, 'prop': 'unique_together', 'py_value': [('a', 'b')]})
        out.append({'t': 'ChangeMeta', 'model': m, 'prop': 'unique_together', 'py_value': []})
        out.append({'t': 'DeleteModel', 'model': m})
    out.append({'t': 'RenameModel', 'old': 'Alpha', 'new': 'Gamma', 'db_table': 'vapp_gamma'})
    out.append({'t': 'RenameModel', 'old': 'Gamma', 'new': 'Alpha', 'db_table': 'vapp_alpha'})
    out.append({'t': 'RenameModel', 'old': 'Beta', 'new': 'Al', 'db_table': 'vapp_beta'})
    out.append({'t': 'SQLMutation', 'tag': 'barrier', 'can_simulate': True, 'sql': []})
    return out


def applicable(cur, mj):
    """simulation-valid AND executable: a rename onto a name that already exists is accepted by
    the simulation (it silently replaces the other field/model) but can never be applied to a
    database, so it is outside "valid when applied one mutation at a time"."""
    if mj['t'] == 'RenameField':
        a = cur.get_app_sig('vapp')
        m = a.get_model_sig(mj['model']) if a is not None else None
        if m is not None and mj['new'] != mj['old'] and m.get_field_sig(mj['new']) is not None:
            return None
    if mj['t'] == 'RenameModel':
        a = cur.get_app_sig('vapp')
        if a is not None and mj['new'] != mj['old'] and a.get_model_sig(mj['new']) is not None:
            return None
    r = sigs.real_simulate(cur, 'vapp', [sigs.real_mutation(mj)])
    return r[1] if r[0] == 'ok' else None


def valid_sequences(sig, alpha, length):
    """DFS over sequences that the real simulation accepts one mutation at a time"""
    def rec(cur, prefix, n):
        if n == 0:
            yield list(prefix)
            return
        for mj in alpha:
            # mutations on models under their new names become available after a rename
            nxt = applicable(cur, mj)
            if nxt is None:
                continue
            prefix.append(mj)
            yield from rec(nxt, prefix, n - 1)
            prefix.pop()
    for n in range(1, length + 1):
        yield from rec(sig, [], n)


def random_sequence(rng, sig, alpha, length):
    cur = sig
    out = []
    tries = 0
    while len(out) < length and tries < length * 12:
        tries += 1
        mj = rng.choice(alpha)
        nxt = applicable(cur, mj)
        if nxt is not None:
            cur = nxt
            out.append(mj)
    return out


def real_optimize(sig, muts, passes=2):
    """real AppMutator._preprocess_mutations on fresh objects; returns per pass
    {'out': [...], 'arr': [...]} or {'err': type}"""
    from django_evolution.db.state import DatabaseState
    from django_evolution.mutators import AppMutator
    objs = [sigs.real_mutation(m) for m in muts]
    res = []
    for _ in range(passes):
        am = AppMutator(app_label='vapp', project_sig=sig.clone(),
                        database_state=DatabaseState('default', scan=False), database='default')
        try:
            out = am._preprocess_mutations(objs)
        except Exception as e:
            res.append({'err': type(e).__name__})
            break
        res.append({'out': [sigs.abs_mutation_obj(o) for o in out],
                    'arr': [sigs.abs_mutation_obj(o) for o in objs], 'out_objs': out})
    return res, objs


def model_explains_optimiser(ctx, spec, seq):
    """does the optimiser treat this sequence exactly as its Lean transliteration does?  Attributing a
    batched-only difference to the optimiser findings recorded under C03 (F20/F21/F24) presupposes it."""
    if not ctx.driver:
        return True
    try:
        sig = sigs.sig_from_spec(spec)
        existing = [m['name'] for a in spec['apps'] if a['id'] == 'vapp' for m in a['models']]
        out = ctx.driver.ask([{'op': 'optimize', 'existing': existing,
                               'copies': bool(ctx.variant.get('optimizer_copies')),
                               'mutations': [norm_mut(sigs.model_mutation(m)) for m in seq]}])[0]
        real, _ = real_optimize(sig, seq, passes=1)
    except Exception:
        return True
    r1 = real[0]
    if out is None:
        return True
    if 'err' in r1:
        return out.get('err') == r1['err']
    return 'out' in out and [norm_mut(x) for x in r1['out']] == out['out']


def model_predicts_difference(ctx, spec, seq):
    """does the Lean model (optimiser, then `simulate`) say that running the optimised list ends differently
    from running the sequence one mutation at a time - another signature, or one of the two rejected?  The
    optimiser findings of C03 (F20/F24/F60) explain a batched-only difference only where it does."""
    if not ctx.driver:
        return True
    try:
        sig = sigs.sig_from_spec(spec)
        existing = [m['name'] for a in spec['apps'] if a['id'] == 'vapp' for m in a['models']]
        orig = [norm_mut(sigs.model_mutation(m)) for m in seq]
        out = ctx.driver.ask([{'op': 'optimize', 'existing': existing,
                               'copies': bool(ctx.variant.get('optimizer_copies')), 'mutations': orig}])[0]
        if out is None:
            return True
        if 'out' not in out:
            return True         # the model of the optimiser itself gives up on the sequence
        flags = {'rename_app_label_fixed': bool(ctx.variant.get('rename_app_label_fixed'))}
        base = {'op': 'simulate', 'sig': sigs.abs_sig(sig), 'ctx': {'app': 'vapp'}, 'flags': flags}
        a, b = ctx.driver.ask([dict(base, mutations=orig), dict(base, mutations=out['out'])])
    except Exception:
        return True
    if a is None or b is None:
        return True
    if ('ok' in a) != ('ok' in b):
        return True
    if 'ok' not in a:
        return a.get('err') != b.get('err')
    return sigs.norm_sig(a['ok'], True, True) != sigs.norm_sig(b['ok'], True, True)


def model_optimiser_acts(ctx, spec, seq):
    """does the Lean transliteration of the optimiser change the list at all (drop, merge, rewrite or reorder)?"""
    if not ctx.driver:
        return True
    try:
        existing = [m['name'] for a in spec['apps'] if a['id'] == 'vapp' for m in a['models']]
        orig = [norm_mut(sigs.model_mutation(m)) for m in seq]
        out = ctx.driver.ask([{'op': 'optimize', 'existing': existing,
                               'copies': bool(ctx.variant.get('optimizer_copies')), 'mutations': orig}])[0]
    except Exception:
        return True
    if out is None or 'out' not in out:
        return True
    return out['out'] != orig


def norm_mut(mj):
    mj = {k: v for k, v in mj.items() if k not in ('py_value', 'sql', 'model_name_attr')}
    return mj
