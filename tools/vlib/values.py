"""Attribute values for C06/C13: generator (Python objects) and abstraction to the Lean value
type (`DEvo.Ser.V`, JSON encoded)."""
from collections import OrderedDict


def abs_value(v):
    from django.db.models import Q
    import enum
    if v is None:
        return {'t': 'null'}
    if isinstance(v, bool):
        return {'t': 'bool', 'v': v}
    if isinstance(v, int):
        return {'t': 'int', 'v': v}
    if isinstance(v, str):
        return {'t': 'str', 'v': v}
    if isinstance(v, list):
        return {'t': 'list', 'v': [abs_value(x) for x in v]}
    if isinstance(v, tuple):
        return {'t': 'tuple', 'v': [abs_value(x) for x in v]}
    if isinstance(v, dict):
        return {'t': 'dict', 'v': [[k, abs_value(x)] for k, x in v.items()]}
    if isinstance(v, Q):
        return {'t': 'q', 'conn': None if v.connector == Q.default else v.connector, 'neg': bool(v.negated),
                'children': [abs_value(c) for c in v.children]}
    if isinstance(v, enum.Enum):
        c = type(v)
        return {'t': 'enum', 'type': '%s.%s' % (c.__module__, c.__name__), 'name': v._name_}
    if hasattr(v, 'deconstruct'):
        path, args, kwargs = v.deconstruct()
        return {'t': 'obj', 'type': path, 'args': [abs_value(a) for a in args],
                'kwargs': [[k, abs_value(x)] for k, x in kwargs.items()]}
    raise TypeError('value outside the modelled space: %r' % (v,))


STRS = ['a', 'name', "it's", 'q"uote', 'back\\slash', 'ünï', '', 'x__gte', '50%',
        # text that is not in Unicode's composed normal form (a decomposed accent as macOS produces it, a code point
        # that NFC replaces): stored text is the text given, code point for code point
        'Ame\u0301lie', '\u212bngstro\u0308m']


def gen_q(rng, depth=0):
    from django.db.models import Q
    n = rng.choice([1, 1, 2, 2, 3])
    children = []
    for _ in range(n):
        if depth < 2 and rng.random() < 0.3:
            children.append(gen_q(rng, depth + 1))
        else:
            children.append((rng.choice(['a', 'b__gt', 'c__in', 'name']), gen_scalar(rng, allow_list=True)))
    conn = rng.choice([Q.AND, Q.AND, Q.OR, getattr(Q, 'XOR', Q.OR)])
    q = Q(*children, _connector=conn, _negated=rng.random() < 0.3)
    return q


def gen_scalar(rng, allow_list=False):
    r = rng.random()
    if r < 0.35:
        return rng.choice([0, 1, -3, 42, 10 ** 12])
    if r < 0.7:
        return rng.choice(STRS)
    if r < 0.8:
        return rng.choice([True, False])
    if r < 0.9 or not allow_list:
        return None
    return [rng.choice([1, 2, 3]), rng.choice(STRS)]


def gen_expr(rng, depth=0):
    from django.db.models import F, Value
    r = rng.random()
    if r < 0.4 or depth >= 2:
        return F(rng.choice(['a', 'b', 'price']))
    if r < 0.6:
        return Value(rng.choice([1, 'x', True]))
    lhs, rhs = gen_expr(rng, depth + 1), rng.choice([gen_expr(rng, depth + 1), rng.choice([1, 2, 5])])
    op = rng.choice(['+', '-', '*'])
    return lhs + rhs if op == '+' else lhs - rhs if op == '-' else lhs * rhs


def gen_value(rng, depth=0):
    from django.db.models import Deferrable
    r = rng.random()
    if r < 0.25:
        return gen_scalar(rng)
    if r < 0.45:
        return gen_q(rng)
    if r < 0.6:
        return gen_expr(rng)
    if r < 0.65:
        return rng.choice([Deferrable.DEFERRED, Deferrable.IMMEDIATE])
    if depth >= 2:
        return gen_scalar(rng)
    if r < 0.77:
        return [gen_value(rng, depth + 1) for _ in range(rng.randint(0, 3))]
    if r < 0.89:
        return tuple(gen_value(rng, depth + 1) for _ in range(rng.randint(0, 3)))
    d = OrderedDict() if rng.random() < 0.5 else {}
    # keys are strings like any other: quotes, backslashes and letters beyond ASCII occur in them too
    for k in rng.sample(['k', 'fields', 'name', 'opt', 'x', "it's", 'back\\slash', 'q"uote', '\u00fcn\u00ef'], rng.randint(0, 3)):
        d[k] = gen_value(rng, depth + 1)
    return d


def gen_q_ops(rng, depth=0):
    """a Q built the way model authors build them: keyword atoms combined with & | ~ (and ^)"""
    from django.db.models import Q
    def atom():
        return Q(**{rng.choice(['a', 'b__gt', 'c__in', 'name', 'price__lte']): gen_scalar(rng, allow_list=True)})
    q = atom() if depth >= 2 or rng.random() < 0.5 else gen_q_ops(rng, depth + 1)
    for _ in range(rng.randint(0, 3)):
        other = atom() if depth >= 2 or rng.random() < 0.6 else gen_q_ops(rng, depth + 1)
        r = rng.random()
        if r < 0.45:
            q = q & other
        elif r < 0.9:
            q = q | other
        else:
            q = q ^ other
        if rng.random() < 0.2:
            q = ~q
    return q


Double = None


def project_expression():
    """a deconstructible expression class that lives outside django.db.models (module level, so that
    Django's deconstruct() accepts it)"""
    global Double
    if Double is None:
        from django.db.models import Func

        class Double(Func):
            function = 'DOUBLE'
        Double.__module__ = __name__
        Double.__qualname__ = 'Double'
        globals()['Double'] = Double
    return Double


def gen_expr_wide(rng, depth=0):
    """expressions beyond + - *: other connectors, database functions, project-defined classes"""
    from django.db.models import F, Value
    from django.db.models.functions import Lower, Upper
    r = rng.random()
    if r < 0.08:
        return project_expression()(F(rng.choice(['a', 'b'])))
    if r < 0.35:
        return gen_expr(rng, depth)
    if r < 0.5:
        return Lower(rng.choice(['name', 'title'])) if rng.random() < 0.6 else Upper(F('name'))
    # operands may themselves be wide expressions: same-operator chains in both directions
    # (`(a ** b) ** c`, `a ** (b ** c)`, `(a % b) % c`, `a - (b - c)` …) are part of the space
    def operand():
        if depth < 2 and rng.random() < 0.45:
            return gen_expr_wide(rng, depth + 1)
        return gen_expr(rng, depth + 1)
    lhs = operand()
    rhs = operand() if rng.random() < 0.4 else rng.choice([1, 2, 3, 5])
    k = rng.choice(['/', '%', '**', '**', '-', 'bitand', 'bitor', 'bitxor', 'lshift'])
    if k == '/':
        return lhs / rhs
    if k == '%':
        return lhs % rhs
    if k == '**':
        return lhs ** rhs
    if k == '-':
        return lhs - rhs
    if k == 'bitand':
        return lhs.bitand(rhs)
    if k == 'bitor':
        return lhs.bitor(rhs)
    if k == 'bitxor':
        return lhs.bitxor(rhs)
    return lhs.bitleftshift(rhs)


def contains(absv, pred):
    if pred(absv):
        return True
    t = absv['t']
    if t in ('list', 'tuple'):
        return any(contains(x, pred) for x in absv['v'])
    if t == 'dict':
        return any(contains(x, pred) for _, x in absv['v'])
    if t == 'q':
        return any(contains(x, pred) for x in absv['children'])
    if t == 'obj':
        return any(contains(x, pred) for x in absv['args']) or any(contains(x, pred) for _, x in absv['kwargs'])
    return False


def has_object(absv):
    return contains(absv, lambda a: a['t'] in ('q', 'obj', 'enum'))


def has_loose_tuple(absv, structural=False):
    """a tuple that is not a Q child (those are re-tupled on load)"""
    t = absv['t']
    if t == 'tuple' and not structural:
        return True
    if t in ('list', 'tuple'):
        return any(has_loose_tuple(x) for x in absv['v'])
    if t == 'dict':
        return any(has_loose_tuple(x) for _, x in absv['v'])
    if t == 'q':
        return any(has_loose_tuple(x, structural=True) for x in absv['children'])
    if t == 'obj':
        return any(has_loose_tuple(x) for x in absv['args']) or any(has_loose_tuple(x) for _, x in absv['kwargs'])
    return False
