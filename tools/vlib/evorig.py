"""In-process Evolver rig.

Synthetic installed apps (`vapp`, `wapp`, `xapp`: real packages written to the scratch
directory, each with `models.py` and an `evolutions` package) whose model classes and
evolution modules are (re)defined per case; the real `Evolver` / `evolve` management command
run against throw-away SQLite files; observation through Django's `execute_wrapper`, the
package's public signals and plain introspection.  No hook in /repo is involved.
"""
import contextlib
import os
import sys
import types
import warnings

from . import dbrig, dj, sigs

APPS = ['vapp', 'wapp', 'xapp']
_ready = False


ROUTER_SRC = """
# which database a model lives on, per case: {(app_label, model_name_lower): alias}; models that
# are not listed get no opinion (Django's default: allowed everywhere)
ALLOW = {}
# what db_for_read / db_for_write answer for every model without a route (None: no opinion; an alias: the
# catch-all `return 'default'` that ends the primary/replica router of the Django documentation)
CATCH_ALL = [None]
# app label -> alias: the answer to allow_migrate(db, app_label) without a model name
APP_LEVEL = {}
# False: a router that only says where models are MIGRATED (allow_migrate) and has no opinion of its own on reads
# and writes (db_for_read / db_for_write answer the catch-all, or nothing)
RW_OPINION = [True]


class Router(object):
    def allow_migrate(self, db, app_label, model_name=None, **hints):
        # compared as given: Django passes the lower-cased `_meta.model_name` (documented contract)
        key = (app_label, model_name or '')
        if key in ALLOW:
            return db == ALLOW[key]
        if model_name is None and app_label in APP_LEVEL:
            # the model-less question (asked for RunPython / RunSQL operations): a definite per-app answer
            return db == APP_LEVEL[app_label]
        return None

    allow_syncdb = allow_migrate

    def db_for_read(self, model, **hints):
        if not RW_OPINION[0]:
            return CATCH_ALL[0]
        return ALLOW.get((model._meta.app_label, model._meta.model_name), CATCH_ALL[0])

    db_for_write = db_for_read

    def allow_relation(self, obj1, obj2, **hints):
        # as in the documented primary/replica router: with a catch-all, relations between its databases are fine
        return True if CATCH_ALL[0] is not None else None
"""


def set_routes(mapping, catch_all=None, app_level=None, rw_opinion=True):
    import vrouter
    vrouter.RW_OPINION[0] = bool(rw_opinion)
    vrouter.ALLOW.clear()
    vrouter.ALLOW.update(mapping)
    vrouter.CATCH_ALL[0] = catch_all
    vrouter.APP_LEVEL.clear()
    vrouter.APP_LEVEL.update(app_level or {})


# an app that has been on Django migrations from its first release: a `migrations` package on disk and no
# `evolutions` package (only installed in processes that ask for it, see tools/vlib/c17_worker.py)
EXTRA = []
MAPP_MIGRATIONS = {
    '0001_initial': '''
from django.db import migrations, models


class Migration(migrations.Migration):
    initial = True
    dependencies = []
    operations = [
        migrations.CreateModel(
            name='Book',
            fields=[
                ('id', models.AutoField(auto_created=True, primary_key=True, serialize=False, verbose_name='ID')),
                ('title', models.CharField(max_length=50, null=True)),
            ],
            options={'db_table': 'mapp_book'},
        ),
    ]
''',
    '0002_book_pages': '''
from django.db import migrations, models


class Migration(migrations.Migration):
    dependencies = [('mapp', '0001_initial')]
    operations = [
        migrations.AddField(model_name='book', name='pages', field=models.IntegerField(null=True)),
    ]
''',
}
MAPP_SPEC = {'id': 'mapp', 'models': [{'name': 'Book', 'table': 'mapp_book', 'unique_together': [],
                                        'index_together': [], 'indexes': [], 'constraints': [], 'fields': [
    {'name': 'id', 'type': 'AutoField', 'attrs': {'primary_key': True}, 'related': None},
    {'name': 'title', 'type': 'CharField', 'attrs': {'max_length': 50, 'null': True}, 'related': None},
    {'name': 'pages', 'type': 'IntegerField', 'attrs': {'null': True}, 'related': None}]}]}


# an app whose label is not its package name (AppConfig.label): package `lpkg`, label `lapp`
PKG_OF = {}
INSTALLED_AS = {}


def pkg_of(label):
    return PKG_OF.get(label, label)


def setup(routers=(), migration_app=False, custom_label_app=False):
    global _ready
    if _ready:
        return
    d = dj.scratch_dir()
    if custom_label_app:
        pkg = os.path.join(d, 'lpkg')
        os.makedirs(os.path.join(pkg, 'evolutions'), exist_ok=True)
        for fn in ('__init__.py', 'models.py'):
            open(os.path.join(pkg, fn), 'w').close()
        with open(os.path.join(pkg, 'apps.py'), 'w') as f:
            f.write("from django.apps import AppConfig\n\n\nclass LConfig(AppConfig):\n    name = 'lpkg'\n"
                    "    label = 'lapp'\n")
        with open(os.path.join(pkg, 'evolutions', '__init__.py'), 'w') as f:
            f.write('SEQUENCE = []\n')
        EXTRA.append('lapp')
        PKG_OF['lapp'] = 'lpkg'
        INSTALLED_AS['lapp'] = 'lpkg.apps.LConfig'
    if migration_app:
        pkg = os.path.join(d, 'mapp')
        os.makedirs(os.path.join(pkg, 'migrations'), exist_ok=True)
        for fn in ('__init__.py', 'models.py', os.path.join('migrations', '__init__.py')):
            open(os.path.join(pkg, fn), 'w').close()
        for name, src in MAPP_MIGRATIONS.items():
            with open(os.path.join(pkg, 'migrations', name + '.py'), 'w') as f:
                f.write(src)
        EXTRA.append('mapp')
    for label in APPS:
        pkg = os.path.join(d, label)
        os.makedirs(os.path.join(pkg, 'evolutions'), exist_ok=True)
        open(os.path.join(pkg, '__init__.py'), 'w').close()
        open(os.path.join(pkg, 'models.py'), 'w').close()
        with open(os.path.join(pkg, 'evolutions', '__init__.py'), 'w') as f:
            f.write('SEQUENCE = []\n')
    with open(os.path.join(d, 'vrouter.py'), 'w') as f:
        f.write(ROUTER_SRC)
    sys.path.insert(0, d)
    dj.setup(extra_apps=[INSTALLED_AS.get(a, a) for a in APPS + EXTRA], routers=['vrouter.Router'] + list(routers))
    _ready = True


# ---------------------------------------------------------------------------
# models and evolutions of the synthetic apps
# ---------------------------------------------------------------------------

def install_models(spec):
    """(Re)define the model classes of the synthetic apps from a spec (global app registry)."""
    from django.apps import apps
    from django.db import models
    for label in APPS + EXTRA:
        apps.all_models[label].clear()
    apps.clear_cache()
    out = {}
    with warnings.catch_warnings():
        warnings.simplefilter('ignore')
        for a in spec['apps']:
            out[a['id']] = []
            for m in a['models']:
                attrs = {'__module__': '%s.models' % pkg_of(a['id'])}
                for f in m['fields']:
                    cls = sigs.ftype_cls(f['type'])
                    kw = dict(f['attrs'])
                    if f['type'] in ('ForeignKey', 'OneToOneField'):
                        attrs[f['name']] = cls(f['related'], on_delete=models.CASCADE, related_name='+', **kw)
                    elif f['type'] in sigs.M2M_TYPES:
                        attrs[f['name']] = cls(f['related'], related_name='+', **kw)
                    else:
                        attrs[f['name']] = cls(**kw)
                meta = {'app_label': a['id'], 'db_table': m['table']}
                if m.get('unique_together'):
                    meta['unique_together'] = [tuple(t) for t in m['unique_together']]
                if m.get('index_together'):
                    meta['index_together'] = [tuple(t) for t in m['index_together']]
                if m.get('indexes'):
                    meta['indexes'] = [dbrig.make_index(d) for d in m['indexes']]
                if m.get('constraints'):
                    meta['constraints'] = [dbrig.make_constraint(d) for d in m['constraints']]
                if m.get('comment'):
                    meta['db_table_comment'] = m['comment']
                if m.get('managed') is False:
                    meta['managed'] = False
                attrs['Meta'] = type('Meta', (), meta)
                out[a['id']].append(type(str(m['name']), (models.Model,), attrs))
    apps.clear_cache()
    return out


def set_evolutions(label, evolutions, app_deps=None):
    """evolutions: list of {'label', 'mutations': [real mutation objects], optional
    'after_evolutions'/'before_evolutions'/'after_migrations'/'before_migrations'} — installed
    as modules `<label>.evolutions.<evolution label>` exactly where the package looks for them."""
    label = pkg_of(label)
    mod = sys.modules.get('%s.evolutions' % label)
    if mod is None:
        import importlib
        mod = importlib.import_module('%s.evolutions' % label)
    for name in list(sys.modules):
        if name.startswith('%s.evolutions.' % label):
            sub = name.rsplit('.', 1)[1]
            if hasattr(mod, sub):
                delattr(mod, sub)
            del sys.modules[name]
    mod.SEQUENCE = [e['label'] for e in evolutions]
    # evolutions shipped as SQL files (`<label>.sql`, `<database>_<label>.sql`) next to the package
    edir = os.path.dirname(mod.__file__)
    for fn in os.listdir(edir):
        if fn.endswith('.sql'):
            os.unlink(os.path.join(edir, fn))
    for k in ('AFTER_EVOLUTIONS', 'BEFORE_EVOLUTIONS', 'AFTER_MIGRATIONS', 'BEFORE_MIGRATIONS'):
        if hasattr(mod, k):
            delattr(mod, k)
        if app_deps and app_deps.get(k.lower()):
            setattr(mod, k, list(app_deps[k.lower()]))
    for e in evolutions:
        if e.get('sql_files') is not None:
            # {'' or database alias: [lines]}: no Python module for this label
            for alias, lines in e['sql_files'].items():
                fn = ('%s_%s.sql' % (alias, e['label'])) if alias else ('%s.sql' % e['label'])
                with open(os.path.join(edir, fn), 'w') as f:
                    f.write(''.join(line + '\n' for line in lines))
            if 'mutations' not in e:
                continue
        m = types.ModuleType('%s.evolutions.%s' % (label, e['label']))
        m.MUTATIONS = list(e['mutations'])
        for k in ('after_evolutions', 'before_evolutions', 'after_migrations', 'before_migrations'):
            if e.get(k):
                setattr(m, k.upper(), list(e[k]))
        sys.modules[m.__name__] = m
        setattr(mod, e['label'], m)


def clear_evolutions():
    for label in APPS + [a for a in EXTRA if a in PKG_OF]:
        set_evolutions(label, [])


def fresh_databases():
    for alias in ('default', 'other'):
        dbrig.reset_db(alias)


# ---------------------------------------------------------------------------
# observation
# ---------------------------------------------------------------------------

WRITE_PREFIXES = ('INSERT', 'UPDATE', 'DELETE', 'CREATE', 'ALTER', 'DROP', 'REPLACE', 'PRAGMA WRITABLE', 'VACUUM')


def is_write(sql):
    s = sql.lstrip().upper()
    return s.startswith(WRITE_PREFIXES)


class Trace(object):
    """statement + signal trace of one run; optional fault at the k-th write statement"""

    def __init__(self, alias='default', fail_at=None, fail_filter=None, fail_first=None, fail_release_at=None):
        self.alias = alias
        self.fail_release_at = fail_release_at      # the k-th RELEASE SAVEPOINT fails (a transaction cannot be finished)
        self.releases = 0
        self.fail_first = fail_first       # predicate on the statement: the first matching write fails
        self.events = []
        self.fail_at = fail_at
        self.fail_filter = fail_filter or (lambda sql: True)
        self.writes = 0
        self.failed_sql = None

    def _wrapper(self, execute, sql, params, many, context):
        w = is_write(sql)
        if w:
            idx = self.writes
            self.writes += 1
            if self.fail_first is not None and self.failed_sql is None and self.fail_first(sql):
                from django.db.utils import OperationalError
                self.failed_sql = sql
                self.events.append(('fault', sql))
                raise OperationalError('injected fault at write #%d' % idx)
            if self.fail_at is not None and idx == self.fail_at and self.fail_filter(sql):
                from django.db.utils import OperationalError
                self.failed_sql = sql
                self.events.append(('fault', sql))
                raise OperationalError('injected fault at write #%d' % idx)
        if not w and sql.lstrip().upper().startswith('RELEASE SAVEPOINT'):
            idx = self.releases
            self.releases += 1
            if self.fail_release_at is not None and idx == self.fail_release_at:
                from django.db.utils import OperationalError
                self.failed_sql = sql
                self.events.append(('fault', sql))
                raise OperationalError('injected fault at RELEASE SAVEPOINT #%d' % idx)
        self.events.append(('sql' if w else 'read', sql, params))
        return execute(sql, params, many, context)

    def _on(self, name):
        def handler(sender, **kw):
            info = {}
            if 'task' in kw and hasattr(kw['task'], 'app_label'):
                info['app'] = kw['task'].app_label
            if 'evolutions' in kw:
                info['evolutions'] = [e.label for e in kw['evolutions']]
                info['evolution_apps'] = [getattr(e, 'app_label', None) for e in kw['evolutions']]
            if 'app_label' in kw:
                info['app'] = kw['app_label']
            if 'model_names' in kw:
                info['models'] = list(kw['model_names'])
            if 'migration' in kw:
                info['migration'] = (kw['migration'].app_label, kw['migration'].name)
            self.events.append(('signal', name, info))
        return handler

    @contextlib.contextmanager
    def recording(self):
        from django.db import connections
        from django_evolution import signals as S
        handlers = []
        for name in ('evolving', 'evolved', 'evolving_failed', 'applying_evolution', 'applied_evolution',
                     'applying_migration', 'applied_migration', 'creating_models', 'created_models'):
            sig = getattr(S, name)
            h = self._on(name)
            sig.connect(h, weak=False)
            handlers.append((sig, h))
        try:
            with connections[self.alias].execute_wrapper(self._wrapper):
                yield self
        finally:
            for sig, h in handlers:
                sig.disconnect(h)

    def write_statements(self):
        return [e[1] for e in self.events if e[0] == 'sql']

    def signals(self):
        return [(e[1], e[2]) for e in self.events if e[0] == 'signal']


def bookkeeping(alias='default'):
    """(recorded evolutions, number of versions, stored signature of the current version)"""
    from django.db import connections
    from django_evolution.models import Evolution, Version
    conn = connections[alias]
    tables = conn.introspection.table_names()
    if 'django_evolution' not in tables:
        return {'evolutions': [], 'versions': 0, 'sig': None}
    evs = sorted(Evolution.objects.using(alias).values_list('app_label', 'label', 'version_id'))
    nver = Version.objects.using(alias).count()
    try:
        sig = Version.objects.current_version(using=alias).signature
    except Version.DoesNotExist:
        sig = None
    return {'evolutions': [list(e) for e in evs], 'versions': nver, 'sig': sig}


def _hygiene():
    """process-global state a crashed earlier run may have left behind (only matters because
    the rig runs many cases in one process)"""
    try:
        from django_evolution.utils.migrations import clear_global_custom_migrations
        clear_global_custom_migrations()
    except Exception:
        pass


def run_evolver(alias='default', trace=None, hinted=False, purge=False):
    """One `Evolver` run over all installed apps.  Returns ('ok', evolver) or ('error', exc)."""
    from django_evolution.evolve import Evolver
    _hygiene()
    tr = trace or Trace(alias)
    with tr.recording():
        try:
            ev = Evolver(database_name=alias, hinted=hinted)
            tr.evolver = ev
            ev.queue_evolve_all_apps()
            if purge:
                ev.queue_purge_old_apps()
            ev.evolve()
        except Exception as e:
            return ('error', e, tr)
    return ('ok', ev, tr)


def run_command(alias='default', trace=None, **opts):
    """`evolve` management command in-process; returns ('ok', stdout) or ('error', exc, stdout)"""
    import io
    from django.core.management import call_command
    _hygiene()
    tr = trace or Trace(alias)
    out, err = io.StringIO(), io.StringIO()
    with tr.recording():
        try:
            call_command('evolve', database=alias, stdout=out, stderr=err, verbosity=opts.pop('verbosity', 1),
                         **opts)
        except BaseException as e:
            if isinstance(e, KeyboardInterrupt):
                raise
            return ('error', e, out.getvalue() + err.getvalue(), tr)
    return ('ok', None, out.getvalue() + err.getvalue(), tr)


def content_types(alias='default'):
    """rows that post_migrate receivers (django.contrib.contenttypes) write for the project's models: data outside
    the apps' own tables that an upgrade run can leave behind"""
    conn = dbrig.raw_connection(alias)
    try:
        cur = conn.cursor()
        cur.execute("SELECT name FROM sqlite_master WHERE type='table' AND name='django_content_type'")
        if not cur.fetchall():
            return []
        cur.execute('SELECT app_label, model FROM django_content_type ORDER BY 1, 2')
        return [list(r) for r in cur.fetchall()]
    finally:
        conn.close()


def snapshot(alias='default'):
    """everything a failed or rejected run must leave untouched"""
    bk = bookkeeping(alias)
    return {'schema': dbrig.abs_schema(alias), 'rows': dbrig.abs_rows(alias), 'content_types': content_types(alias),
            'evolutions': bk['evolutions'], 'versions': bk['versions'],
            'sig': None if bk['sig'] is None else sigs.abs_sig(bk['sig'])}
