"""Django bootstrap for the in-process rig.

The harness imports /repo's working tree (the venv installs it in develop mode, and we put
/repo first on sys.path anyway), configures throw-away SQLite databases under a scratch
directory outside /repo and /verif, and removes the directory on exit.
"""
import atexit
import os
import shutil
import sys
import tempfile

REPO = os.environ.get('VERIF_REPO', '/repo')
_scratch = None


def scratch_dir():
    global _scratch
    if _scratch is None:
        _scratch = tempfile.mkdtemp(prefix='devo-verif-')
        atexit.register(shutil.rmtree, _scratch, True)
    return _scratch


def setup(extra_apps=(), routers=()):
    """Configure Django once per process."""
    if REPO not in sys.path:
        sys.path.insert(0, REPO)
    import django
    from django.conf import settings
    if settings.configured:
        return
    d = scratch_dir()
    settings.configure(
        DEBUG=False,
        SECRET_KEY='verif',
        USE_TZ=True,
        DEFAULT_AUTO_FIELD='django.db.models.AutoField',
        DATABASES={
            'default': {'ENGINE': 'django.db.backends.sqlite3',
                        'NAME': os.path.join(d, 'default.db')},
            'other': {'ENGINE': 'django.db.backends.sqlite3',
                      'NAME': os.path.join(d, 'other.db')},
        },
        DATABASE_ROUTERS=list(routers),
        INSTALLED_APPS=['django.contrib.contenttypes',
                        'django_evolution'] + list(extra_apps),
    )
    from django_evolution.compat.patches import apply_patches
    apply_patches()
    django.setup()
    import logging
    logging.disable(logging.CRITICAL)   # the package logs full tracebacks for every rejected evolution
