#!/usr/bin/env python3
"""writes seeded/<dir>/meta.json from the table below + the confirmation results (confirm.json)"""
import json, os
V = os.path.dirname(os.path.dirname(os.path.abspath(__file__)))
CONFIRM_CMD = ('tools/confirm_seed.sh <scratch worktree> <demo>: demo with the patch (expect exit 1), pinned suite '
               '`/venv/bin/python -m pytest -q -p no:cacheprovider --timeout=900` with the patch, demo without the patch (expect exit 0)')
TRY_CMD = 'tools/try_seed.sh seeded/<dir>/patch.diff <PROPERTY>  (git -C /repo apply; ./check <PROPERTY> quick; git -C /repo checkout -- .)'
T = {
 'C01-fk-references-stale-pk-column': dict(property='C01',
   breaks='REFERENCES clause of rebuilt tables takes the referenced column from ModelSignature.pk_column, which no mutation updates',
   needs='a primary key whose column name changed earlier (RenameField / ChangeField db_column on the pk), then any SQLite rebuild of a table with a ForeignKey/OneToOne to that model; either step alone is harmless',
   detected_by='C01: broken proof C01_fk_reference_is_pk_column (translator reads the REFERENCES expression), broken correspondence rebuilt_foreign_keys, and the evolved-vs-fresh oracle on the deterministic family "pk rename then rebuild of the referring table" (VIOLATION with replay)',
   strengthened='first run missed it: added RenamePK to the generator, the deterministic pk family, the FK-target model (Sql.freshFks/rebuiltFks, C01_fk_targets) and its two correspondences. The added cases exposed the genuine defect F46 (REFERENCES used pk.name), repaired in /repo (2ca32e0); the sub-agent\'s patch was rebased onto that commit (pk.column -> _meta.pk_column) and re-confirmed'),
 'C02-field-name-vs-column-coalesce': dict(property='C02',
   breaks='the rebuild decides "existing column vs new column" by comparing a column name with field names',
   needs='a rebuild of a table holding a field whose db_column differs from its name, combined with an initial value for that column',
   detected_by='C02: row-preservation oracle (VIOLATION with replay) and rows_after correspondence', strengthened='none needed'),
 'C03-roll-up-stale-change': dict(property='C03', breaks='the optimiser rolls a ChangeField into an earlier mutation using a stale copy of the change',
   needs='a batch with several changes to one field where a later change overrides an earlier one', detected_by='C03: optimiser correspondence and batched-vs-stepwise signature oracle (VIOLATION with replay)', strengthened='none needed'),
 'C05-indexes-elif-index-together': dict(property='C05', breaks='the model diff reports Meta.indexes changes only when index_together did not change (if -> elif)',
   needs='a model pair in which index_together and Meta.indexes both differ', detected_by='C05: residual-diff oracle after simulating the hint (VIOLATION with replay) and diff correspondence', strengthened='none needed'),
 'C06-q-negated-elif': dict(property='C06', breaks='negation of a stored Q object is lost for one branch of the Q deserialiser',
   needs='a stored constraint/index condition with a negated Q of a particular shape', detected_by='C06: stored-and-reloaded equality oracle (VIOLATION with replay) and sig_roundtrip correspondence', strengthened='none needed'),
 'C07-create-models-finally-commit': dict(property='C07', breaks='_create_models calls sql_executor.finish_transaction() in a finally clause, i.e. also while the creation error propagates: the CREATE TABLEs executed so far are committed',
   needs='an upgrade that creates new models with at least two statements (two models or a ManyToManyField), a database error at the second or later of them, no enclosing atomic block',
   detected_by='C07: broken proof C07_no_transaction_end_inside_tasks (skeleton of _create_models regenerated from the source) and the fault-enumeration oracle (VIOLATION with replay: tables persist after the failed run)',
   strengthened='first run missed it: the oracle attributed every "only whole new tables persist" outcome to known finding F39; F39\'s predicate now requires that model creation had completed (created_models sent) before the failing statement; cases with three CREATE TABLEs in one model creation added; new skeleton theorem'),
 'C08-unapplied-labels-any-app': dict(property='C08', breaks='get_unapplied_evolutions subtracts labels recorded for ANY app',
   needs='two apps sharing an evolution label, one of them (already tracked) gaining the label in a later run than the run in which the other recorded it; normal SEQUENCE discovery',
   detected_by='C08: oracle "after a completed run every label of every evolved app is recorded exactly once" on the scripted shared-label histories (VIOLATION with replay) and the bookkeeping correspondence with the Lean history model',
   strengthened='first run missed it: added four scripted shared-label histories that run before the generated ones, the exactly-once-after-completed-run oracle, and more histories per run (22 -> 60)'),
 'C09-processed-by-leaf-zero': dict(property='C09', breaks='graph ordering mishandles a leaf bookkeeping case', needs='a dependency graph of a particular shape',
   detected_by='C09: exec_order/graph_order correspondence and the order oracle (VIOLATION with replay)', strengthened='none needed'),
 'C11-rename-model-self-reference': dict(property='C11', breaks='RenameModel rewrites related_model references before swapping in the renamed clone, so the clone (taken earlier) keeps references to the old name',
   needs='RenameModel on a model with a relation to itself (FK/O2O/M2M to self)', detected_by='C11: dangling-reference oracle (VIOLATION with replay) and simulate correspondence', strengthened='none needed'),
 'C12-diff-evolutions-swapped': dict(property='C12', breaks='Evolver.diff_evolutions() builds Diff(target, simulated) instead of Diff(simulated, target); Diff only walks the first argument\'s models',
   needs='an upgrade that removes a model while the evolution lacks the DeleteModel but has another effective mutation',
   detected_by='C12: gate oracle on the deterministic one-directional-residual family (VIOLATION with replay: executed although the simulated signature differs from the models)',
   strengthened='first run missed it (DeleteModel drops were rare in the generated perturbations): added the deterministic family of eight one-directional residuals (dropped / extra DeleteModel, DeleteField, AddField, ChangeField next to an effective mutation)'),
 'C17-evolving-failed-narrowed': dict(property='C17', breaks='Evolver.evolve() catches EvolutionException instead of Exception before sending evolving_failed',
   needs='a failure that is not wrapped in an EvolutionException: inside a migrations batch, record_applied_migrations, or a pre/post_migrate receiver',
   detected_by='C17: broken proof C17_lifecycle (skeleton of Evolver.evolve) and the fault-enumeration oracle (VIOLATION with replay: evolving followed by neither evolved nor evolving_failed; evolve lock not released)', strengthened='none needed'),
 'C18-ignored-m2m-attr-all-or-nothing': dict(property='C18', breaks='attributes without a database representation (null on a ManyToManyField) are skipped only when ALL changed attributes are of that kind',
   needs='SQLite; a ChangeField(null=...) and a ChangeField(db_table=...) on the same ManyToManyField in one batch (the optimiser merges them), no other rebuild of that table next to them',
   detected_by='C18: rebuild-count oracle batched <= one-at-a-time on the relation-field space (VIOLATION with replay)',
   strengthened='first run missed it (the sequence space had no ManyToManyField): added the relation-field space (M2M with explicit db_table, FK) — exhaustive length <= 2, sampled length 3'),
 'C04-changed-models-lookup-old-sig': dict(property='C04',
   breaks='get_app_pending_mutations looks the old models up in the OLD signature when computing the deleted models, so models that disappeared never count as changed and every mutation on them (DeleteModel) is filtered out',
   needs='evolutions discovered the normal way (SEQUENCE modules) and a history with a DeleteModel step that an upgrade crosses; fresh installs are unaffected',
   detected_by='C04: path-convergence oracle on the scripted history V0 -AddField- V1 -DeleteModel- V2 -ChangeField- V3 and generated histories with DeleteModel (VIOLATION with replay: upgraded database keeps the table, stored signature differs from the models)',
   strengthened='first run missed it (generated histories had no DeleteModel): DeleteModel added to the history generator and a scripted history in which a model disappears mid-history runs first'),
 'C10-evolution-required-only-with-sql': dict(property='C10',
   breaks='EvolveAppTask.prepare sets evolution_required only when the pending mutations produce SQL; MoveToDjangoMigrations produces none',
   needs='the hand-over evolution is the only pending work of the app in that run (database already at the last evolution, or k = 0)',
   detected_by='C10: recorder/signature oracle on the exhaustive (k, m, mark_applied prefix, start state) table (VIOLATION with replay: stored upgrade_method stays "evolutions", migrations not recorded)', strengthened='none needed'),
 'C13-q-negation-overwritten': dict(property='C13',
   breaks='QSerialization.serialize_to_python builds the text as a string and the multi-child branch assigns instead of appending: the leading ~ of a negated multi-child Q is lost',
   needs='a negated Q with two or more children anywhere in a constraint/index condition',
   detected_by='C13: parse_tree / evaluation correspondences with the Lean model (toPy puts ~ in front of the parenthesised chain) and the eval round-trip oracle (VIOLATION with replay)',
   strengthened='none needed; the sub-agent\'s patch was rebased by hand onto the repaired QSerialization (fix: 221644f changed the same function) and re-confirmed'),
 'C15-m2m-drop-replaced-not-added': dict(property='C15',
   breaks='DeleteModel.mutate replaces the accumulated SQL on every many-to-many field instead of adding to it: only the last M2M table (and the model table) is dropped',
   needs='a deleted model / purged app model with at least two ManyToManyFields with auto-created tables',
   detected_by='C15: exact-drop oracle (VIOLATION with replay: dropped tables are a strict subset of the owned tables)',
   strengthened='first run missed it (no generated model had two M2M fields): stale-app models, the second installed app and a DeleteModel candidate `Hub` now carry two or three ManyToManyFields'),
 'C16-unapplied-evolutions-default-db': dict(property='C16',
   breaks='get_unapplied_evolutions delegates to get_applied_evolutions without forwarding the database: pending evolutions of a non-default database are computed from the default database\'s records',
   needs='two databases; the default one evolved (and the label recorded there) before the other one',
   detected_by='C16: per-database oracle after evolving each database in turn (VIOLATION with replay: after evolving `other` its models are not at the evolved signature)', strengthened='none needed'),
 'C14-state-clone-shares-unique-indexes': dict(property='C14',
   breaks='DatabaseState.clone() copies each table\'s index dict but shares the unique-index dict with the original: the SQL generation for the preview (on the clone) leaks its unique-index bookkeeping into the generation for the execution',
   needs='a pending evolution that adds or removes a unique_together entry, run through the Evolver (preview and execution are two generations)',
   detected_by='C14: previewed vs executed statements within one process, hand-written and hinted path (VIOLATION with replay: DROP INDEX / CREATE UNIQUE INDEX previewed but never executed)', strengthened='none needed'),
}
for d, meta in T.items():
    p = os.path.join(V, 'seeded', d)
    if not os.path.isdir(p):
        continue
    c = os.path.join(p, 'confirm.json')
    conf = json.load(open(c)) if os.path.exists(c) else None
    meta = dict(meta, directory='seeded/' + d, origin='fresh sub-agent given only the property text and a scratch worktree',
                files=sorted(os.listdir(p)), confirmed_by_me={'how': CONFIRM_CMD, 'result': conf}, checked_with=TRY_CMD)
    json.dump(meta, open(os.path.join(p, 'meta.json'), 'w'), indent=1)
    print(d, 'ok' if conf else 'NO CONFIRMATION')
