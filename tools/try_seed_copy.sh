#!/bin/bash
# usage: [VCOPY=/tmp/vcopy] tools/try_seed_copy.sh <worktree with the seeded change applied> <PROP> [<PROP>...]
# like try_seed_wt.sh, but runs the checks from a scratch copy of /verif (refreshed with rsync on every call),
# so that neither /repo nor this checkout (generated Lean sources, evidence) is touched — safe while
# other checks are running here
set -u
wt="$1"; shift
[ -d "$wt/django_evolution" ] || { echo "no django_evolution in $wt"; exit 2; }
copy=${VCOPY:-/tmp/vcopy}
mkdir -p "$copy"
rsync -a --delete --exclude replays --exclude .git --exclude seeded /verif/ "$copy/"
for p in "$@"; do
  echo "=== $p against $wt (from $copy)"
  (cd "$copy" && VERIF_REPO="$wt" timeout 900 ./check $p ${TIER:-quick} 2>&1 | grep -E "VIOLATION|KNOWN-FINDING|what:|broken|seed=|INFRA|TIMEOUT" | cut -c1-260 | head -14)
done
