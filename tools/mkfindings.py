#!/usr/bin/env python3
"""rewrites the findings table of DESIGN.md (between the FINDINGS-TABLE markers) from known_findings.json"""
import json, os, re
V = os.path.dirname(os.path.dirname(os.path.abspath(__file__)))
k = json.load(open(os.path.join(V, 'known_findings.json')))
rows = []
for f in k['findings']:
    w = f['what']
    if w.startswith('fixed:'):
        w = w.split(' ', 3)[3]
    rows.append((int(f['id'][1:]), f['property'], f['id'], f['status'], f.get('commit', ''), w))
rows.sort()
out = ['| # | Property | Disposition | What fails |', '|---|---|---|---|']
for _, prop, fid, st, commit, w in rows:
    w = w.replace('|', '/').replace('\n', ' ')
    if len(w) > 330:
        w = w[:327] + '…'
    out.append('| %s | %s | %s | %s |' % (fid, prop, ('**fixed** `%s`' % commit) if st == 'fixed' else 'known', w))
p = os.path.join(V, 'DESIGN.md')
s = open(p).read()
s = re.sub(r'<!-- FINDINGS-TABLE-BEGIN -->.*?<!-- FINDINGS-TABLE-END -->',
           '<!-- FINDINGS-TABLE-BEGIN -->\n' + '\n'.join(out) + '\n<!-- FINDINGS-TABLE-END -->', s, flags=re.S)
open(p, 'w').write(s)
print(len(rows), 'findings written')
