"""./check <PROPERTY_ID> [quick|thorough] [--replay FILE]

Pipeline of every check (DESIGN.md §0): regenerate DEvo/Generated from /repo's source ->
lake build (proofs) -> axiom/sorry audit -> correspondence (model vs real code) -> variant
probes / witnesses on the real code -> failing-input search -> verdict + evidence.
Exit 0: property held on everything explored (known findings are printed as KNOWN-FINDING).
Exit 1: a `VIOLATION property=<id> replay=<path>` line was printed.
Exit 2: infrastructure error or timeout (never a verdict).
"""
import importlib
import json
import os
import sys
import traceback

sys.path.insert(0, os.path.dirname(os.path.abspath(__file__)))

from vlib import core  # noqa


def main(argv):
    if not argv:
        print(__doc__)
        return 2
    prop = argv[0].upper()
    tier = os.environ.get('VERIF_TIER', 'quick')
    replay = None
    rest = argv[1:]
    while rest:
        a = rest.pop(0)
        if a in ('quick', 'thorough'):
            tier = a
        elif a == '--replay':
            replay = rest.pop(0)
    seed = int(os.environ.get('VERIF_SEED', '0'))
    mod = importlib.import_module('vlib.props.%s' % prop.lower())
    ctx = core.Ctx(prop, tier, seed)
    if replay:
        obj = json.load(open(replay))
        return mod.replay(ctx, obj)
    lean = core.LeanSide(ctx)
    module = 'DEvo.Props.%s' % prop
    checker_cmd = ('cd lean/DEvo && lake build %s devo-driver && lake env lean <#print axioms of every theorem in %s>'
                   % (module, module))
    try:
        try:
            ctx.variant.update(lean.extract() or {})
        except Exception as e:
            if type(e).__name__ != 'ExtractError':
                raise
            # the source left the subset the translator understands: the model can no longer be
            # regenerated from it, so no theorem is shown to hold of the current code; the oracle
            # below still searches the real code for a failing input
            ctx.brk('translator', 'tools/vlib/extract.py', str(e)[:300])
            ctx.variant['translator_failed'] = str(e)[:200]
        ok = lean.build([module, 'devo-driver'])
        if not ok:
            failing = lean.failing_modules()
            ctx.brk('proof', 'lake build: ' + ', '.join(failing), ' | '.join(lean.first_errors()))
            # the driver may still be buildable on its own (model files do not depend on Props)
            ctx.lean_ok = lean.build(['devo-driver'])
            names, _ = lean.theorem_names(module)
            ctx.obligations = len(names)
        else:
            ctx.lean_ok = True
            lean.audit(module)
            if tier == 'thorough':
                lean.leanchecker(module)
        drv = core.Driver()
        ctx.driver = drv if (ctx.lean_ok and drv.available()) else None
        if ctx.driver is None:
            ctx.brk('correspondence', 'driver', 'the Lean model driver could not be built')
        mod.run(ctx)
    except core.Timeout:
        print('TIMEOUT property=%s' % prop)
        return 2
    except Exception:
        traceback.print_exc()
        print('INFRASTRUCTURE-ERROR property=%s (not a verdict)' % prop)
        return 2
    for name, c in ctx.corr.items():
        if c['mismatches'] and not c.get('explained'):
            ctx.brk('correspondence', name, json.dumps(c['first_mismatch'], default=str)[:60000])
    violations, known_reported = core.verdict(ctx)
    core.write_evidence(ctx, violations, known_reported, checker_cmd)
    print('%s %s seed=%d: theorems %d/%d, cases %d (%d distinct non-trivial), violations %d, known %s, %.1fs'
          % (prop, tier, seed, ctx.discharged, ctx.obligations, ctx.evaluations, len(ctx.nontrivial),
             violations, known_reported, __import__('time').time() - ctx.t0))
    return 1 if violations else 0


if __name__ == '__main__':
    sys.exit(main(sys.argv[1:]))
