#!/bin/bash
# confirm_seed.sh <worktree> <demo.py> : confirm a seeded change in its scratch worktree:
#   demo exits non-zero with the patch, zero without it, and the pinned suite passes with it.
# Prints one JSON object with what was run and observed.
set -u
wt="$1"; demo="$2"
cd "$wt" || exit 2
git diff -- django_evolution > /tmp/confirm_patch.$$ ; [ -s /tmp/confirm_patch.$$ ] || { git apply patch.diff || exit 2; git diff -- django_evolution > /tmp/confirm_patch.$$; }
/venv/bin/python "$demo" > /tmp/confirm_with.$$ 2>&1; with=$?
suite=$(/venv/bin/python -m pytest -q -p no:cacheprovider --timeout=900 2>&1 | tail -1)
git checkout -- django_evolution
/venv/bin/python "$demo" > /tmp/confirm_without.$$ 2>&1; without=$?
git apply /tmp/confirm_patch.$$
python3 - "$with" "$without" "$suite" <<PY
import json,sys
print(json.dumps({"demo_exit_with_patch":int(sys.argv[1]),"demo_exit_without_patch":int(sys.argv[2]),"suite_with_patch":sys.argv[3]}))
PY
rm -f /tmp/confirm_*.$$
