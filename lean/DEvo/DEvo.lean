import DEvo.Graph.Basic
import DEvo.Graph.Topo
import DEvo.Graph.Ordered
import DEvo.Graph.Batches
import DEvo.Props.C09
import DEvo.Sig.Basic
import DEvo.Mut.Basic
import DEvo.Mut.Env
