import Lean.Data.Json
import DEvo.Graph.Ordered
import DEvo.Graph.Batches
import Codec
import DEvo.Opt.Optimize

/-! Line protocol driver: one JSON object per input line, one JSON object per output line.
Only model modules (no Mathlib/Batteries) are imported, so this links as a `lean_exe`. -/

open Lean DEvo DEvo.Sig DEvo.Mut

def jNatList (j : Json) : Except String (List Nat) := do
  let a ← j.getArr?
  a.toList.mapM (fun x => x.getNat?)

def jNatListList (j : Json) : Except String (List (List Nat)) := do
  let a ← j.getArr?
  a.toList.mapM jNatList

def natsJ (l : List Nat) : Json := Json.arr (l.map (fun n => toJson n)).toArray

def kindOf : String → Except String Graph.Kind
  | "anchor" => .ok .anchor | "create" => .ok .create
  | "evolution" => .ok .evolution | "migration" => .ok .migration
  | s => .error s!"bad kind {s}"

def handle (j : Json) : Except String Json := do
  let op ← j.getObjValAs? String "op"
  match op with
  | "graph_order" =>
    let n ← j.getObjValAs? Nat "n"
    let adj ← jNatListList (← j.getObjVal? "adj")
    let g : Graph.G := ⟨n, adj⟩
    pure (Json.mkObj [("leaves", natsJ g.leaves), ("order", natsJ (Graph.getOrdered g))])
  | "exec_order" =>
    let us ← (← j.getObjVal? "units").getArr?
    let units ← us.toList.mapM (fun u => do
      let id ← u.getObjValAs? Nat "id"
      let k ← kindOf (← u.getObjValAs? String "kind")
      let t ← u.getObjValAs? Nat "task"
      pure (⟨id, k, t⟩ : Graph.Unit'))
    pure (Json.mkObj [("exec", natsJ ((Graph.execOrder units).map (·.id)))])
  | "simulate" =>
    let sig ← Codec.sigOf (← j.getObjVal? "sig")
    let ctx ← Codec.ctxOf (← j.getObjVal? "ctx")
    let ms ← (← (← j.getObjVal? "mutations").getArr?).toList.mapM Codec.mutOf
    let fl := Codec.flagsOf j
    -- one at a time, reporting the index of the first rejected mutation
    let rec go (i : Nat) (c : Ctx) (p : ProjectSig) : List Mutation → Json
      | [] => Json.mkObj [("ok", Codec.sigJ p), ("app", c.appLabel)]
      | m :: rest => match simulate sqliteEnv fl c m p with
        | .ok (p', c') => go (i + 1) c' p' rest
        | .error e => Json.mkObj [("err", e.name), ("at", toJson i)]
    pure (go 0 ctx sig ms)
  | "diff" =>
    let old ← Codec.sigOf (← j.getObjVal? "old")
    let new ← Codec.sigOf (← j.getObjVal? "new")
    let d := diffProject sqliteEnv old new
    let hint := hintProject sqliteEnv new d
    -- simulate the hint on the old signature, app by app, and diff again
    let res : Except String ProjectSig := hint.foldlM (fun p (lm : String × List Mutation) =>
      match simulateAll sqliteEnv (Codec.flagsOf j) ⟨lm.1, lm.1, true⟩ lm.2 p with
      | .ok (p', _) => .ok p'
      | .error e => .error e.name) old
    let after := match res with
      | .ok p' => Json.mkObj [("residual", Codec.projDiffJ (diffProject sqliteEnv p' new)),
                               ("residual_rev", Codec.projDiffJ (diffProject sqliteEnv new p')),
                               ("eq", toJson (p'.apps.length == new.apps.length &&
                                  p'.apps.all (fun a => match new.getApp a.id with
                                    | some b => a.models.length == b.models.length &&
                                        a.models.all (fun m => match b.getModel m.name with
                                          | some n => eqModel m n | none => false)
                                    | none => false)))]
      | .error e => Json.mkObj [("sim_error", e)]
    pure (Json.mkObj [("diff", Codec.projDiffJ d),
      ("hint", Json.arr (hint.map (fun p => Json.arr #[Json.str p.1, Json.arr (p.2.map Codec.mutJ).toArray])).toArray),
      ("after", after)])
  | "optimize" =>
    let existing ← Codec.strList (← j.getObjVal? "existing")
    let ms ← (← (← j.getObjVal? "mutations").getArr?).toList.mapM Codec.mutOf
    let mj := fun (l : List Mutation) => Json.arr (l.map Codec.mutJ).toArray
    match Opt.preprocess existing ms with
    | .ok (out, arr) =>
      -- second pass over the rewritten objects (EvolveAppTask.prepare, then _build_batches)
      let second := match Opt.preprocess existing arr with
        | .ok (out2, arr2) => Json.mkObj [("out", mj out2), ("arr", mj arr2)]
        | .error (.keyError w) => Json.mkObj [("err", "KeyError"), ("where", w)]
        | .error (.valueError w) => Json.mkObj [("err", "ValueError"), ("where", w)]
      pure (Json.mkObj [("out", mj out), ("arr", mj arr), ("second", second)])
    | .error (.keyError w) => pure (Json.mkObj [("err", "KeyError"), ("where", w)])
    | .error (.valueError w) => pure (Json.mkObj [("err", "ValueError"), ("where", w)])
  | _ => .error s!"unknown op {op}"

partial def loop (hin : IO.FS.Stream) (hout : IO.FS.Stream) : IO Unit := do
  let line ← hin.getLine
  if line.isEmpty then return ()
  let out := match Json.parse line with
    | .error e => Json.mkObj [("driver_error", Json.str s!"parse: {e}")]
    | .ok j => match handle j with
      | .ok r => r
      | .error e => Json.mkObj [("driver_error", Json.str e)]
  hout.putStrLn out.compress
  hout.flush
  loop hin hout

def main : IO Unit := do
  loop (← IO.getStdin) (← IO.getStdout)
