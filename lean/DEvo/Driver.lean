import Lean.Data.Json
import DEvo.Graph.Ordered
import DEvo.Graph.Batches
import Codec
import DEvo.Opt.Optimize
import DEvo.Sql.Merge
import DEvo.Sql.Rebuild
import DEvo.Sql.Schema
import DEvo.Ser.PyRoundTrip
import DEvo.Ser.FieldAttrs
import DEvo.Run.Tx
import DEvo.Run.History
import DEvo.Run.Migrations
import DEvo.Run.Load
import DEvo.Run.Batches
import DEvo.Run.Merge
import DEvo.Sql.DbState

/-! Line protocol driver: one JSON object per input line, one JSON object per output line.
Only model modules (no Mathlib/Batteries) are imported, so this links as a `lean_exe`. -/

open Lean DEvo DEvo.Sig DEvo.Mut

def jNatList (j : Json) : Except String (List Nat) := do
  let a ← j.getArr?
  a.toList.mapM (fun x => x.getNat?)

def jNatListList (j : Json) : Except String (List (List Nat)) := do
  let a ← j.getArr?
  a.toList.mapM jNatList

def natsJ (l : List Nat) : Json := Json.arr (l.map (fun n => toJson n)).toArray

def kindOf : String → Except String Graph.Kind
  | "anchor" => .ok .anchor | "create" => .ok .create
  | "evolution" => .ok .evolution | "migration" => .ok .migration
  | s => .error s!"bad kind {s}"

def handle (j : Json) : Except String Json := do
  let op ← j.getObjValAs? String "op"
  match op with
  | "graph_order" =>
    let n ← j.getObjValAs? Nat "n"
    let adj ← jNatListList (← j.getObjVal? "adj")
    let g : Graph.G := ⟨n, adj⟩
    pure (Json.mkObj [("leaves", natsJ g.leaves), ("order", natsJ (Graph.getOrdered g))])
  | "exec_order" =>
    let us ← (← j.getObjVal? "units").getArr?
    let units ← us.toList.mapM (fun u => do
      let id ← u.getObjValAs? Nat "id"
      let k ← kindOf (← u.getObjValAs? String "kind")
      let t ← u.getObjValAs? Nat "task"
      pure (⟨id, k, t⟩ : Graph.Unit'))
    pure (Json.mkObj [("exec", natsJ ((Graph.execOrder units).map (·.id)))])
  | "simulate" =>
    let sig ← Codec.sigOf (← j.getObjVal? "sig")
    let ctx ← Codec.ctxOf (← j.getObjVal? "ctx")
    let ms ← (← (← j.getObjVal? "mutations").getArr?).toList.mapM Codec.mutOf
    let fl := Codec.flagsOf j
    -- one at a time, reporting the index of the first rejected mutation
    let rec go (i : Nat) (c : Ctx) (p : ProjectSig) : List Mutation → Json
      | [] => Json.mkObj [("ok", Codec.sigJ p), ("app", c.appLabel)]
      | m :: rest => match simulate sqliteEnv fl c m p with
        | .ok (p', c') => go (i + 1) c' p' rest
        | .error e => Json.mkObj [("err", e.name), ("at", toJson i)]
    pure (go 0 ctx sig ms)
  | "diff" =>
    let old ← Codec.sigOf (← j.getObjVal? "old")
    let new ← Codec.sigOf (← j.getObjVal? "new")
    let d := diffProject sqliteEnv old new
    let hint := hintProject sqliteEnv new d
    -- simulate the hint on the old signature, app by app, and diff again
    let res : Except String ProjectSig := hint.foldlM (fun p (lm : String × List Mutation) =>
      match simulateAll sqliteEnv (Codec.flagsOf j) ⟨lm.1, lm.1, true⟩ lm.2 p with
      | .ok (p', _) => .ok p'
      | .error e => .error e.name) old
    let after := match res with
      | .ok p' => Json.mkObj [("residual", Codec.projDiffJ (diffProject sqliteEnv p' new)),
                               ("residual_rev", Codec.projDiffJ (diffProject sqliteEnv new p')),
                               ("eq", toJson (p'.apps.length == new.apps.length &&
                                  p'.apps.all (fun a => match new.getApp a.id with
                                    | some b => a.models.length == b.models.length &&
                                        a.models.all (fun m => match b.getModel m.name with
                                          | some n => eqModel m n | none => false)
                                    | none => false)))]
      | .error e => Json.mkObj [("sim_error", e)]
    pure (Json.mkObj [("diff", Codec.projDiffJ d),
      ("hint", Json.arr (hint.map (fun p => Json.arr #[Json.str p.1, Json.arr (p.2.map Codec.mutJ).toArray])).toArray),
      ("after", after)])
  | "optimize" =>
    let existing ← Codec.strList (← j.getObjVal? "existing")
    let ms ← (← (← j.getObjVal? "mutations").getArr?).toList.mapM Codec.mutOf
    let mj := fun (l : List Mutation) => Json.arr (l.map Codec.mutJ).toArray
    let copies := (j.getObjValAs? Bool "copies").toOption.getD false
    match Opt.preprocessC copies existing ms with
    | .ok (out, arr) =>
      -- second pass over the caller's objects (EvolveAppTask.prepare, then _build_batches)
      let second := match Opt.preprocessC copies existing arr with
        | .ok (out2, arr2) => Json.mkObj [("out", mj out2), ("arr", mj arr2)]
        | .error (.keyError w) => Json.mkObj [("err", "KeyError"), ("where", w)]
        | .error (.valueError w) => Json.mkObj [("err", "ValueError"), ("where", w)]
      pure (Json.mkObj [("out", mj out), ("arr", mj arr), ("second", second)])
    | .error (.keyError w) => pure (Json.mkObj [("err", "KeyError"), ("where", w)])
    | .error (.valueError w) => pure (Json.mkObj [("err", "ValueError"), ("where", w)])
  | "sig_roundtrip" =>
    let v ← Codec.vOf (← j.getObjVal? "value")
    let strict ← j.getObjValAs? Bool "strict"
    let stored := Ser.json (Ser.toSig v)
    let back := Ser.fromSig strict stored
    pure (Json.mkObj [("stored", Codec.svJ stored), ("back", Codec.vJ back),
      ("wf", toJson (Ser.WF v)), ("norm", Codec.vJ (Ser.norm v)),
      ("restored", Codec.svJ (Ser.json (Ser.toSig back)))])
  | "py_roundtrip" =>
    -- serialize_to_python -> Python's parse -> evaluation, for one value
    let v ← Codec.vOf (← j.getObjVal? "value")
    let pairs := fun (key : String) => do
      let tj ← (← j.getObjVal? key).getArr?
      tj.toList.mapM (fun p => do
        let q ← p.getArr?
        match q.toList with
        | [a, b] => do pure ((← a.getStr?, ← b.getStr?) : String × String)
        | _ => throw "bad table entry")
    let table : Ser.PyCfg := {
      seps := ← pairs "separators", singleChildFull := ← j.getObjValAs? Bool "single_child_full",
      combOps := ← pairs "comb_operators", combMethods := ← pairs "comb_methods",
      combParens := ← j.getObjValAs? Bool "comb_parens",
      keepSubmodules := ← j.getObjValAs? Bool "keep_submodules" }
    let perr := fun (e : Ser.PErr) => match e with
      | .keyError k => Json.mkObj [("err", "KeyError"), ("what", k)]
      | .typeError w => Json.mkObj [("err", "TypeError"), ("what", w)]
    let eerr := fun (e : Ser.EErr) => match e with
      | .syntaxError => "SyntaxError" | .nameError _ => "NameError" | .attributeError _ => "AttributeError"
      | .notImplemented _ => "NotImplementedError" | .typeError _ => "TypeError"
    let good := toJson (Ser.Good v)
    match Ser.toPy table v with
    | .error e => pure (Json.mkObj [("render", perr e), ("good", good)])
    | .ok p0 =>
      let p := (Ser.cutComment p0).1
      let ok := Ser.syntaxOk p
      let tree := Ser.reparse p
      let res := if !ok then Json.mkObj [("err", "SyntaxError")]
        else match Ser.evalPy table.keepSubmodules tree with
          | .error e => Json.mkObj [("err", eerr e)]
          | .ok v' => Json.mkObj [("value", Codec.vJ v')]
      pure (Json.mkObj [("good", good), ("render", Json.mkObj [("tree", Codec.pyJ p)]), ("syntax_ok", toJson ok),
        ("parsed", Codec.pyJ tree), ("result", res)])
  | "variant" =>
    pure (Json.mkObj [("commit_on_failure", toJson Run.commitOnFailure),
      ("mergeable_ok", toJson (Sql.mergeableOK Generated.mergeableOps))])
  | "migrations" =>
    let m ← j.getObjValAs? Nat "m"
    let s ← j.getObjValAs? Nat "s"
    let recorded ← jNatList (← j.getObjVal? "recorded")
    let fresh ← j.getObjValAs? Bool "fresh"
    -- a new app whose sequence ends in MoveToDjangoMigrations is created through its migrations:
    -- nothing is "already covered" on an empty database
    let st : Run.MigState := ⟨m, recorded⟩
    let s' := if fresh then 0 else s
    pure (Json.mkObj [("execute", natsJ (Run.toExecute st s')), ("mark", natsJ (Run.extraApplied st s')),
      ("recorded_after", natsJ (Run.runMig st s').recorded)])
  | "history" =>
    -- C08 bookkeeping model: a list of steps from the empty database (one Version row)
    let stepsJ ← (← j.getObjVal? "steps").getArr?
    let appsOf := fun (aj : Json) => do
      let arr ← aj.getArr?
      arr.toList.mapM (fun a => do
        pure (⟨← a.getObjValAs? String "label", ← Codec.strList (← a.getObjVal? "sequence")⟩ : Run.AppCfg))
    let init : Run.HState := ⟨[], ← Codec.strList (← j.getObjVal? "known"), ← j.getObjValAs? Nat "versions"⟩
    let (_, outs) ← stepsJ.toList.foldlM (fun (acc : Run.HState × List Json) sj => do
      let t ← sj.getObjValAs? String "t"
      let st ← match t with
        | "run" => do pure (Run.Step.run (← appsOf (← sj.getObjVal? "apps")) (← sj.getObjValAs? Bool "completes"))
        | "mark" => do pure (Run.Step.markApplied (← sj.getObjValAs? String "app") (← Codec.strList (← sj.getObjVal? "labels")))
        | _ => do pure (Run.Step.wipe (← sj.getObjValAs? String "app") (← sj.getObjValAs? String "label"))
      let ex := match st with
        | .run apps _ => Run.executed acc.1 apps
        | _ => []
      let s' := Run.stepH acc.1 st
      let o := Json.mkObj [("recorded", Json.arr (s'.recorded.map (fun r => Json.arr #[Json.str r.app, Json.str r.label, toJson r.version])).toArray),
        ("executed", Json.arr (ex.map (fun p => Json.arr #[Json.str p.1, Json.str p.2])).toArray)]
      pure (s', acc.2 ++ [o])) (init, [])
    pure (Json.mkObj [("steps", Json.arr outs.toArray)])
  | "schema" =>
    let sig ← Codec.sigOf (← j.getObjVal? "sig")
    let tj := fun (t : Sql.Table) => Json.mkObj [
      ("columns", Json.arr (t.cols.map (fun c => Json.arr #[Json.str c.name, Json.str c.ctype, toJson c.notnull, toJson c.pk])).toArray),
      ("indexes", Json.arr (t.indexes.map (fun i => Json.arr #[Codec.jStrs i.cols, toJson i.unique])).toArray),
      ("checks", Codec.jStrs t.checks)]
    let ms := sig.apps.flatMap (fun a => a.models)
    let named := sig.apps.flatMap (fun a => a.models.map (fun m => (a.id ++ "." ++ m.name, m)))
    let lookup := fun (n : String) => (named.find? (fun p => p.1 == n)).map (·.2)
    let fj := fun (l : List Sql.Fk) => Json.arr (l.map (fun f => Codec.jStrs [f.col, f.refTable, f.refCol])).toArray
    pure (Json.mkObj [
      ("fresh_fks", Json.mkObj (ms.map (fun m => (m.table, fj (Sql.freshFks sqliteEnv lookup m))))),
      ("rebuilt_fks", Json.mkObj (ms.map (fun m => (m.table,
        fj (Sql.rebuiltFks Generated.fkReferenceAttr sqliteEnv lookup m))))),
      ("fresh", Json.mkObj (ms.map (fun m => (m.table, tj (Sql.fresh sqliteEnv m))))),
      ("rebuilt", Json.mkObj (ms.map (fun m => (m.table, tj (Sql.rebuilt sqliteEnv m))))),
      ("plain", Json.mkObj (ms.map (fun m => (m.table, toJson (Sql.plainModel m)))))])
  | "load" =>
    -- get_app_mutations: what is loaded for a list of labels on one database
    let db ← j.getObjValAs? String "db"
    let labelsJ ← (← j.getObjVal? "labels").getArr?
    let es : List Load.Shipped ← labelsJ.toList.mapM (fun e => do
      let label ← e.getObjValAs? String "label"
      let generic : Option String := (e.getObjValAs? String "generic").toOption
      let perJ ← (← e.getObjVal? "per_db").getArr?
      let perDb : List (String × String) ← perJ.toList.mapM (fun p => do
        let q ← p.getArr?
        match q.toList with
        | [k, v] => do pure (← k.getStr?, ← v.getStr?)
        | _ => throw "bad per_db entry")
      let py ← Codec.strList (← e.getObjVal? "py")
      pure (⟨label, generic, perDb, py⟩ : Load.Shipped))
    let out := Load.loadLoop DEvo.Generated.foundResetPerLabel db false es
    pure (Json.mkObj [("loaded", Json.arr (out.map (fun (l : Load.Loaded) => match l with
      | .sql label c => Json.arr #[Json.str "sql", Json.str label, Json.str c]
      | .py t => Json.arr #[Json.str "py", Json.str t])).toArray)])
  | "batches" =>
    -- SQLExecutor._prepare_sql + _prepare_transaction_batches: the batches and their transaction flags
    let groupsJ ← (← j.getObjVal? "groups").getArr?
    let gs : List Run.Group ← groupsJ.toList.mapM (fun g => do
      let kind ← g.getObjValAs? String "kind"
      let ss ← Codec.strList (← g.getObjVal? "sql")
      match kind with
      | "plain" => pure (Run.Group.plain ss)
      | "no_tx" => pure (Run.Group.noTx ss)
      | "new_tx" => pure (Run.Group.newTx ss)
      | _ => throw "bad group kind")
    let out := Run.cut DEvo.Generated.batchYieldsOwnFlag (Run.prepare gs)
    pure (Json.mkObj [("batches", Json.arr (out.map (fun (bf : List Run.Prep × Option Bool) =>
      Json.mkObj [("sql", Json.arr (bf.1.map (fun q => Json.str q.stmt)).toArray),
                  ("tx", match bf.2 with | none => Json.null | some b => Json.bool b)])).toArray)])
  | "merge_batches" =>
    -- merge_dicts over the batch infos of consecutive graph nodes: [{"tasks": [[task, evolutions, mutations]], "new_models": [..]}]
    let infosJ ← (← j.getObjVal? "infos").getArr?
    let infos : List Run.BatchInfo ← infosJ.toList.mapM (fun b => do
      let tasksJ ← (← b.getObjVal? "tasks").getArr?
      let tasks : List (String × Run.TaskInfo) ← tasksJ.toList.mapM (fun t => do
        let q ← t.getArr?
        match q.toList with
        | [k, ev, mu] => do pure (← k.getStr?, (⟨← Codec.strList ev, ← Codec.strList mu⟩ : Run.TaskInfo))
        | _ => throw "bad task entry")
      let nm ← Codec.strList (← b.getObjVal? "new_models")
      pure (⟨tasks, nm⟩ : Run.BatchInfo))
    match infos with
    | [] => throw "no infos"
    | b0 :: rest =>
      let out := rest.foldl (Run.mergeBatch DEvo.Generated.mergeListsDestFirst) b0
      pure (Json.mkObj [("tasks", Json.arr (out.tasks.map (fun (kv : String × Run.TaskInfo) =>
          Json.arr #[Json.str kv.1, Json.arr (kv.2.evolutions.map Json.str).toArray,
                     Json.arr (kv.2.mutations.map Json.str).toArray])).toArray),
        ("new_models", Json.arr (out.newModels.map Json.str).toArray)])
  | "dbstate" =>
    -- DatabaseState: a sequence of bookkeeping calls; one result per call, then the final contents
    let opsJ ← (← j.getObjVal? "ops").getArr?
    let step (acc : Sql.DbState × List Json) (o : Json) : Except String (Sql.DbState × List Json) := do
      let (st, outs) := acc
      let k ← o.getObjValAs? String "k"
      let t ← o.getObjValAs? String "t"
      let errName (e : Sql.StErr) : String := match e with
        | .untracked => "untracked" | .exists_ => "exists" | .notFound => "not-found"
      let ixJ (ix : Option Sql.Ix) : Json := match ix with
        | none => Json.null
        | some i => Json.arr #[Json.str i.name, Json.arr (i.cols.map Json.str).toArray, Json.bool i.unique]
      match k with
      | "add_table" => pure (Sql.addTable st t, outs ++ [Json.str "ok"])
      | "has_table" => pure (st, outs ++ [Json.bool (Sql.hasTable st t)])
      | "clear" => pure (Sql.clearIndexes st t, outs ++ [Json.str "ok"])
      | "iter" => pure (st, outs ++ [Json.arr ((Sql.iterIndexes st t).map (fun i => ixJ (some i))).toArray])
      | "add_index" =>
        let name ← o.getObjValAs? String "name"
        let cols ← Codec.strList (← o.getObjVal? "cols")
        let u ← o.getObjValAs? Bool "unique"
        match Sql.addIndex st t name cols u with
        | .ok st' => pure (st', outs ++ [Json.str "ok"])
        | .error e => pure (st, outs ++ [Json.str (errName e)])
      | "remove_index" =>
        let name ← o.getObjValAs? String "name"
        let u ← o.getObjValAs? Bool "unique"
        match Sql.removeIndex st t name u with
        | .ok st' => pure (st', outs ++ [Json.str "ok"])
        | .error e => pure (st, outs ++ [Json.str (errName e)])
      | "get_index" =>
        let name ← o.getObjValAs? String "name"
        let u ← o.getObjValAs? Bool "unique"
        pure (st, outs ++ [ixJ (Sql.getIndex st t name u)])
      | "find_index" =>
        let cols ← Codec.strList (← o.getObjVal? "cols")
        let u ← o.getObjValAs? Bool "unique"
        pure (st, outs ++ [ixJ (Sql.findIndex st t cols u)])
      | _ => throw "bad dbstate op"
    let (st, outs) ← opsJ.toList.foldlM step (([] : Sql.DbState), ([] : List Json))
    pure (Json.mkObj [("results", Json.arr outs.toArray),
      ("final", Json.arr (st.map (fun (kv : String × Sql.Tbl) => Json.arr #[Json.str kv.1,
        Json.arr (kv.2.plain.map (fun i => Json.str i.name)).toArray,
        Json.arr (kv.2.uniq.map (fun i => Json.str i.name)).toArray])).toArray)])
  | "load_attrs" =>
    -- FieldSignature.deserialize: which stored attributes come back (values are JSON texts, none = null)
    let known ← Codec.strList (← j.getObjVal? "known")
    let storedJ ← (← j.getObjVal? "stored").getArr?
    let stored : List (String × Option String) ← storedJ.toList.mapM (fun p => do
      let q ← p.getArr?
      match q.toList with
      | [k, Json.null] => do pure (← k.getStr?, none)
      | [k, v] => do pure (← k.getStr?, some (← v.getStr?))
      | _ => throw "bad stored entry")
    let cfg : Ser.AttrLoadCfg := ⟨DEvo.Generated.attrLoadByPresence⟩
    let out := Ser.loadAttrs cfg (fun (v : Option String) => v.isNone) DEvo.Generated.attrAliases known stored
    pure (Json.mkObj [("loaded", Json.arr (out.map (fun (kv : String × Option String) =>
      Json.arr #[Json.str kv.1, match kv.2 with | none => Json.null | some t => Json.str t])).toArray)])
  | "rows_after" =>
    -- sequential rebuilds of one table: ops -> merged groups -> plan -> copy
    let aligned ← j.getObjValAs? Bool "aligned"
    let embedCoalesces := (j.getObjValAs? Bool "embed_coalesces").toOption.getD DEvo.Generated.copyEmbedCoalesces
    let flagPerItem := (j.getObjValAs? Bool "flag_per_item").toOption.getD DEvo.Generated.copyFlagPerItem
    let cfg : Sql.CopyCfg := ⟨aligned, embedCoalesces, flagPerItem⟩
    let cols ← Codec.strList (← j.getObjVal? "cols")
    let rowsJ ← (← j.getObjVal? "rows").getArr?
    let rows : List Sql.Row ← rowsJ.toList.mapM (fun rj => do
      let ps ← rj.getArr?
      ps.toList.mapM (fun p => do
        let q ← p.getArr?
        match q.toList with
        | [k, Json.null] => do pure (← k.getStr?, none)
        | [k, v] => do pure (← k.getStr?, some (← v.getStr?))
        | _ => throw "bad cell"))
    let opsJ ← (← j.getObjVal? "ops").getArr?
    let ops ← opsJ.toList.mapM (fun o => do
      let t ← o.getObjValAs? String "type"
      let d ← Codec.strList (← o.getObjVal? "detail")
      let itsJ ← (← o.getObjVal? "items").getArr?
      let its ← itsJ.toList.mapM (fun ij => do
        let k ← ij.getObjValAs? String "kind"
        let col ← match ij.getObjValAs? String "col" with | .ok c => pure c | .error _ => pure ""
        let ini : Option Sql.Init ← match ij.getObjVal? "init" with
          | .ok Json.null => pure none
          | .ok v => do
            let s ← v.getStr?
            let emb := (ij.getObjValAs? Bool "embed").toOption.getD false
            pure (some (if emb then Sql.Init.embed s else Sql.Init.param s))
          | .error _ => pure none
        pure (match k with
          | "add" => Sql.Item.addColumn col ini
          | "delete" => Sql.Item.deleteColumn col
          | "modify" => Sql.Item.modifyColumn col ini
          | _ => Sql.Item.other))
      pure (Sql.opOf t d, its))
    -- group the ops exactly as generate_table_ops_sql does (groupsAux accumulates in reverse)
    let plain := ops.map (·.1)
    let gs := (Sql.groups Generated.mergeableOps plain).reverse.map List.reverse
    let rec assign (gs : List (List Sql.Op)) (rest : List (Sql.Op × List Sql.Item)) :
        List (List (Sql.Op × List Sql.Item)) :=
      match gs with
      | [] => []
      | g :: gs' => rest.take g.length :: assign gs' (rest.drop g.length)
    let grouped := assign gs ops
    let step := fun (st : List String × List Sql.Row) (g : List (Sql.Op × List Sql.Item)) =>
      if g.any (fun oi => Sql.Op.needsRebuild Generated.rebuildItems oi.1) then
        let items := g.flatMap (·.2)
        let p := Sql.plan cfg st.1 items
        let del := Sql.deletedCols items
        let added := items.filterMap (fun it => match it with
          | .addColumn c _ => if del.contains c then none else some c | _ => none)
        let newCols := st.1.filter (fun c => !del.contains c) ++ added
        let rows' := st.2.map (fun r =>
          let nr := Sql.evalRow p.fieldValues p.params r
          newCols.map (fun c => (c, Sql.rowGet nr c)))
        (newCols, rows')
      else st
    let (cols', rows') := grouped.foldl step (cols, rows)
    pure (Json.mkObj [("cols", Codec.jStrs cols'),
      ("rows", Json.arr (rows'.map (fun r => Json.arr (r.map (fun p =>
        Json.arr #[Json.str p.1, match p.2 with | some v => Json.str v | none => Json.null])).toArray)).toArray),
      ("rebuilds", toJson ((grouped.filter (fun g => g.any (fun oi => Sql.Op.needsRebuild Generated.rebuildItems oi.1))).length))])
  | "rebuilds" =>
    let opsJ ← (← j.getObjVal? "ops").getArr?
    let ops ← opsJ.toList.mapM (fun o => do
      let t ← o.getObjValAs? String "type"
      let d ← Codec.strList (← o.getObjVal? "detail")
      pure (Sql.opOf t d))
    let mergeable ← match j.getObjVal? "mergeable" with
      | .ok v => Codec.strList v
      | .error _ => pure Generated.mergeableOps
    pure (Json.mkObj [("rebuilds", toJson (Sql.rebuilds mergeable Generated.rebuildItems ops)),
      ("groups", toJson ((Sql.groups mergeable ops).length)),
      ("unmerged", toJson ((ops.filter (Sql.Op.needsRebuild Generated.rebuildItems)).length)),
      ("mergeable_ok", toJson (Sql.mergeableOK mergeable)),
      ("mergeable", Codec.jStrs mergeable)])
  | _ => .error s!"unknown op {op}"

partial def loop (hin : IO.FS.Stream) (hout : IO.FS.Stream) : IO Unit := do
  let line ← hin.getLine
  if line.isEmpty then return ()
  let out := match Json.parse line with
    | .error e => Json.mkObj [("driver_error", Json.str s!"parse: {e}")]
    | .ok j => match handle j with
      | .ok r => r
      | .error e => Json.mkObj [("driver_error", Json.str e)]
  hout.putStrLn out.compress
  hout.flush
  loop hin hout

def main : IO Unit := do
  loop (← IO.getStdin) (← IO.getStdout)
