import DEvo.Ser.Sig

/-! Rendering of attribute values as Python source (`serialize_to_python`,
django_evolution/serialization.py), Python's reading of that source, and what evaluating it
builds (Django's `Q` / expression operators, which are modelled, not verified).

* `toPy`    : value → expression tree with the parentheses the code writes (and the errors it raises)
* `reparse` : what Python's grammar makes of the text of such a tree (parentheses dropped,
              unparenthesised operator chains re-associated by precedence)
* `evalPy`  : evaluation of the parsed expression in a namespace that has `models`
-/

namespace DEvo.Ser

inductive Lit where
  | none | bool (b : Bool) | int (i : Int) | str (s : String)
  deriving DecidableEq, Repr

mutual
inductive Py where
  | lit (l : Lit)
  /-- `models.<Enum>.<member>`; `ty` is the full dotted path of the enum class -/
  | enumRef (ty : String) (member : String)
  /-- `<name>(args, **kwargs)`; `path` is the full dotted path of the callee's class (the text
  has `models.<Class>` when the path starts with `django.db.models`, the bare class name otherwise) -/
  | call (path : String) (args : PyL) (kwargs : PyD)
  | list (xs : PyL) | tuple (xs : PyL)
  | dict (kvs : PyD)
  | inv (e : Py)
  | bin (op : String) (l r : Py)
  | paren (e : Py)
  /-- text that is not a Python expression (`<<USER VALUE REQUIRED>>`) -/
  | junk (text : String)
  deriving DecidableEq, Repr
inductive PyL where
  | nil | cons (e : Py) (t : PyL)
  deriving DecidableEq, Repr
inductive PyD where
  | nil | cons (k : String) (e : Py) (t : PyD)
  deriving DecidableEq, Repr
end

inductive PErr where
  | keyError (k : String)      -- `child_separators[connector]`
  | typeError (w : String)     -- `child[0]` on a Q, unexpected child type
  deriving DecidableEq, Repr

def qPath : String := "django.db.models.Q"
def combPath : String := "django.db.models.expressions.CombinedExpression"
def placeholderPath : String := "django_evolution.placeholders.NullFieldInitialCallback"

def connOf (c : Option String) : String := c.getD "AND"
def mkConn (s : String) : Option String := if s == "AND" then none else some s

/-- `QSerialization.child_separators[connector]`, the table is a parameter (extracted from the source) -/
def sepOf (table : List (String × String)) (conn : String) : Option String :=
  (table.find? (fun p => p.1 == conn)).map (·.2)

/-- left-nested operator chain `a op b op c …` (the text has no inner parentheses) -/
def chain (op : String) (acc : Py) : PyL → Py
  | .nil => acc
  | .cons e t => chain op (.bin op acc e) t

def negWrap (neg : Bool) (e : Py) : Py := if neg then .inv e else e

mutual
/-- `serialize_to_python` -/
def toPy (table : List (String × String)) : V → Except PErr Py
  | .null => .ok (.lit .none)
  | .bool b => .ok (.lit (.bool b))
  | .int i => .ok (.lit (.int i))
  | .str s => .ok (.lit (.str s))
  | .list xs => (toPyL table xs).map .list
  | .tuple xs => (toPyL table xs).map .tuple
  | .dict kvs => (toPyD table kvs).map .dict
  | .enum ty name => .ok (.enumRef ty name)
  | .obj ty args kwargs =>
    if ty == combPath then
      match args with
      | .cons l (.cons (.str op) (.cons r .nil)) =>
        match toPy table l, toPy table r with
        | .ok pl, .ok pr => .ok (.bin op pl pr)
        | .error e, _ => .error e
        | _, .error e => .error e
      | _ => .error (.typeError "CombinedExpression")
    else if ty == placeholderPath then .ok (.junk "<<USER VALUE REQUIRED>>")
    else
      match toPyL table args, toPyD table kwargs with
      | .ok a, .ok k => .ok (.call ty a k)
      | .error e, _ => .error e
      | _, .error e => .error e
  | .q conn neg children => toPyQ table conn neg children
  termination_by structural v => v
/-- `QSerialization.serialize_to_python` -/
def toPyQ (table : List (String × String)) (conn : Option String) (neg : Bool) : VL → Except PErr Py
  | .nil => .ok (negWrap neg (Py.call qPath .nil .nil))
  | .cons c .nil =>
    -- `child = value.children[0]; 'models.Q(%s=%s)' % (child[0], serialize_to_python(child[1]))`
    match c with
    | .tuple (.cons (.str k) (.cons v .nil)) =>
      (toPy table v).map (fun pv => negWrap neg (Py.call qPath .nil (.cons k pv .nil)))
    | .list (.cons (.str k) (.cons v .nil)) =>
      (toPy table v).map (fun pv => negWrap neg (Py.call qPath .nil (.cons k pv .nil)))
    | _ => .error (.typeError "'Q' object is not subscriptable")
  | .cons c (.cons c2 rest) =>
    match toPyChild table c, toPyChildren table (.cons c2 rest) with
    | .ok first, .ok others =>
      match sepOf table (connOf conn) with
      | none => .error (.keyError (connOf conn))
      | some sep => .ok (negWrap neg (Py.paren (chain sep first others)))
    | .error e, _ => .error e
    | _, .error e => .error e
  termination_by structural ch => ch
/-- one child of a multi-child Q: `isinstance(child, tuple)` / `isinstance(child, Q)` -/
def toPyChild (table : List (String × String)) : V → Except PErr Py
  | .tuple (.cons (.str k) (.cons v .nil)) =>
    (toPy table v).map (fun pv => Py.call qPath .nil (.cons k pv .nil))
  | .q conn neg children => toPyQ table conn neg children
  | _ => .error (.typeError "Unexpected type in Q()")
  termination_by structural v => v
def toPyChildren (table : List (String × String)) : VL → Except PErr PyL
  | .nil => .ok .nil
  | .cons c t =>
    match toPyChild table c, toPyChildren table t with
    | .ok pc, .ok pt => .ok (.cons pc pt)
    | .error e, _ => .error e
    | _, .error e => .error e
  termination_by structural l => l
def toPyL (table : List (String × String)) : VL → Except PErr PyL
  | .nil => .ok .nil
  | .cons v t =>
    match toPy table v, toPyL table t with
    | .ok pv, .ok pt => .ok (.cons pv pt)
    | .error e, _ => .error e
    | _, .error e => .error e
  termination_by structural l => l
def toPyD (table : List (String × String)) : VD → Except PErr PyD
  | .nil => .ok .nil
  | .cons k v t =>
    match toPy table v, toPyD table t with
    | .ok pv, .ok pt => .ok (.cons k pv pt)
    | .error e, _ => .error e
    | _, .error e => .error e
  termination_by structural d => d
end

/-! ## Python's reading of the text -/

/-- binding strength of Python's binary operators (all of these associate to the left) -/
def prec (op : String) : Nat :=
  if op == "*" || op == "/" || op == "%" || op == "//" || op == "@" then 6
  else if op == "+" || op == "-" then 5
  else if op == "<<" || op == ">>" then 4
  else if op == " & " || op == "&" then 3
  else if op == " ^ " || op == "^" then 2
  else if op == " | " || op == "|" then 1
  else 0

/-- operators that are not Python operators at all (`%%`, `#`): the text does not parse -/
def isPyOp (op : String) : Bool := prec op != 0

inductive Tok where
  | operand (e : Py) | op (o : String)
  deriving DecidableEq, Repr

/-- reduce while the operator on top of the stack binds at least as tightly as `o` -/
def popWhile (o : String) : List String → List Py → List Py × List String
  | t :: ops, r :: l :: os =>
    if prec t ≥ prec o then popWhile o ops (.bin t l r :: os) else (r :: l :: os, t :: ops)
  | ops, os => (os, ops)

def reduceAll : List String → List Py → Option Py
  | [], [e] => some e
  | t :: ops, r :: l :: os => reduceAll ops (.bin t l r :: os)
  | _, _ => none

/-- shunting-yard over a flat operand/operator sequence -/
def shunt : List Tok → List Py → List String → Option Py
  | [], os, ops => reduceAll ops os
  | .operand e :: ts, os, ops => shunt ts (e :: os) ops
  | .op o :: ts, os, ops =>
    shunt ts (popWhile o ops os).1 (o :: (popWhile o ops os).2)

mutual
/-- the flat token sequence of an unparenthesised operator chain; operands are re-read recursively
(the printer writes `~` only in front of a call or a parenthesis) -/
def infixOf : Py → List Tok
  | .bin op l r => infixOf l ++ [.op op] ++ infixOf r
  | .paren e => [.operand (reparseTop e)]
  | .inv e => [.operand (.inv (reparseTop e))]
  | .call p args kw => [.operand (.call p (reparseL args) (reparseD kw))]
  | .list xs => [.operand (.list (reparseL xs))]
  | .tuple xs => [.operand (.tuple (reparseL xs))]
  | .dict kvs => [.operand (.dict (reparseD kvs))]
  | .lit l => [.operand (.lit l)]
  | .enumRef t m => [.operand (.enumRef t m)]
  | .junk t => [.operand (.junk t)]
/-- Python's parse of the text of `e` (`junk` when the text is not an expression) -/
def reparseTop : Py → Py
  | .bin op l r =>
    match shunt (infixOf l ++ [.op op] ++ infixOf r) [] [] with
    | some t => t
    | none => .junk "unparsable"
  | .paren e => reparseTop e
  | .inv e => .inv (reparseTop e)
  | .call p args kw => .call p (reparseL args) (reparseD kw)
  | .list xs => .list (reparseL xs)
  | .tuple xs => .tuple (reparseL xs)
  | .dict kvs => .dict (reparseD kvs)
  | .lit l => .lit l
  | .enumRef t m => .enumRef t m
  | .junk t => .junk t
def reparseL : PyL → PyL
  | .nil => .nil | .cons e t => .cons (reparseTop e) (reparseL t)
def reparseD : PyD → PyD
  | .nil => .nil | .cons k e t => .cons k (reparseTop e) (reparseD t)
end

def reparse (e : Py) : Py := reparseTop e

mutual
/-- does the text use something that is not a Python operator? -/
def syntaxOk : Py → Bool
  | .bin op l r => isPyOp op && syntaxOk l && syntaxOk r
  | .paren e => syntaxOk e | .inv e => syntaxOk e
  | .call _ args kw => syntaxOkL args && syntaxOkD kw
  | .list xs => syntaxOkL xs | .tuple xs => syntaxOkL xs | .dict kvs => syntaxOkD kvs
  | .junk _ => false
  | _ => true
def syntaxOkL : PyL → Bool
  | .nil => true | .cons e t => syntaxOk e && syntaxOkL t
def syntaxOkD : PyD → Bool
  | .nil => true | .cons _ e t => syntaxOk e && syntaxOkD t
end

/-! ## evaluation (Django's operators) -/

inductive EErr where
  | syntaxError | nameError (n : String) | attributeError (n : String) | notImplemented (op : String)
  | typeError (w : String)
  deriving DecidableEq, Repr

def isPrefixC : List Char → List Char → Bool
  | [], _ => true
  | _ :: _, [] => false
  | a :: p, b :: s => a == b && isPrefixC p s

def dropC : Nat → List Char → List Char
  | 0, s => s
  | _ + 1, [] => []
  | n + 1, _ :: s => dropC n s

/-- `models.<Class>` exists: the class is exported by `django.db.models` itself, i.e. its
deconstruct path is `django.db.models.<Class>` -/
def exported (path : String) : Bool :=
  let p := "django.db.models.".toList
  isPrefixC p path.toList && !(dropC p.length path.toList).contains '.'

def underModels (path : String) : Bool := isPrefixC "django.db.models".toList path.toList

def vlAppend : VL → VL → VL
  | .nil, b => b
  | .cons v t, b => .cons v (vlAppend t b)

def vlLen : VL → Nat
  | .nil => 0 | .cons _ t => vlLen t + 1

/-- `Node.add(data, conn_type)` on a node whose connector already is `conn_type` -/
def qAdd (conn : String) (children : VL) (data : V) : VL :=
  match data with
  | .q c neg ch =>
    if !neg && (connOf c == conn || vlLen ch == 1) then vlAppend children ch
    else vlAppend children (.cons data .nil)
  | _ => vlAppend children (.cons data .nil)

/-- `Q._combine(other, conn)` -/
def qCombine (conn : String) (a b : V) : Except EErr V :=
  match a, b with
  | .q _ _ cha, .q _ _ chb =>
    match cha, chb with
    | .nil, _ => .ok b
    | _, .nil => .ok a
    | _, _ => .ok (.q (mkConn conn) false (qAdd conn (qAdd conn .nil a) b))
  | _, _ => .error (.typeError "Q combined with a non-Q")

def isExpr : V → Bool
  | .obj _ _ _ => true
  | _ => false

/-- Python operator → Django connector for `Combinable` (only the arithmetic ones are operators) -/
def combConn (op : String) : Option String :=
  if op == "+" || op == "-" || op == "*" || op == "/" then some op
  else if op == "%" then some "%%"
  else none

/-- `Combinable.__and__/__or__/__xor__` exist and raise NotImplementedError; `<<`, `>>` do not exist -/
def combRaises (op : String) : Bool := op == "&" || op == "|" || op == "^"

def litV : Lit → V
  | .none => .null | .bool b => .bool b | .int i => .int i | .str s => .str s

def kvChildren : VD → VL
  | .nil => .nil
  | .cons k v t => .cons (.tuple (.cons (.str k) (.cons v .nil))) (kvChildren t)

mutual
def evalPy : Py → Except EErr V
  | .lit l => .ok (litV l)
  | .enumRef ty m => if underModels ty then .ok (.enum ty m) else .error (.nameError ty)
  | .junk _ => .error .syntaxError
  | .paren e => evalPy e
  | .list xs => do pure (.list (← evalPyL xs))
  | .tuple xs => do pure (.tuple (← evalPyL xs))
  | .dict kvs => do pure (.dict (← evalPyD kvs))
  | .inv e => do
    match ← evalPy e with
    | .q c n ch => pure (.q c (!n) ch)
    | _ => throw (.typeError "bad operand type for unary ~")
  | .call path args kw => do
    let a ← evalPyL args
    let k ← evalPyD kw
    if path == qPath then
      -- `Q(*args, **kwargs)`: children = args + sorted kwargs (the printer emits at most one kwarg)
      pure (.q none false (vlAppend a (kvChildren k)))
    else if !underModels path then throw (.nameError path)
    else if !exported path then throw (.attributeError path)
    else pure (.obj path a k)
  | .bin op l r => do
    let a ← evalPy l
    let b ← evalPy r
    match a, b with
    | .q .., .q .. =>
      if op == " & " || op == "&" then qCombine "AND" a b
      else if op == " | " || op == "|" then qCombine "OR" a b
      else if op == " ^ " || op == "^" then qCombine "XOR" a b
      else throw (.typeError "unsupported operand for Q")
    | _, _ =>
      if isExpr a && isExpr b then
        match combConn op with
        | some c => pure (.obj combPath (.cons a (.cons (.str c) (.cons b .nil))) .nil)
        | none => if combRaises op then throw (.notImplemented op) else throw (.typeError op)
      else throw (.typeError "unsupported operand")
  termination_by structural e => e
def evalPyL : PyL → Except EErr VL
  | .nil => .ok .nil
  | .cons e t => do pure (.cons (← evalPy e) (← evalPyL t))
  termination_by structural l => l
def evalPyD : PyD → Except EErr VD
  | .nil => .ok .nil
  | .cons k e t => do pure (.cons k (← evalPy e) (← evalPyD t))
  termination_by structural d => d
end

/-- `#` starts a comment: at the top level of the text everything from the first `#` on is dropped
(inside brackets it also swallows the closing bracket, which `syntaxOk` rejects) -/
def cutComment : Py → Py × Bool
  | .bin op l r =>
    let (l', c) := cutComment l
    if c then (l', true)
    else if op == "#" then (l', true)
    else
      let (r', c') := cutComment r
      (.bin op l' r', c')
  | e => (e, false)

inductive RT where
  | renderError (e : PErr)
  | loadError (e : EErr)
  | value (v : V)
  deriving DecidableEq, Repr

/-- render, let Python parse the text, evaluate -/
def roundTrip (table : List (String × String)) (v : V) : RT :=
  match toPy table v with
  | .error e => .renderError e
  | .ok p0 =>
    let p := (cutComment p0).1
    if !syntaxOk p then .loadError .syntaxError
    else match evalPy (reparse p) with
      | .error e => .loadError e
      | .ok v' => .value v'

end DEvo.Ser
