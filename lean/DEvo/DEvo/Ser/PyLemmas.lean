import DEvo.Ser.Py

/-! Lemmas about the Python-text model (`DEvo/Ser/Py.lean`) used by the C13 round-trip theorem:
the parser on single-operator chains, evaluation of such chains with Django's `Q` operators, and
the shape of what the printer emits. -/

namespace DEvo.Ser

/-- the printer configuration of the current source, as a literal -/
def cur : PyCfg :=
  { seps := [("OR", " | "), ("AND", " & "), ("XOR", " ^ ")],
    singleChildFull := true,
    combOps := [("%%", "%"), ("^", "**")],
    combMethods := [("&", "bitand"), ("|", "bitor"), ("<<", "bitleftshift"), (">>", "bitrightshift"), ("#", "bitxor")],
    combParens := true,
    keepSubmodules := true }

def isBin : Py → Bool
  | .bin _ _ _ => true
  | _ => false

/-- a non-`bin` expression is a single operand for the parser -/
theorem infixOf_nonbin (p : Py) (h : isBin p = false) : infixOf p = [.operand (reparseTop p)] := by
  cases p <;> simp [isBin] at h <;> simp [infixOf, reparseTop]

theorem cutComment_nonbin (p : Py) (h : isBin p = false) : cutComment p = (p, false) := by
  cases p <;> simp [isBin] at h <;> simp [cutComment]

/-! ## the parser on a chain with one operator -/

def pylToList : PyL → List Py
  | .nil => []
  | .cons e t => e :: pylToList t

/-- tokens `op e₁ op e₂ …` -/
def opTokens (o : String) (es : List Py) : List Tok := es.flatMap (fun e => [.op o, .operand e])

theorem chain_eq_foldl (o : String) : ∀ (es : PyL) (acc : Py),
    chain o acc es = (pylToList es).foldl (fun a e => .bin o a e) acc
  | .nil, _ => rfl
  | .cons e t, acc => by simp [chain, pylToList, chain_eq_foldl o t]

theorem foldl_isBin (o : String) (es : List Py) (a : Py) (h : isBin a = true) :
    isBin (es.foldl (fun a e => Py.bin o a e) a) = true := by
  induction es generalizing a with
  | nil => simpa
  | cons e t ih => exact ih _ rfl

/-- all elements are non-`bin` -/
def allNonBin : List Py → Bool
  | [] => true
  | e :: t => !isBin e && allNonBin t

theorem infixOf_foldl (o : String) (acc : Py) (es : List Py) (h : allNonBin es = true) :
    infixOf (es.foldl (fun a e => .bin o a e) acc) = infixOf acc ++ opTokens o (es.map reparseTop) := by
  induction es generalizing acc with
  | nil => simp [opTokens]
  | cons e t ih =>
    simp only [allNonBin, Bool.and_eq_true, Bool.not_eq_true'] at h
    simp only [List.foldl_cons]
    rw [ih _ h.2]
    simp [infixOf, infixOf_nonbin e h.1, opTokens, List.flatMap_cons, List.append_assoc]

theorem popWhile_nil (o : String) (os : List Py) : popWhile o [] os = (os, []) := by
  cases os with
  | nil => simp [popWhile]
  | cons a t => cases t <;> simp [popWhile]

theorem popWhile_same (o : String) (x acc : Py) (h : pops o o = true) :
    popWhile o [o] [x, acc] = ([.bin o acc x], []) := by
  simp [popWhile, h]

/-- shunting-yard with one pending operator of the same kind: left-nested result -/
theorem shunt_same (o : String) (es : List Py) (x acc : Py) (h : es ≠ [] → pops o o = true) :
    shunt (opTokens o es) [x, acc] [o] = some (es.foldl (fun a e => .bin o a e) (.bin o acc x)) := by
  induction es generalizing x acc with
  | nil => simp [opTokens, shunt, reduceAll]
  | cons e t ih =>
    have hp : pops o o = true := h (by simp)
    have : opTokens o (e :: t) = .op o :: .operand e :: opTokens o t := by
      simp [opTokens, List.flatMap_cons]
    rw [this]
    simp only [shunt, popWhile_same o x acc hp]
    exact ih e (.bin o acc x) (fun _ => hp)

theorem shunt_chain (o : String) (a0 e1 : Py) (es : List Py) (h : es ≠ [] → pops o o = true) :
    shunt (.operand a0 :: opTokens o (e1 :: es)) [] [] =
      some ((e1 :: es).foldl (fun a e => .bin o a e) a0) := by
  have : opTokens o (e1 :: es) = .op o :: .operand e1 :: opTokens o es := by
    simp [opTokens, List.flatMap_cons]
  rw [this]
  simp only [shunt, popWhile_nil]
  rw [shunt_same o es e1 a0 h]
  simp

/-- Python reads `a₀ o e₁ o e₂ …` (all operands atomic, one operator) as the left-nested tree of the
re-read operands -/
theorem reparse_chain (o : String) (a0 e1 : Py) (es : List Py)
    (h0 : isBin a0 = false) (h : allNonBin (e1 :: es) = true) (hp : es ≠ [] → pops o o = true) :
    reparseTop ((e1 :: es).foldl (fun a e => .bin o a e) a0) =
      ((e1 :: es).map reparseTop).foldl (fun a e => .bin o a e) (reparseTop a0) := by
  -- the whole chain is a `.bin` whose flattening is the token list
  have hflat := infixOf_foldl o a0 (e1 :: es) h
  rw [infixOf_nonbin a0 h0] at hflat
  -- expose the outermost `.bin`
  have hb : isBin ((e1 :: es).foldl (fun a e => Py.bin o a e) a0) = true := by
    simp only [List.foldl_cons]
    exact foldl_isBin o es _ rfl
  cases hX : (e1 :: es).foldl (fun a e => Py.bin o a e) a0 with
  | bin op l r =>
    have hi : infixOf (.bin op l r) = infixOf l ++ [.op op] ++ infixOf r := by simp [infixOf]
    rw [hX] at hflat
    simp only [reparseTop]
    rw [← hi, hflat]
    have := shunt_chain o (reparseTop a0) (reparseTop e1) (es.map reparseTop) (by simpa using hp)
    simp only [List.map_cons, List.singleton_append] at this ⊢
    rw [this]
  | _ => rw [hX] at hb; simp [isBin] at hb

end DEvo.Ser

namespace DEvo.Ser

/-! ## Django's `Q` operators on the evaluated operands -/

def isQ : V → Bool
  | .q _ _ _ => true
  | _ => false

def qChildren : V → VL
  | .q _ _ ch => ch
  | _ => .nil

def vlIsNil : VL → Bool
  | .nil => true
  | _ => false

/-- the connector a separator text stands for -/
def sepConn (sep : String) : Option String :=
  if sep == " & " then some "AND" else if sep == " | " then some "OR" else if sep == " ^ " then some "XOR" else none

theorem connOf_mkConn (c : String) : connOf (mkConn c) = c := by
  unfold mkConn connOf
  split
  · rename_i h; simp at h; simp [h]
  · simp

theorem vlAppend_nil : ∀ a : VL, vlAppend a .nil = a
  | .nil => rfl
  | .cons v t => by simp [vlAppend, vlAppend_nil t]

theorem vlAppend_assoc : ∀ a b c : VL, vlAppend (vlAppend a b) c = vlAppend a (vlAppend b c)
  | .nil, _, _ => rfl
  | .cons v t, b, c => by simp [vlAppend, vlAppend_assoc t b c]

theorem vlIsNil_append_cons : ∀ (a : VL) (v : V) (t : VL), vlIsNil (vlAppend a (.cons v t)) = false
  | .nil, _, _ => rfl
  | .cons _ _, _, _ => rfl

/-- `Q._combine` as a total function on Q values -/
def qComb (conn : String) (a b : V) : V :=
  match a, b with
  | .q _ _ cha, .q _ _ chb =>
    match cha, chb with
    | .nil, _ => b
    | _, .nil => a
    | _, _ => .q (mkConn conn) false (qAdd conn (qAdd conn .nil a) b)
  | _, _ => a

theorem qCombine_eq (conn : String) (a b : V) (ha : isQ a = true) (hb : isQ b = true) :
    qCombine conn a b = .ok (qComb conn a b) := by
  cases a <;> simp [isQ] at ha
  cases b <;> simp [isQ] at hb
  rename_i c1 n1 ch1 c2 n2 ch2
  cases ch1 <;> cases ch2 <;> simp [qCombine, qComb]

theorem qComb_isQ (conn : String) (a b : V) (ha : isQ a = true) (hb : isQ b = true) :
    isQ (qComb conn a b) = true := by
  cases a <;> simp [isQ] at ha
  cases b <;> simp [isQ] at hb
  rename_i c1 n1 ch1 c2 n2 ch2
  cases ch1 <;> cases ch2 <;> simp [qComb, isQ]

/-- what a child `c` of a multi-child Q with connector `pconn` evaluates to, as far as the parent's
operator is concerned: a non-empty Q that `Node.add` appends as the single element `c` -/
def KidEv (pconn : String) (c ev : V) : Prop :=
  isQ ev = true ∧ vlIsNil (qChildren ev) = false ∧ ∀ acc, qAdd pconn acc ev = vlAppend acc (.cons c .nil)

def KidsEv (pconn : String) : VL → VL → Prop
  | .nil, .nil => True
  | .cons c t, .cons e te => KidEv pconn c e ∧ KidsEv pconn t te
  | _, _ => False

def vlFoldl (f : V → V → V) : V → VL → V
  | a, .nil => a
  | a, .cons v t => vlFoldl f (f a v) t

/-- combining an accumulated Q of the same connector with the next evaluated child appends the child -/
theorem qComb_acc (pconn : String) (X : VL) (c e : V) (hX : vlIsNil X = false) (h : KidEv pconn c e) :
    qComb pconn (.q (mkConn pconn) false X) e = .q (mkConn pconn) false (vlAppend X (.cons c .nil)) := by
  obtain ⟨hq, hne, hadd⟩ := h
  cases e <;> simp [isQ] at hq
  rename_i c2 n2 ch2
  simp only [qChildren] at hne
  cases X with
  | nil => simp [vlIsNil] at hX
  | cons x xt =>
    cases ch2 with
    | nil => simp [vlIsNil] at hne
    | cons y yt =>
      simp only [qComb]
      have h1 : qAdd pconn .nil (.q (mkConn pconn) false (.cons x xt)) = .cons x xt := by
        simp [qAdd, connOf_mkConn, vlAppend]
      rw [h1, hadd]

theorem qComb_fold (pconn : String) : ∀ (cs evs : VL) (X : VL), KidsEv pconn cs evs → vlIsNil X = false →
    vlFoldl (qComb pconn) (.q (mkConn pconn) false X) evs = .q (mkConn pconn) false (vlAppend X cs)
  | .nil, .nil, X, _, _ => by simp [vlFoldl, vlAppend_nil]
  | .cons c t, .cons e te, X, h, hX => by
    simp only [KidsEv] at h
    simp only [vlFoldl]
    rw [qComb_acc pconn X c e hX h.1]
    rw [qComb_fold pconn t te _ h.2 (vlIsNil_append_cons X c .nil)]
    rw [vlAppend_assoc]; rfl
  | .nil, .cons _ _, _, h, _ => by simp [KidsEv] at h
  | .cons _ _, .nil, _, h, _ => by simp [KidsEv] at h

/-- the first two evaluated children combine into a Q holding exactly the two children -/
theorem qComb_first (pconn : String) (c1 e1 c2 e2 : V) (h1 : KidEv pconn c1 e1) (h2 : KidEv pconn c2 e2) :
    qComb pconn e1 e2 = .q (mkConn pconn) false (.cons c1 (.cons c2 .nil)) := by
  obtain ⟨hq1, hne1, hadd1⟩ := h1
  obtain ⟨hq2, hne2, hadd2⟩ := h2
  cases e1 <;> simp [isQ] at hq1
  cases e2 <;> simp [isQ] at hq2
  rename_i a1 n1 ch1 a2 n2 ch2
  simp only [qChildren] at hne1 hne2
  cases ch1 with
  | nil => simp [vlIsNil] at hne1
  | cons x xt =>
    cases ch2 with
    | nil => simp [vlIsNil] at hne2
    | cons y yt =>
      simp only [qComb]
      rw [hadd1, hadd2]
      simp [vlAppend]

/-! ## evaluation of operator chains -/

theorem evalPy_bin_q (ks : Bool) (sep conn : String) (l r : Py) (a b : V)
    (hs : sepConn sep = some conn)
    (hl : evalPy ks l = .ok a) (hr : evalPy ks r = .ok b) (ha : isQ a = true) (hb : isQ b = true) :
    evalPy ks (.bin sep l r) = .ok (qComb conn a b) := by
  cases a <;> simp [isQ] at ha
  cases b <;> simp [isQ] at hb
  rename_i c1 n1 ch1 c2 n2 ch2
  unfold evalPy
  simp only [hl, hr, bind, Except.bind]
  unfold sepConn at hs
  split at hs
  · rename_i h; simp at h; injection hs with hs; subst hs
    simp [h]; exact qCombine_eq _ _ _ rfl rfl
  · split at hs
    · rename_i h1 h; simp at h; injection hs with hs; subst hs
      simp [h]; exact qCombine_eq _ _ _ rfl rfl
    · split at hs
      · rename_i h1 h2 h; simp at h; injection hs with hs; subst hs
        simp [h]; exact qCombine_eq _ _ _ rfl rfl
      · cases hs

theorem evalPyL_cons_ok (ks : Bool) (e : Py) (t : PyL) (evs : VL) (h : evalPyL ks (.cons e t) = .ok evs) :
    ∃ v vt, evalPy ks e = .ok v ∧ evalPyL ks t = .ok vt ∧ evs = .cons v vt := by
  unfold evalPyL at h
  simp only [bind, Except.bind, pure, Except.pure] at h
  cases h1 : evalPy ks e with
  | error err => simp [h1] at h
  | ok v =>
    simp only [h1] at h
    cases h2 : evalPyL ks t with
    | error err => simp [h2] at h
    | ok vt =>
      simp only [h2] at h
      injection h with h
      exact ⟨v, vt, rfl, rfl, h.symm⟩

def AllQ : VL → Prop
  | .nil => True
  | .cons v t => isQ v = true ∧ AllQ t

/-- evaluating the left-nested chain of re-read operands folds `Q._combine` over their values -/
theorem evalPy_fold (ks : Bool) (sep conn : String) (hs : sepConn sep = some conn) :
    ∀ (ps : PyL) (evs : VL) (a : Py) (ea : V),
      evalPyL ks (reparseL ps) = .ok evs → AllQ evs → evalPy ks a = .ok ea → isQ ea = true →
      evalPy ks (((pylToList ps).map reparseTop).foldl (fun x e => .bin sep x e) a) = .ok (vlFoldl (qComb conn) ea evs)
  | .nil, evs, a, ea, h, _, ha, _ => by
    unfold reparseL evalPyL at h
    injection h with h; subst h
    simpa [pylToList, vlFoldl] using ha
  | .cons e t, evs, a, ea, h, hq, ha, hqa => by
    have h' : evalPyL ks (.cons (reparseTop e) (reparseL t)) = .ok evs := by
      simpa [reparseL] using h
    obtain ⟨v, vt, hv, hvt, he⟩ := evalPyL_cons_ok ks _ _ _ h'
    subst he
    simp only [AllQ] at hq
    simp only [pylToList, List.map_cons, List.foldl_cons, vlFoldl]
    exact evalPy_fold ks sep conn hs t vt _ _ hvt hq.2
      (evalPy_bin_q ks sep conn a (reparseTop e) ea v hs ha hv hqa hq.1)
      (qComb_isQ conn ea v hqa hq.1)

end DEvo.Ser
