/-! The attribute dictionary of a field signature on its way through the store
(django_evolution/signature.py): `FieldSignature.serialize` writes `field_attrs` as it is;
`FieldSignature.deserialize` walks the attribute names tracked for the field type and fetches each from
the stored dictionary (through its alias first).  Values are abstract here (`β`): what happens to one
value is `Ser/Sig.lean`'s business; this file is about which keys come back. -/

namespace DEvo.Ser

def aget {β} (d : List (String × β)) (k : String) : Option β := (d.find? (fun p => p.1 == k)).map (·.2)

/-- `byPresence`: an attribute is taken when its key is IN the stored dictionary (today's code);
otherwise it is taken when the fetched value is not `None` (a seeded variant) -/
structure AttrLoadCfg where
  byPresence : Bool
  deriving DecidableEq, Repr

/-- the value `deserialize` finds for attribute `a`, if any -/
def fetch {β} (cfg : AttrLoadCfg) (isNull : β → Bool) (aliases : List (String × String))
    (stored : List (String × β)) (a : String) : Option β :=
  let found : Option β := match (aget aliases a).bind (aget stored) with
    | some v => some v
    | none => aget stored a
  match found with
  | none => none
  | some v => if !cfg.byPresence && isNull v then none else some v

/-- `FieldSignature.deserialize`, the loop over `_iter_attrs_for_field_type(field_type)` -/
def loadAttrs {β} (cfg : AttrLoadCfg) (isNull : β → Bool) (aliases : List (String × String))
    (known : List String) (stored : List (String × β)) : List (String × β) :=
  known.filterMap (fun a => (fetch cfg isNull aliases stored a).map (fun v => (a, v)))

theorem aget_filterMap_keyed {β} (g : String → Option β) (known : List String) (a : String) :
    aget (known.filterMap (fun k => (g k).map (fun v => (k, v)))) a = if a ∈ known then g a else none := by
  induction known with
  | nil => simp [aget]
  | cons k ks ih =>
    by_cases hk : k = a
    · subst hk
      cases hg : g k with
      | none =>
        simp only [List.filterMap_cons, hg, Option.map_none, List.mem_cons, true_or, if_true]
        rw [ih]
        split <;> simp [hg]
      | some v =>
        simp [List.filterMap_cons, hg, aget]
    · have hne : (k == a) = false := by simpa using hk
      have hmem : (a ∈ k :: ks) ↔ a ∈ ks := by
        simp only [List.mem_cons]
        constructor
        · rintro (e | h)
          · exact absurd e.symm hk
          · exact h
        · exact Or.inr
      cases hg : g k with
      | none =>
        simp only [List.filterMap_cons, hg, Option.map_none]
        rw [ih]
        simp only [hmem]
      | some v =>
        simp only [List.filterMap_cons, hg, Option.map_some]
        have : aget ((k, v) :: ks.filterMap (fun k => (g k).map (fun v => (k, v)))) a =
            aget (ks.filterMap (fun k => (g k).map (fun v => (k, v)))) a := by
          simp [aget, List.find?_cons, hne]
        rw [this, ih]
        simp only [hmem]

end DEvo.Ser
