import DEvo.Ser.PyLemmas

/-! The values for which the hint text provably means what the hint meant (`Good`), and the
round-trip theorem for them: printing with the current source's configuration, reading the text
the way Python does and evaluating it with Django's operators gives the value back. -/

namespace DEvo.Ser

def reservedKey (k : String) : Bool := k == "_connector" || k == "_negated"

/-- connectors in the form Django stores them (`none` = AND) -/
def connOK (c : Option String) : Bool := c == none || c == some "OR" || c == some "XOR"

def combConnOK (op : String) : Bool :=
  op == "+" || op == "-" || op == "*" || op == "/" || op == "%%" || op == "^" ||
  op == "&" || op == "|" || op == "<<" || op == ">>" || op == "#"

/-- Django's `&`/`|`/`^` keep this child of a Q with connector `pconn` as one element: it is
non-empty, and negated or of another connector with more than one child -/
def keptAsIs (pconn : String) (c : Option String) (n : Bool) (ch : VL) : Bool :=
  !vlIsNil ch && (n || (connOf c != pconn && vlLen ch != 1))

/-- the argument shape of a CombinedExpression: `(lhs, connector, rhs)`, both sides expressions -/
def combArgsOK : VL → VD → Bool
  | .cons l (.cons (.str op) (.cons r .nil)), .nil => combConnOK op && isExpr l && isExpr r
  | _, _ => false

mutual
def Good : V → Bool
  | .null => true | .bool _ => true | .int _ => true | .str _ => true
  | .list xs => GoodL xs | .tuple xs => GoodL xs
  | .dict kvs => GoodD kvs
  | .enum ty _ => underModels ty
  | .obj ty args kw =>
    ty != placeholderPath && ty != qPath && underModels ty && GoodL args && GoodD kw &&
      (if ty == combPath then combArgsOK args kw else true)
  | .q conn _ ch => connOK conn && GoodQ conn ch
  termination_by structural v => v
def GoodQ (conn : Option String) : VL → Bool
  | .nil => conn == none
  | .cons c .nil =>
    match c with
    | .tuple (.cons (.str k) (.cons v .nil)) => !reservedKey k && Good v
    | .q c2 _ ch2 => connOK c2 && GoodQ c2 ch2
    | _ => false
  | .cons c (.cons c2 rest) => GoodKid (connOf conn) c && GoodKids (connOf conn) (.cons c2 rest)
  termination_by structural ch => ch
def GoodKid (pconn : String) : V → Bool
  | .tuple (.cons (.str k) (.cons v .nil)) => !reservedKey k && Good v
  | .q c n ch => connOK c && GoodQ c ch && keptAsIs pconn c n ch
  | _ => false
  termination_by structural v => v
def GoodKids (pconn : String) : VL → Bool
  | .nil => true
  | .cons c t => GoodKid pconn c && GoodKids pconn t
  termination_by structural l => l
def GoodL : VL → Bool
  | .nil => true
  | .cons v t => Good v && GoodL t
  termination_by structural l => l
def GoodD : VD → Bool
  | .nil => true
  | .cons _ v t => Good v && GoodD t
  termination_by structural d => d
end

/-- what is shown for every good value `v` and its rendering `p` -/
structure Out (v : V) (p : Py) : Prop where
  syn : syntaxOk p = true
  cut : cutComment p = (p, false)
  shape : isComb v = false → isBin p = false
  ev : evalPy true (reparseTop p) = .ok v

def OutL : VL → PyL → Prop
  | .nil, .nil => True
  | .cons v t, .cons p ps => Out v p ∧ OutL t ps
  | _, _ => False

theorem connOK_cases (c : Option String) (h : connOK c = true) : c = none ∨ c = some "OR" ∨ c = some "XOR" := by
  unfold connOK at h
  simp only [Bool.or_eq_true, beq_iff_eq] at h
  rcases h with (h | h) | h <;> simp [h]

theorem mkConn_connOf (c : Option String) (h : connOK c = true) : mkConn (connOf c) = c := by
  rcases connOK_cases c h with h | h | h <;> subst h <;> decide

theorem sepOf_cur (c : Option String) (h : connOK c = true) :
    ∃ sep, sepOf cur.seps (connOf c) = some sep ∧ sepConn sep = some (connOf c) ∧ isPyOp sep = true ∧
      pops sep sep = true := by
  rcases connOK_cases c h with h | h | h <;> subst h
  · exact ⟨" & ", by decide, by decide, by decide, by decide⟩
  · exact ⟨" | ", by decide, by decide, by decide, by decide⟩
  · exact ⟨" ^ ", by decide, by decide, by decide, by decide⟩

def kvT (k : String) (v : V) : V := .tuple (.cons (.str k) (.cons v .nil))

theorem reserved_ne (k : String) (h : reservedKey k = false) : (k == "_connector") = false := by
  unfold reservedKey at h
  simp only [Bool.or_eq_false_iff] at h
  exact h.1

/-- `models.Q(k=<pv>)` evaluates to the one-child Q -/
theorem eval_atom (k : String) (pv : Py) (v : V) (hk : reservedKey k = false)
    (hv : evalPy true (reparseTop pv) = .ok v) :
    evalPy true (reparseTop (.call qPath .nil (.cons k pv .nil))) = .ok (.q none false (.cons (kvT k v) .nil)) := by
  have hk' := reserved_ne k hk
  simp [reparseTop, reparseL, reparseD, evalPy, evalPyL, evalPyD, hv, bind, Except.bind, pure, Except.pure,
    qPath, vdGet, vdErase, hk', kvChildren, vlAppend, kvT]

/-- `models.Q(k=<pv>[, _connector='X'])` -/
theorem eval_atom_conn (k : String) (pv : Py) (v : V) (conn : Option String) (hc : connOK conn = true)
    (hk : reservedKey k = false) (hv : evalPy true (reparseTop pv) = .ok v) :
    evalPy true (reparseTop (.call qPath .nil (.cons k pv (connKw cur conn)))) =
      .ok (.q conn false (.cons (kvT k v) .nil)) := by
  have hk' := reserved_ne k hk
  rcases connOK_cases conn hc with h | h | h <;> subst h <;>
    simp [connKw, cur, connOf, reparseTop, reparseL, reparseD, evalPy, evalPyL, evalPyD, hv, bind, Except.bind, pure,
      Except.pure, qPath, vdGet, vdErase, hk', kvChildren, vlAppend, kvT, mkConn, litV]

/-- `models.Q(<child>[, _connector='X'])` -/
theorem eval_wrap_conn (pc : Py) (c : V) (conn : Option String) (hc : connOK conn = true)
    (hv : evalPy true (reparseTop pc) = .ok c) :
    evalPy true (reparseTop (.call qPath (.cons pc .nil) (connKw cur conn))) = .ok (.q conn false (.cons c .nil)) := by
  rcases connOK_cases conn hc with h | h | h <;> subst h <;>
    simp [connKw, cur, connOf, reparseTop, reparseL, reparseD, evalPy, evalPyL, evalPyD, hv, bind, Except.bind, pure,
      Except.pure, qPath, vdGet, vdErase, kvChildren, vlAppend, mkConn, litV]

theorem eval_negWrap (neg : Bool) (p : Py) (c : Option String) (ch : VL)
    (h : evalPy true (reparseTop p) = .ok (.q c false ch)) :
    evalPy true (reparseTop (negWrap neg p)) = .ok (.q c neg ch) := by
  cases neg
  · simpa [negWrap] using h
  · simp [negWrap, reparseTop, evalPy, h, bind, Except.bind, pure, Except.pure]

theorem syntaxOk_negWrap (neg : Bool) (p : Py) (h : syntaxOk p = true) : syntaxOk (negWrap neg p) = true := by
  cases neg <;> simp [negWrap, syntaxOk, h]

theorem isBin_negWrap (neg : Bool) (p : Py) (h : isBin p = false) : isBin (negWrap neg p) = false := by
  cases neg
  · simpa [negWrap] using h
  · simp [negWrap, isBin]

theorem syntaxOk_connKw (conn : Option String) : syntaxOkD (connKw cur conn) = true := by
  unfold connKw
  split <;> simp [syntaxOkD, syntaxOk]

theorem syntaxOk_chain (sep : String) (hop : isPyOp sep = true) : ∀ (ps : PyL) (acc : Py),
    syntaxOk acc = true → syntaxOkL ps = true → syntaxOk (chain sep acc ps) = true
  | .nil, acc, ha, _ => by simpa [chain] using ha
  | .cons e t, acc, ha, hps => by
    simp only [syntaxOkL, Bool.and_eq_true] at hps
    simp only [chain]
    exact syntaxOk_chain sep hop t _ (by simp [syntaxOk, hop, ha, hps.1]) hps.2

theorem kidEv_atom (pconn k : String) (v : V) : KidEv pconn (kvT k v) (.q none false (.cons (kvT k v) .nil)) := by
  refine ⟨rfl, rfl, ?_⟩
  intro acc
  simp [qAdd, vlLen]

theorem kidEv_q (pconn : String) (c : Option String) (n : Bool) (ch : VL) (h : keptAsIs pconn c n ch = true) :
    KidEv pconn (.q c n ch) (.q c n ch) := by
  unfold keptAsIs at h
  simp only [Bool.and_eq_true, Bool.not_eq_true', Bool.or_eq_true, bne_iff_ne, ne_eq] at h
  refine ⟨rfl, by simpa [qChildren] using h.1, ?_⟩
  intro acc
  rcases h.2 with hn | ⟨hc, hl⟩
  · simp [qAdd, hn]
  · have hc' : (connOf c == pconn) = false := by simpa using hc
    have hl' : (vlLen ch == 1) = false := by simpa using hl
    simp [qAdd, hc', hl']

theorem out_nonbin (v : V) (p : Py) (hs : syntaxOk p = true) (hb : isBin p = false)
    (he : evalPy true (reparseTop p) = .ok v) : Out v p :=
  ⟨hs, cutComment_nonbin p hb, fun _ => hb, he⟩

theorem reparse_bin2 (o : String) (L R : Py) (hL : isBin L = false) (hR : isBin R = false) :
    reparseTop (.bin o L R) = .bin o (reparseTop L) (reparseTop R) := by
  have := reparse_chain o L R [] hL (by simp [allNonBin, hR]) (by simp)
  simpa using this

theorem wrap_isBin (v : V) (p : Py) (h : isComb v = false → isBin p = false) :
    isBin (wrapOperand cur v p) = false := by
  unfold wrapOperand
  cases hc : isComb v
  · simpa using h hc
  · simp [cur, isBin]

theorem wrap_syntaxOk (v : V) (p : Py) : syntaxOk (wrapOperand cur v p) = syntaxOk p := by
  unfold wrapOperand; split <;> simp [syntaxOk]

theorem wrap_reparse (v : V) (p : Py) : reparseTop (wrapOperand cur v p) = reparseTop p := by
  unfold wrapOperand; split <;> simp [reparseTop]

def combV (op : String) (l r : V) : V := .obj combPath (.cons l (.cons (.str op) (.cons r .nil))) .nil

theorem eval_comb_bin (op' op : String) (A B : Py) (l r : V)
    (hl : evalPy true A = .ok l) (hr : evalPy true B = .ok r)
    (hel : isExpr l = true) (her : isExpr r = true) (hc : combConn op' = some op) :
    evalPy true (.bin op' A B) = .ok (combV op l r) := by
  cases l <;> simp [isExpr] at hel
  cases r <;> simp [isExpr] at her
  unfold evalPy
  simp [hl, hr, bind, Except.bind, pure, Except.pure, isExpr, hc, combV]

theorem eval_comb_meth (m op : String) (A B : Py) (l r : V)
    (hl : evalPy true A = .ok l) (hr : evalPy true B = .ok r)
    (hel : isExpr l = true) (her : isExpr r = true) (hc : methodConn m = some op) :
    evalPy true (.meth A m B) = .ok (combV op l r) := by
  unfold evalPy
  simp [hl, hr, bind, Except.bind, pure, Except.pure, hel, her, hc, combV]

/-- rendering and reading back one CombinedExpression whose operands are already known to be fine -/
theorem out_comb (op : String) (l r : V) (pl pr : Py) (hop : combConnOK op = true)
    (hel : isExpr l = true) (her : isExpr r = true) (hl : Out l pl) (hr : Out r pr)
    (hpl : toPy cur l = .ok pl) (hpr : toPy cur r = .ok pr) :
    ∃ p, toPy cur (combV op l r) = .ok p ∧ Out (combV op l r) p := by
  have hbl := wrap_isBin l pl hl.shape
  have hbr := wrap_isBin r pr hr.shape
  have hevl : evalPy true (reparseTop (wrapOperand cur l pl)) = .ok l := by rw [wrap_reparse]; exact hl.ev
  have hevr : evalPy true (reparseTop (wrapOperand cur r pr)) = .ok r := by rw [wrap_reparse]; exact hr.ev
  have hsl : syntaxOk (wrapOperand cur l pl) = true := by rw [wrap_syntaxOk]; exact hl.syn
  have hsr : syntaxOk (wrapOperand cur r pr) = true := by rw [wrap_syntaxOk]; exact hr.syn
  -- operators
  have binCase : ∀ (op' : String), lookupS cur.combMethods op = none → (lookupS cur.combOps op).getD op = op' →
      isPyOp op' = true → (op' == "#") = false → combConn op' = some op →
      ∃ p, toPy cur (combV op l r) = .ok p ∧ Out (combV op l r) p := by
    intro op' hm ho hpy hhash hcc
    refine ⟨.bin op' (wrapOperand cur l pl) (wrapOperand cur r pr), ?_, ?_, ?_, ?_, ?_⟩
    · simp [combV, toPy, hpl, hpr, hm, ho]
    · simp [syntaxOk, hpy, hsl, hsr]
    · simp [cutComment, cutComment_nonbin _ hbl, cutComment_nonbin _ hbr, hhash]
    · intro h; simp [combV, isComb] at h
    · rw [reparse_bin2 op' _ _ hbl hbr]
      exact eval_comb_bin op' op _ _ l r hevl hevr hel her hcc
  have methCase : ∀ (m : String), lookupS cur.combMethods op = some m → methodConn m = some op →
      ∃ p, toPy cur (combV op l r) = .ok p ∧ Out (combV op l r) p := by
    intro m hm hmc
    refine ⟨.meth (wrapOperand cur l pl) m (wrapOperand cur r pr), by simp [combV, toPy, hpl, hpr, hm],
      out_nonbin _ _ (by simp [syntaxOk, hsl, hsr]) rfl ?_⟩
    simp only [reparseTop]
    exact eval_comb_meth m op _ _ l r hevl hevr hel her hmc
  unfold combConnOK at hop
  simp only [Bool.or_eq_true, beq_iff_eq] at hop
  rcases hop with (((((((((h | h) | h) | h) | h) | h) | h) | h) | h) | h) | h <;> subst h
  · exact binCase "+" (by decide) (by decide) (by decide) (by decide) (by decide)
  · exact binCase "-" (by decide) (by decide) (by decide) (by decide) (by decide)
  · exact binCase "*" (by decide) (by decide) (by decide) (by decide) (by decide)
  · exact binCase "/" (by decide) (by decide) (by decide) (by decide) (by decide)
  · exact binCase "%" (by decide) (by decide) (by decide) (by decide) (by decide)
  · exact binCase "**" (by decide) (by decide) (by decide) (by decide) (by decide)
  · exact methCase "bitand" (by decide) (by decide)
  · exact methCase "bitor" (by decide) (by decide)
  · exact methCase "bitleftshift" (by decide) (by decide)
  · exact methCase "bitrightshift" (by decide) (by decide)
  · exact methCase "bitxor" (by decide) (by decide)

mutual
theorem good_toPy : ∀ (v : V), Good v = true → ∃ p, toPy cur v = .ok p ∧ Out v p
  | .null, _ => ⟨_, rfl, out_nonbin _ _ rfl rfl rfl⟩
  | .bool _, _ => ⟨_, rfl, out_nonbin _ _ rfl rfl rfl⟩
  | .int _, _ => ⟨_, rfl, out_nonbin _ _ rfl rfl rfl⟩
  | .str _, _ => ⟨_, rfl, out_nonbin _ _ rfl rfl rfl⟩
  | .list xs, h => by
    obtain ⟨ps, hp, hs, he, _⟩ := good_toPyL xs (by simpa [Good] using h)
    refine ⟨.list ps, by simp [toPy, hp, Except.map], out_nonbin _ _ (by simpa [syntaxOk] using hs) rfl ?_⟩
    simp [reparseTop, evalPy, he, bind, Except.bind, pure, Except.pure]
  | .tuple xs, h => by
    obtain ⟨ps, hp, hs, he, _⟩ := good_toPyL xs (by simpa [Good] using h)
    refine ⟨.tuple ps, by simp [toPy, hp, Except.map], out_nonbin _ _ (by simpa [syntaxOk] using hs) rfl ?_⟩
    simp [reparseTop, evalPy, he, bind, Except.bind, pure, Except.pure]
  | .dict kvs, h => by
    obtain ⟨ps, hp, hs, he⟩ := good_toPyD kvs (by simpa [Good] using h)
    refine ⟨.dict ps, by simp [toPy, hp, Except.map], out_nonbin _ _ (by simpa [syntaxOk] using hs) rfl ?_⟩
    simp [reparseTop, evalPy, he, bind, Except.bind, pure, Except.pure]
  | .enum ty name, h => by
    have hu : underModels ty = true := by simpa [Good] using h
    exact ⟨.enumRef ty name, rfl, out_nonbin _ _ rfl rfl (by simp [reparseTop, evalPy, hu])⟩
  | .q conn neg ch, h => by
    simp only [Good, Bool.and_eq_true] at h
    obtain ⟨p, hp, hs, hb, he⟩ := good_toPyQ conn neg ch h.1 h.2
    exact ⟨p, by simpa [toPy] using hp, out_nonbin _ _ hs hb he⟩
  | .obj ty args kw, h => by
    simp only [Good, Bool.and_eq_true, bne_iff_ne, ne_eq] at h
    obtain ⟨⟨⟨⟨⟨hph, hq⟩, hu⟩, hga⟩, hgk⟩, hcomb⟩ := h
    obtain ⟨a, ha, hsa, hea, hol⟩ := good_toPyL args hga
    obtain ⟨k, hk, hsk, hek⟩ := good_toPyD kw hgk
    by_cases hty : ty = combPath
    · subst hty
      simp only [beq_self_eq_true, if_true] at hcomb
      -- the arguments have the shape (lhs, connector, rhs) and there are no keyword arguments
      cases args with
      | nil => simp [combArgsOK] at hcomb
      | cons l t1 =>
      cases t1 with
      | nil => simp [combArgsOK] at hcomb
      | cons m t2 =>
      cases t2 with
      | nil => cases m <;> simp [combArgsOK] at hcomb
      | cons r t3 =>
      cases t3 with
      | cons _ _ => cases m <;> simp [combArgsOK] at hcomb
      | nil =>
      cases m with
      | str op =>
        cases kw with
        | cons _ _ _ => simp [combArgsOK] at hcomb
        | nil =>
          simp only [combArgsOK, Bool.and_eq_true] at hcomb
          -- unpack the rendered argument list
          cases a with
          | nil => simp [OutL] at hol
          | cons pl a1 =>
          cases a1 with
          | nil => simp [OutL] at hol
          | cons pm a2 =>
          cases a2 with
          | nil => simp [OutL] at hol
          | cons pr a3 =>
          simp only [OutL] at hol
          have hpl : toPy cur l = .ok pl := by
            simp only [toPyL] at ha
            cases h1 : toPy cur l with
            | error e => simp [h1] at ha
            | ok x =>
              simp only [h1] at ha
              cases h2 : toPy cur (.str op) with
              | error e => simp [h2] at ha
              | ok y =>
                simp only [h2] at ha
                cases h3 : toPy cur r with
                | error e => simp [h3] at ha
                | ok z => simp [h3] at ha; rw [ha.1]
          have hpr : toPy cur r = .ok pr := by
            simp only [toPyL] at ha
            cases h1 : toPy cur l with
            | error e => simp [h1] at ha
            | ok x =>
              simp only [h1] at ha
              cases h2 : toPy cur (.str op) with
              | error e => simp [h2] at ha
              | ok y =>
                simp only [h2] at ha
                cases h3 : toPy cur r with
                | error e => simp [h3] at ha
                | ok z => simp [h3] at ha; rw [ha.2.2.1]
          exact out_comb op l r pl pr hcomb.1.1 hcomb.1.2 hcomb.2 hol.1 hol.2.2.1 hpl hpr
      | null => simp [combArgsOK] at hcomb
      | int _ => simp [combArgsOK] at hcomb
      | bool _ => simp [combArgsOK] at hcomb
      | list _ => simp [combArgsOK] at hcomb
      | tuple _ => simp [combArgsOK] at hcomb
      | dict _ => simp [combArgsOK] at hcomb
      | q _ _ _ => simp [combArgsOK] at hcomb
      | obj _ _ _ => simp [combArgsOK] at hcomb
      | enum _ _ => simp [combArgsOK] at hcomb
    · have hty' : (ty == combPath) = false := by simpa using hty
      have hph' : (ty == placeholderPath) = false := by simpa using hph
      have hq' : (ty == qPath) = false := by simpa using hq
      have htp : toPy cur (.obj ty args kw) = .ok (.call ty a k) := by
        unfold toPy
        simp [hty', hph', ha, hk]
      refine ⟨.call ty a k, htp, out_nonbin _ _ (by simp [syntaxOk, hsa, hsk]) rfl ?_⟩
      simp [reparseTop, evalPy, hea, hek, bind, Except.bind, pure, Except.pure, hq', hu]
theorem good_toPyQ : ∀ (conn : Option String) (neg : Bool) (ch : VL), connOK conn = true → GoodQ conn ch = true →
    ∃ p, toPyQ cur conn neg ch = .ok p ∧ syntaxOk p = true ∧ isBin p = false ∧
      evalPy true (reparseTop p) = .ok (.q conn neg ch)
  | conn, neg, .nil, _, h => by
    have hc : conn = none := by simpa [GoodQ] using h
    subst hc
    refine ⟨negWrap neg (.call qPath .nil .nil), by simp [toPyQ], syntaxOk_negWrap _ _ (by simp [syntaxOk, syntaxOkL, syntaxOkD]),
      isBin_negWrap _ _ rfl, eval_negWrap neg _ none .nil ?_⟩
    simp [reparseTop, reparseL, reparseD, evalPy, evalPyL, evalPyD, bind, Except.bind, pure, Except.pure, qPath, vdGet,
      vdErase, kvChildren, vlAppend]
  | conn, neg, .cons (.tuple (.cons (.str k) (.cons v .nil))) .nil, hc, h => by
    simp only [GoodQ, Bool.and_eq_true, Bool.not_eq_true'] at h
    obtain ⟨pv, hp, ho⟩ := good_toPy v h.2
    refine ⟨negWrap neg (.call qPath .nil (.cons k pv (connKw cur conn))), by simp [toPyQ, hp, Except.map],
      syntaxOk_negWrap _ _ (by simp [syntaxOk, syntaxOkL, syntaxOkD, ho.syn, syntaxOk_connKw]),
      isBin_negWrap _ _ rfl, eval_negWrap neg _ conn _ (eval_atom_conn k pv v conn hc h.1 ho.ev)⟩
  | conn, neg, .cons (.q c2 n2 ch2) .nil, hc, h => by
    simp only [GoodQ, Bool.and_eq_true] at h
    obtain ⟨pc, hp, hs, _, he⟩ := good_toPyQ c2 n2 ch2 h.1 h.2
    have hfull : cur.singleChildFull = true := rfl
    refine ⟨negWrap neg (.call qPath (.cons pc .nil) (connKw cur conn)), by simp [toPyQ, hfull, hp, Except.map],
      syntaxOk_negWrap _ _ (by simp [syntaxOk, syntaxOkL, hs, syntaxOk_connKw]),
      isBin_negWrap _ _ rfl, eval_negWrap neg _ conn _ (eval_wrap_conn pc _ conn hc he)⟩
  | conn, neg, .cons c (.cons c2 rest), hc, h => by
    simp only [GoodQ, Bool.and_eq_true] at h
    obtain ⟨first, e1, hp1, hs1, hb1, he1, hk1⟩ := good_kid (connOf conn) c h.1
    obtain ⟨ps, evs, hps, hss, hbs, hes, hq, hks⟩ := good_kids (connOf conn) (.cons c2 rest) h.2
    obtain ⟨sep, hsep, hsc, hop, hpops⟩ := sepOf_cur conn hc
    -- the others are a non-empty list
    cases evs with
    | nil => simp [KidsEv] at hks
    | cons e2 evs' =>
    cases ps with
    | nil => simp [reparseL, evalPyL] at hes
    | cons p2 ps' =>
    simp only [KidsEv] at hks
    simp only [AllQ] at hq
    refine ⟨negWrap neg (.paren (chain sep first (.cons p2 ps'))), by simp [toPyQ, hp1, hps, hsep],
      syntaxOk_negWrap _ _ (by simpa [syntaxOk] using syntaxOk_chain sep hop _ _ hs1 hss),
      isBin_negWrap _ _ rfl, eval_negWrap neg _ conn _ ?_⟩
    have hchain : reparseTop (.paren (chain sep first (.cons p2 ps'))) =
        ((pylToList (.cons p2 ps')).map reparseTop).foldl (fun a e => .bin sep a e) (reparseTop first) := by
      simp only [reparseTop]
      rw [chain_eq_foldl]
      simp only [pylToList] at hbs ⊢
      exact reparse_chain sep first p2 (pylToList ps') hb1 hbs (fun _ => hpops)
    rw [hchain, evalPy_fold true sep (connOf conn) hsc (.cons p2 ps') (.cons e2 evs') _ e1 hes hq he1 hk1.1]
    simp only [vlFoldl]
    rw [qComb_first (connOf conn) c e1 c2 e2 hk1 hks.1,
      qComb_fold (connOf conn) rest evs' _ hks.2 rfl, mkConn_connOf conn hc]
    rfl
  | conn, neg, .cons .null .nil, _, h => by simp [GoodQ] at h
  | conn, neg, .cons (.int _) .nil, _, h => by simp [GoodQ] at h
  | conn, neg, .cons (.str _) .nil, _, h => by simp [GoodQ] at h
  | conn, neg, .cons (.bool _) .nil, _, h => by simp [GoodQ] at h
  | conn, neg, .cons (.list _) .nil, _, h => by simp [GoodQ] at h
  | conn, neg, .cons (.dict _) .nil, _, h => by simp [GoodQ] at h
  | conn, neg, .cons (.obj _ _ _) .nil, _, h => by simp [GoodQ] at h
  | conn, neg, .cons (.enum _ _) .nil, _, h => by simp [GoodQ] at h
  | conn, neg, .cons (.tuple .nil) .nil, _, h => by simp [GoodQ] at h
  | conn, neg, .cons (.tuple (.cons .null _)) .nil, _, h => by simp [GoodQ] at h
  | conn, neg, .cons (.tuple (.cons (.int _) _)) .nil, _, h => by simp [GoodQ] at h
  | conn, neg, .cons (.tuple (.cons (.bool _) _)) .nil, _, h => by simp [GoodQ] at h
  | conn, neg, .cons (.tuple (.cons (.list _) _)) .nil, _, h => by simp [GoodQ] at h
  | conn, neg, .cons (.tuple (.cons (.tuple _) _)) .nil, _, h => by simp [GoodQ] at h
  | conn, neg, .cons (.tuple (.cons (.dict _) _)) .nil, _, h => by simp [GoodQ] at h
  | conn, neg, .cons (.tuple (.cons (.q _ _ _) _)) .nil, _, h => by simp [GoodQ] at h
  | conn, neg, .cons (.tuple (.cons (.obj _ _ _) _)) .nil, _, h => by simp [GoodQ] at h
  | conn, neg, .cons (.tuple (.cons (.enum _ _) _)) .nil, _, h => by simp [GoodQ] at h
  | conn, neg, .cons (.tuple (.cons (.str _) .nil)) .nil, _, h => by simp [GoodQ] at h
  | conn, neg, .cons (.tuple (.cons (.str _) (.cons _ (.cons _ _)))) .nil, _, h => by simp [GoodQ] at h
theorem good_kid : ∀ (pconn : String) (c : V), GoodKid pconn c = true →
    ∃ p ev, toPyChild cur c = .ok p ∧ syntaxOk p = true ∧ isBin p = false ∧
      evalPy true (reparseTop p) = .ok ev ∧ KidEv pconn c ev
  | pconn, .tuple (.cons (.str k) (.cons v .nil)), h => by
    simp only [GoodKid, Bool.and_eq_true, Bool.not_eq_true'] at h
    obtain ⟨pv, hp, ho⟩ := good_toPy v h.2
    refine ⟨.call qPath .nil (.cons k pv .nil), _, by simp [toPyChild, hp, Except.map],
      by simp [syntaxOk, syntaxOkL, syntaxOkD, ho.syn], rfl, eval_atom k pv v h.1 ho.ev, kidEv_atom pconn k v⟩
  | pconn, .q c n ch, h => by
    simp only [GoodKid, Bool.and_eq_true] at h
    obtain ⟨p, hp, hs, hb, he⟩ := good_toPyQ c n ch h.1.1 h.1.2
    exact ⟨p, _, by simpa [toPyChild] using hp, hs, hb, he, kidEv_q pconn c n ch h.2⟩
  | pconn, .null, h => by simp [GoodKid] at h
  | pconn, .int _, h => by simp [GoodKid] at h
  | pconn, .str _, h => by simp [GoodKid] at h
  | pconn, .bool _, h => by simp [GoodKid] at h
  | pconn, .list _, h => by simp [GoodKid] at h
  | pconn, .dict _, h => by simp [GoodKid] at h
  | pconn, .obj _ _ _, h => by simp [GoodKid] at h
  | pconn, .enum _ _, h => by simp [GoodKid] at h
  | pconn, .tuple .nil, h => by simp [GoodKid] at h
  | pconn, .tuple (.cons .null _), h => by simp [GoodKid] at h
  | pconn, .tuple (.cons (.int _) _), h => by simp [GoodKid] at h
  | pconn, .tuple (.cons (.bool _) _), h => by simp [GoodKid] at h
  | pconn, .tuple (.cons (.list _) _), h => by simp [GoodKid] at h
  | pconn, .tuple (.cons (.tuple _) _), h => by simp [GoodKid] at h
  | pconn, .tuple (.cons (.dict _) _), h => by simp [GoodKid] at h
  | pconn, .tuple (.cons (.q _ _ _) _), h => by simp [GoodKid] at h
  | pconn, .tuple (.cons (.obj _ _ _) _), h => by simp [GoodKid] at h
  | pconn, .tuple (.cons (.enum _ _) _), h => by simp [GoodKid] at h
  | pconn, .tuple (.cons (.str _) .nil), h => by simp [GoodKid] at h
  | pconn, .tuple (.cons (.str _) (.cons _ (.cons _ _))), h => by simp [GoodKid] at h
theorem good_kids : ∀ (pconn : String) (cs : VL), GoodKids pconn cs = true →
    ∃ ps evs, toPyChildren cur cs = .ok ps ∧ syntaxOkL ps = true ∧ allNonBin (pylToList ps) = true ∧
      evalPyL true (reparseL ps) = .ok evs ∧ AllQ evs ∧ KidsEv pconn cs evs
  | pconn, .nil, _ => ⟨.nil, .nil, rfl, rfl, rfl, rfl, trivial, trivial⟩
  | pconn, .cons c t, h => by
    simp only [GoodKids, Bool.and_eq_true] at h
    obtain ⟨p, ev, hp, hs, hb, he, hk⟩ := good_kid pconn c h.1
    obtain ⟨ps, evs, hps, hss, hbs, hes, hq, hks⟩ := good_kids pconn t h.2
    refine ⟨.cons p ps, .cons ev evs, by simp [toPyChildren, hp, hps], by simp [syntaxOkL, hs, hss],
      by simp [pylToList, allNonBin, hb, hbs], ?_, ⟨hk.1, hq⟩, ⟨hk, hks⟩⟩
    simp [reparseL, evalPyL, he, hes, bind, Except.bind, pure, Except.pure]
theorem good_toPyL : ∀ (xs : VL), GoodL xs = true →
    ∃ ps, toPyL cur xs = .ok ps ∧ syntaxOkL ps = true ∧ evalPyL true (reparseL ps) = .ok xs ∧ OutL xs ps
  | .nil, _ => ⟨.nil, rfl, rfl, rfl, trivial⟩
  | .cons v t, h => by
    simp only [GoodL, Bool.and_eq_true] at h
    obtain ⟨p, hp, ho⟩ := good_toPy v h.1
    obtain ⟨ps, hps, hss, hes, hol⟩ := good_toPyL t h.2
    refine ⟨.cons p ps, by simp [toPyL, hp, hps], by simp [syntaxOkL, ho.syn, hss], ?_, ⟨ho, hol⟩⟩
    simp [reparseL, evalPyL, ho.ev, hes, bind, Except.bind, pure, Except.pure]
theorem good_toPyD : ∀ (kvs : VD), GoodD kvs = true →
    ∃ ps, toPyD cur kvs = .ok ps ∧ syntaxOkD ps = true ∧ evalPyD true (reparseD ps) = .ok kvs
  | .nil, _ => ⟨.nil, rfl, rfl, rfl⟩
  | .cons k v t, h => by
    simp only [GoodD, Bool.and_eq_true] at h
    obtain ⟨p, hp, ho⟩ := good_toPy v h.1
    obtain ⟨ps, hps, hss, hes⟩ := good_toPyD t h.2
    refine ⟨.cons k p ps, by simp [toPyD, hp, hps], by simp [syntaxOkD, ho.syn, hss], ?_⟩
    simp [reparseD, evalPyD, ho.ev, hes, bind, Except.bind, pure, Except.pure]
end

end DEvo.Ser
