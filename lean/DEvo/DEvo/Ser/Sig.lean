/-! Signature (de)serialisation of attribute values (django_evolution/serialization.py) and the
storage path of `SignatureField` (django_evolution/models.py): `serialize_to_signature`,
`json.dumps` / `json.loads(object_pairs_hook=OrderedDict)`, `deserialize_from_signature`.

Values are a mutually inductive type (never `List V` inside `V`), so that every function and
every theorem below is plain structural recursion. -/

namespace DEvo.Ser

mutual
/-- Python values that occur as field/index/constraint attributes -/
inductive V where
  | null | int (i : Int) | str (s : String) | bool (b : Bool)
  | list (xs : VL) | tuple (xs : VL)
  | dict (kvs : VD)
  /-- `Q(*children, _connector=conn, _negated=neg)`; `conn = none` is the default connector (AND) -/
  | q (conn : Option String) (neg : Bool) (children : VL)
  /-- any other object with `deconstruct()`: F, Value, CombinedExpression, … -/
  | obj (type : String) (args : VL) (kwargs : VD)
  | enum (type : String) (name : String)
  deriving DecidableEq, Repr
inductive VL where
  | nil | cons (v : V) (t : VL)
  deriving DecidableEq, Repr
inductive VD where
  | nil | cons (k : String) (v : V) (t : VD)
  deriving DecidableEq, Repr
end

mutual
/-- what `serialize_to_signature` produces and what `json.loads(…, object_pairs_hook=OrderedDict)`
returns; `dict true` is an `OrderedDict` -/
inductive SV where
  | null | int (i : Int) | str (s : String) | bool (b : Bool)
  | list (xs : SL) | tuple (xs : SL)
  | dict (ordered : Bool) (kvs : SD)
inductive SL where
  | nil | cons (v : SV) (t : SL)
inductive SD where
  | nil | cons (k : String) (v : SV) (t : SD)
end

def qKwargs (conn : Option String) (neg : Bool) : SD :=
  match conn, neg with
  | none, false => .nil
  | none, true => .cons "_negated" (.bool true) .nil
  | some c, false => .cons "_connector" (.str c) .nil
  | some c, true => .cons "_connector" (.str c) (.cons "_negated" (.bool true) .nil)

mutual
/-- `serialize_to_signature` -/
def toSig : V → SV
  | .null => .null | .int i => .int i | .str s => .str s | .bool b => .bool b
  | .list xs => .list (toSigL xs) | .tuple xs => .tuple (toSigL xs)
  | .dict kvs => .dict false (toSigD kvs)
  | .q conn neg ch =>
      .dict false (.cons "_deconstructed" (.bool true)
        (.cons "args" (.list (toSigL ch))
        (.cons "kwargs" (.dict false (qKwargs conn neg))
        (.cons "type" (.str "django.db.models.Q") .nil))))
  | .obj ty args kwargs =>
      .dict false (.cons "_deconstructed" (.bool true)
        (.cons "args" (.tuple (toSigL args))
        (.cons "kwargs" (.dict false (toSigD kwargs))
        (.cons "type" (.str ty) .nil))))
  | .enum ty name =>
      .dict false (.cons "_enum" (.bool true) (.cons "type" (.str ty) (.cons "value" (.str name) .nil)))
def toSigL : VL → SL
  | .nil => .nil | .cons v t => .cons (toSig v) (toSigL t)
def toSigD : VD → SD
  | .nil => .nil | .cons k v t => .cons k (toSig v) (toSigD t)
end

mutual
/-- the storage trip: tuples become lists, every dict becomes an `OrderedDict` -/
def json : SV → SV
  | .list xs => .list (jsonL xs) | .tuple xs => .list (jsonL xs)
  | .dict _ kvs => .dict true (jsonD kvs)
  | v => v
def jsonL : SL → SL
  | .nil => .nil | .cons v t => .cons (json v) (jsonL t)
def jsonD : SD → SD
  | .nil => .nil | .cons k v t => .cons k (json v) (jsonD t)
end

/-- `_get_serializer_for_value(payload, serializing=False)` for a mapping.  `strict = true` is
the dispatch `cls is dict`, which an `OrderedDict` never satisfies; `strict = false` is
`isinstance(value, dict)`. -/
inductive Disp where | plain | decon | enum
  deriving DecidableEq, Repr

def sdGet (kvs : SD) (k : String) : Option SV :=
  match kvs with
  | .nil => none
  | .cons k' v t => if k' == k then some v else sdGet t k

def dispatch (strict : Bool) (ordered : Bool) (kvs : SD) : Disp :=
  if strict && ordered then .plain
  else match sdGet kvs "_enum" with
    | some (.bool true) => .enum
    | _ => match sdGet kvs "_deconstructed" with
      | some (.bool true) => .decon
      | _ => .plain

def listToTuple : V → V
  | .list xs => .tuple xs
  | v => v
def mapTup : VL → VL
  | .nil => .nil | .cons v t => .cons (listToTuple v) (mapTup t)

def vdGet (kvs : VD) (k : String) : Option V :=
  match kvs with
  | .nil => none
  | .cons k' v t => if k' == k then some v else vdGet t k

def seqOf : V → VL
  | .list xs => xs | .tuple xs => xs | _ => .nil

/-- rebuild a deconstructed object from its (already deserialised) payload dictionary -/
def rebuild (kvs : VD) : V :=
  match vdGet kvs "type", vdGet kvs "args", vdGet kvs "kwargs" with
  | some (.str ty), some args, some (.dict kw) =>
    if ty == "django.db.models.Q" then
      let conn := match vdGet kw "_connector" with | some (.str c) => some c | _ => none
      let neg := match vdGet kw "_negated" with | some (.bool true) => true | _ => false
      .q conn neg (mapTup (seqOf args))
    else .obj ty (seqOf args) kw
  | _, _, _ => .dict kvs

def rebuildEnum (kvs : VD) : V :=
  match vdGet kvs "type", vdGet kvs "value" with
  | some (.str ty), some (.str name) => .enum ty name
  | _, _ => .dict kvs

mutual
/-- `deserialize_from_signature` -/
def fromSig (strict : Bool) : SV → V
  | .null => .null | .int i => .int i | .str s => .str s | .bool b => .bool b
  | .list xs => .list (fromSigL strict xs) | .tuple xs => .tuple (fromSigL strict xs)
  | .dict ordered kvs =>
      match dispatch strict ordered kvs with
      | .plain => .dict (fromSigD strict kvs)
      | .decon => rebuild (fromSigD strict kvs)
      | .enum => rebuildEnum (fromSigD strict kvs)
def fromSigL (strict : Bool) : SL → VL
  | .nil => .nil | .cons v t => .cons (fromSig strict v) (fromSigL strict t)
def fromSigD (strict : Bool) : SD → VD
  | .nil => .nil | .cons k v t => .cons k (fromSig strict v) (fromSigD strict t)
end

mutual
/-- the normal form a value has after the storage trip with a working dispatch: tuples have
become lists, except where tuple-ness is structural (children of a Q are re-tupled) -/
def norm : V → V
  | .tuple xs => .list (normL xs) | .list xs => .list (normL xs)
  | .dict kvs => .dict (normD kvs)
  | .q c n ch => .q c n (mapTup (normL ch))
  | .obj ty args kw => .obj ty (normL args) (normD kw)
  | v => v
def normL : VL → VL
  | .nil => .nil | .cons v t => .cons (norm v) (normL t)
def normD : VD → VD
  | .nil => .nil | .cons k v t => .cons k (norm v) (normD t)
end

def vdHasKey (kvs : VD) (k : String) : Bool := (vdGet kvs k).isSome

mutual
/-- well-formed: plain dictionaries do not use the reserved keys, `Q` is not spelled as a
generic object -/
def WF : V → Bool
  | .list xs => WFL xs | .tuple xs => WFL xs
  | .dict kvs => !vdHasKey kvs "_deconstructed" && !vdHasKey kvs "_enum" && WFD kvs
  | .q _ _ ch => WFL ch
  | .obj ty args kw => ty != "django.db.models.Q" && WFL args && WFD kw &&
      !vdHasKey kw "_deconstructed" && !vdHasKey kw "_enum"
  | _ => true
def WFL : VL → Bool
  | .nil => true | .cons v t => WF v && WFL t
def WFD : VD → Bool
  | .nil => true | .cons _ v t => WF v && WFD t
end

mutual
/-- no deconstructed objects and no enums anywhere (plain JSON-like data) -/
def Plain : V → Bool
  | .list xs => PlainL xs | .tuple xs => PlainL xs
  | .dict kvs => PlainD kvs
  | .q .. => false | .obj .. => false | .enum .. => false
  | _ => true
def PlainL : VL → Bool
  | .nil => true | .cons v t => Plain v && PlainL t
def PlainD : VD → Bool
  | .nil => true | .cons _ v t => Plain v && PlainD t
end

end DEvo.Ser
