import DEvo.Opt.Optimize
import DEvo.Mut.Refs

/-! Regrouping a batch by model name is sound for model-local mutations (AddField, ChangeField,
DeleteField, RenameField, ChangeMeta): mutations on different models commute, and the stable
regrouping that `_process_mutation_batch` performs is a sequence of such commutations. -/

namespace DEvo.Opt
open DEvo.Sig DEvo.Mut

/-- a model-local mutation applied to the app signature that owns the model -/
def applyLocal (e : Env) (mu : Mutation) (a : AppSig) : Except SimErr AppSig :=
  match simModelLocal e mu with
  | none => .error .metaUnknown
  | some (model, f) =>
    match a.getModel model with
    | none => .error .modelNotFound
    | some m => match f m with
      | .ok m' => .ok (a.putModel m')
      | .error err => .error err

def applyAll (e : Env) : List Mutation → AppSig → Except SimErr AppSig
  | [], a => .ok a
  | mu :: rest, a => match applyLocal e mu a with
    | .ok a' => applyAll e rest a'
    | .error err => .error err

def isLocal (e : Env) (mu : Mutation) : Bool := (simModelLocal e mu).isSome

/-! ### the model-local functions keep the model's name -/

theorem local_name (e : Env) (mu : Mutation) (model : String) (f : ModelSig → Except SimErr ModelSig)
    (h : simModelLocal e mu = some (model, f)) (m m' : ModelSig) (hf : f m = .ok m') : m'.name = m.name := by
  cases mu with
  | addField mo fi ft ini ats =>
    simp only [simModelLocal] at h; injection h with h; injection h with _ h; subst h
    unfold simAddField at hf
    split at hf
    · cases hf
    · split at hf
      · cases hf
      · injection hf with hf; subst hf; rfl
  | changeField mo fi ft ini ats =>
    simp only [simModelLocal] at h; injection h with h; injection h with _ h; subst h
    unfold simChangeField at hf
    split at hf
    · cases hf
    · split at hf
      · cases hf
      · injection hf with hf; subst hf; rfl
  | deleteField mo fi =>
    simp only [simModelLocal] at h; injection h with h; injection h with _ h; subst h
    unfold simDeleteField at hf
    split at hf
    · cases hf
    · split at hf
      · cases hf
      · injection hf with hf; subst hf; rfl
  | renameField mo o n c t =>
    simp only [simModelLocal] at h; injection h with h; injection h with _ h; subst h
    unfold simRenameField at hf
    split at hf
    · cases hf
    · injection hf with hf; subst hf; rfl
  | changeMeta mo pr v =>
    simp only [simModelLocal] at h; injection h with h; injection h with _ h; subst h
    unfold simChangeMeta at hf
    split at hf
    · cases hf
    · split at hf <;> first | (injection hf with hf; subst hf; rfl) | cases hf
  | _ => simp [simModelLocal] at h

/-! ### lookups and replacements by name -/

theorem getModel_putModel_other (a : AppSig) (x : ModelSig) (n : String) (h : x.name ≠ n) :
    (a.putModel x).getModel n = a.getModel n := by
  unfold AppSig.getModel AppSig.putModel
  simp only
  induction a.models with
  | nil => rfl
  | cons y r ih =>
    simp only [List.map, List.find?]
    by_cases hy : (y.name == x.name) = true
    · have hyx : y.name = x.name := by simpa using hy
      have h1 : (x.name == n) = false := by simpa using h
      have h2 : (y.name == n) = false := by rw [hyx]; exact h1
      simp only [hy, if_true, h1, h2]
      exact ih
    · simp only [hy, Bool.false_eq_true, if_false]
      cases hyn : (y.name == n) with
      | true => rfl
      | false => exact ih

theorem putModel_comm (a : AppSig) (x y : ModelSig) (h : x.name ≠ y.name) :
    (a.putModel x).putModel y = (a.putModel y).putModel x := by
  unfold AppSig.putModel
  simp only [List.map_map]
  congr 1
  apply List.map_congr_left
  intro b _
  simp only [Function.comp]
  by_cases hbx : (b.name == x.name) = true
  · have hbxe : b.name = x.name := by simpa using hbx
    have hby : (b.name == y.name) = false := by rw [hbxe]; simpa using h
    have hxy : (x.name == y.name) = false := by simpa using h
    simp [hbx, hby, hxy]
  · by_cases hby : (b.name == y.name) = true
    · have hyx : (y.name == x.name) = false := by simpa using fun e => h e.symm
      simp [hbx, hby, hyx]
    · simp [hbx, hby]

/-- **mutations on different models commute** (when both are accepted) -/
theorem applyLocal_comm (e : Env) (mu1 mu2 : Mutation) (a a1 a2 : AppSig)
    (hne : modelName mu1 ≠ modelName mu2)
    (h1 : applyLocal e mu1 a = .ok a1) (h2 : applyLocal e mu2 a1 = .ok a2) :
    ∃ a1', applyLocal e mu2 a = .ok a1' ∧ applyLocal e mu1 a1' = .ok a2 := by
  unfold applyLocal at h1 h2
  cases hl1 : simModelLocal e mu1 with
  | none => simp [hl1] at h1
  | some mf1 =>
    obtain ⟨model1, f1⟩ := mf1
    cases hl2 : simModelLocal e mu2 with
    | none => simp [hl2] at h2
    | some mf2 =>
      obtain ⟨model2, f2⟩ := mf2
      simp only [hl1] at h1
      simp only [hl2] at h2
      -- the model names in the pairs are the mutations' model names
      have hm1 : model1 = modelName mu1 := by
        cases mu1 <;> simp [simModelLocal] at hl1 <;> simp [modelName, hl1.1]
      have hm2 : model2 = modelName mu2 := by
        cases mu2 <;> simp [simModelLocal] at hl2 <;> simp [modelName, hl2.1]
      have hmne : model1 ≠ model2 := by rw [hm1, hm2]; exact hne
      cases hg1 : a.getModel model1 with
      | none => simp [hg1] at h1
      | some m1 =>
        simp only [hg1] at h1
        cases hf1 : f1 m1 with
        | error err => simp [hf1] at h1
        | ok m1' =>
          simp only [hf1] at h1
          injection h1 with h1; subst h1
          have hn1 : m1'.name = model1 := by
            rw [local_name e mu1 model1 f1 hl1 m1 m1' hf1]; exact (getModel_mem hg1).2
          rw [getModel_putModel_other a m1' model2 (by rw [hn1]; exact hmne)] at h2
          cases hg2 : a.getModel model2 with
          | none => simp [hg2] at h2
          | some m2 =>
            simp only [hg2] at h2
            cases hf2 : f2 m2 with
            | error err => simp [hf2] at h2
            | ok m2' =>
              simp only [hf2] at h2
              injection h2 with h2; subst h2
              have hn2 : m2'.name = model2 := by
                rw [local_name e mu2 model2 f2 hl2 m2 m2' hf2]; exact (getModel_mem hg2).2
              refine ⟨a.putModel m2', ?_, ?_⟩
              · unfold applyLocal; simp [hl2, hg2, hf2]
              · unfold applyLocal
                simp only [hl1]
                rw [getModel_putModel_other a m2' model1 (by rw [hn2]; exact fun h => hmne h.symm)]
                simp only [hg1, hf1]
                rw [putModel_comm a m2' m1' (by rw [hn1, hn2]; exact fun h => hmne h.symm)]

/-! ### stable regrouping = adjacent swaps of mutations on different models -/

inductive SwapEq : List Mutation → List Mutation → Prop where
  | refl (l) : SwapEq l l
  | swap (pre : List Mutation) (x y : Mutation) (post : List Mutation) :
      modelName x ≠ modelName y → SwapEq (pre ++ x :: y :: post) (pre ++ y :: x :: post)
  | trans {a b c} : SwapEq a b → SwapEq b c → SwapEq a c

theorem applyAll_append (e : Env) (l1 l2 : List Mutation) (a : AppSig) :
    applyAll e (l1 ++ l2) a = match applyAll e l1 a with
      | .ok a' => applyAll e l2 a'
      | .error err => .error err := by
  induction l1 generalizing a with
  | nil => rfl
  | cons x r ih =>
    simp only [List.cons_append, applyAll]
    cases applyLocal e x a with
    | ok a' => exact ih a'
    | error err => rfl

/-- accepted order ⇒ every swap-equivalent order is accepted with the same result -/
theorem applyAll_swapEq (e : Env) {l l' : List Mutation} (h : SwapEq l l') :
    ∀ a a', applyAll e l a = .ok a' → applyAll e l' a = .ok a' := by
  induction h with
  | refl => intro a a' h; exact h
  | swap pre x y post hne =>
    intro a a' h
    rw [applyAll_append] at h ⊢
    cases hp : applyAll e pre a with
    | error err => simp [hp] at h
    | ok ap =>
      simp only [hp] at h ⊢
      simp only [applyAll] at h ⊢
      cases hx : applyLocal e x ap with
      | error err => simp [hx] at h
      | ok ax =>
        simp only [hx] at h
        cases hy : applyLocal e y ax with
        | error err => simp [hy] at h
        | ok ay =>
          simp only [hy] at h
          obtain ⟨a1', h1, h2⟩ := applyLocal_comm e x y ap ax ay hne hx hy
          simp only [h1, h2]
          exact h
  | trans _ _ ih1 ih2 => intro a a' h; exact ih2 a a' (ih1 a a' h)

theorem SwapEq.cons (x : Mutation) {l l' : List Mutation} (h : SwapEq l l') : SwapEq (x :: l) (x :: l') := by
  induction h with
  | refl => exact .refl _
  | swap pre a b post hne => exact .swap (x :: pre) a b post hne
  | trans _ _ ih1 ih2 => exact .trans ih1 ih2

theorem SwapEq.append_left (pre : List Mutation) {l l' : List Mutation} (h : SwapEq l l') :
    SwapEq (pre ++ l) (pre ++ l') := by
  induction pre with
  | nil => exact h
  | cons x r ih => exact SwapEq.cons x ih

/-- bubble `x` to the right past a block of mutations on other models -/
theorem swap_past (x : Mutation) (block rest : List Mutation)
    (h : ∀ b ∈ block, modelName x ≠ modelName b) : SwapEq (x :: (block ++ rest)) (block ++ x :: rest) := by
  induction block with
  | nil => exact .refl _
  | cons b r ih =>
    have h1 : SwapEq (x :: b :: (r ++ rest)) (b :: x :: (r ++ rest)) :=
      .swap [] x b (r ++ rest) (h b List.mem_cons_self)
    have h2 : SwapEq (b :: x :: (r ++ rest)) (b :: (r ++ x :: rest)) :=
      SwapEq.cons b (ih (fun c hc => h c (List.mem_cons_of_mem _ hc)))
    exact .trans h1 h2

/-- pulling all mutations of one model to the front, order preserved -/
theorem swapEq_partition (n : String) (ms : List Mutation) :
    SwapEq ms (ms.filter (fun m => modelName m == n) ++ ms.filter (fun m => !(modelName m == n))) := by
  induction ms with
  | nil => exact .refl _
  | cons x r ih =>
    by_cases hx : (modelName x == n) = true
    · simp only [List.filter_cons, hx, if_true, Bool.not_true, Bool.false_eq_true, if_false, List.cons_append]
      exact SwapEq.cons x ih
    · simp only [List.filter_cons, hx, Bool.false_eq_true, if_false, Bool.not_false, if_true]
      have h1 : SwapEq (x :: r) (x :: (r.filter (fun m => modelName m == n) ++
          r.filter (fun m => !(modelName m == n)))) := SwapEq.cons x ih
      refine .trans h1 (swap_past x _ _ ?_)
      intro b hb
      have hbn : modelName b = n := by simpa using (List.mem_filter.mp hb).2
      intro hxb
      apply hx
      rw [hxb, hbn]; simp

/-- the regrouping `_process_mutation_batch` performs: for each name in order, the mutations on
that model in their original relative order -/
def regroupBy (names : List String) (ms : List Mutation) : List Mutation :=
  names.flatMap (fun n => ms.filter (fun m => modelName m == n))

theorem filter_filter_ne (n n' : String) (h : n' ≠ n) (ms : List Mutation) :
    (ms.filter (fun m => !(modelName m == n))).filter (fun m => modelName m == n') =
      ms.filter (fun m => modelName m == n') := by
  rw [List.filter_filter]
  apply List.filter_congr
  intro m _
  by_cases hm : (modelName m == n') = true
  · have : modelName m = n' := by simpa using hm
    have hne : (modelName m == n) = false := by rw [this]; simpa using h
    simp [hm, hne]
  · simp [hm]

theorem flatMap_congr' {α β} (l : List α) (f g : α → List β) (h : ∀ a ∈ l, f a = g a) :
    l.flatMap f = l.flatMap g := by
  induction l with
  | nil => rfl
  | cons x r ih =>
    simp only [List.flatMap_cons]
    rw [h x List.mem_cons_self, ih (fun a ha => h a (List.mem_cons_of_mem _ ha))]

theorem swapEq_regroup : ∀ (names : List String) (ms : List Mutation), names.Nodup →
    (∀ m ∈ ms, modelName m ∈ names) → SwapEq ms (regroupBy names ms) := by
  intro names
  induction names with
  | nil =>
    intro ms _ hall
    cases ms with
    | nil => exact .refl _
    | cons x r => exact absurd (hall x List.mem_cons_self) (by simp)
  | cons n ns ih =>
    intro ms hnd hall
    rw [List.nodup_cons] at hnd
    have hpart := swapEq_partition n ms
    have hrest : ∀ m ∈ ms.filter (fun m => !(modelName m == n)), modelName m ∈ ns := by
      intro m hm
      have hm' := List.mem_filter.mp hm
      rcases List.mem_cons.mp (hall m hm'.1) with h | h
      · simp [h] at hm'
      · exact h
    have ih' := ih (ms.filter (fun m => !(modelName m == n))) hnd.2 hrest
    have : regroupBy ns (ms.filter (fun m => !(modelName m == n))) = regroupBy ns ms := by
      unfold regroupBy
      apply flatMap_congr'
      intro n' hn'
      exact filter_filter_ne n n' (fun h => hnd.1 (h ▸ hn')) ms
    rw [this] at ih'
    unfold regroupBy at ih' ⊢
    simp only [List.flatMap_cons]
    exact .trans hpart (SwapEq.append_left _ ih')

end DEvo.Opt
