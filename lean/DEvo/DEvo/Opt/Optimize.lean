import DEvo.Mut.Basic

/-! The mutation optimiser, as written: `AppMutator._preprocess_mutations`,
`_create_mutation_batches`, `_process_mutation_batch` (django_evolution/mutators/app_mutator.py).

Mutation *objects* are positions in an array; the optimiser rewrites them in place, so the
function returns both the optimised list (positions, in output order) and the rewritten array —
the production pipeline runs it twice over the same objects (`EvolveAppTask.prepare`, then
`_build_batches`). Python `KeyError`s are results (`.error`), not defaults. -/

namespace DEvo.Opt
open DEvo.Sig DEvo.Mut

abbrev Id := String × String

inductive OptErr where
  | keyError (what : String)
  | valueError (what : String)
  deriving DecidableEq, Repr, Inhabited

/-- is the mutation a `BaseModelMutation` (goes into a processable batch)? -/
def isModelMutation : Mutation → Bool
  | .addField .. | .changeField .. | .deleteField .. | .renameField .. | .changeMeta ..
  | .renameModel .. | .deleteModel .. => true
  | _ => false

/-- `mutation.model_name` -/
def modelName : Mutation → String
  | .addField m .. | .changeField m .. | .deleteField m _ | .renameField m .. | .changeMeta m ..
  | .deleteModel m => m
  | .renameModel old _ _ => old
  | _ => ""

/-- `_create_mutation_batches`: maximal runs of (non-)model mutations, starting with a
(possibly empty) processable batch -/
def createBatches (ms : List Mutation) : List (Bool × List Mutation) :=
  let rec go (cur : Bool × List Mutation) (acc : List (Bool × List Mutation)) : List Mutation →
      List (Bool × List Mutation)
    | [] => (acc ++ [cur])
    | m :: rest =>
      let can := isModelMutation m
      if can != cur.1 then go (can, [m]) (acc ++ [cur]) rest
      else go (cur.1, cur.2 ++ [m]) acc rest
  go (true, []) [] ms

/-! ### dictionaries keyed by tuples / strings, with Python's KeyError -/

def kGet {κ β} [BEq κ] (d : List (κ × β)) (k : κ) : Option β :=
  (d.find? (fun p => p.1 == k)).map (·.2)

def kSet {κ β} [BEq κ] (d : List (κ × β)) (k : κ) (v : β) : List (κ × β) :=
  if (d.any (fun p => p.1 == k)) then d.map (fun p => if p.1 == k then (k, v) else p) else d ++ [(k, v)]

def kDel {κ β} [BEq κ] (d : List (κ × β)) (k : κ) : List (κ × β) := d.filter (fun p => !(p.1 == k))

/-- `_rename_dict_key(d, old_key, new_key)`: `d[new] = d[old]; del d[old]` -/
def renameKey {κ β} [BEq κ] (d : List (κ × β)) (old new : κ) : Except OptErr (List (κ × β)) :=
  match kGet d old with
  | none => .error (.keyError "_rename_dict_key")
  | some v => .ok (kDel (kSet d new v) old)

def sAdd {κ} [BEq κ] (s : List κ) (k : κ) : List κ := if s.contains k then s else s ++ [k]
def sDel {κ} [BEq κ] (s : List κ) (k : κ) : List κ := s.filter (fun x => !(x == k))

structure RenameInfo where
  canProcess : Bool
  muts : List Nat           -- positions, in the order they were appended
  deriving Repr, Inhabited

structure St where
  arr : List Mutation                 -- the mutation objects (rewritten in place)
  removed : List Nat
  deletedFields : List Id
  deletedModels : List String
  noopFields : List Id
  modelNames : List String
  uniqueTogether : List (String × MetaVal)
  metaIndexes : List (String × MetaVal)
  lastChange : List (Id × Nat)
  renames : List (Id × RenameInfo)
  modelRenames : List (String × RenameInfo)
  deriving Repr, Inhabited

def St.get (s : St) (i : Nat) : Mutation := s.arr.getD i .deleteApplication
def St.put (s : St) (i : Nat) (m : Mutation) : St := { s with arr := s.arr.set i m }

/-- `_copy_change_attrs(source, dest)` -/
def copyChangeAttrs (src dest : Mutation) : Mutation :=
  match src with
  | .changeField _ _ sft sinit sattrs =>
    match dest with
    | .addField m f ft init attrs =>
      .addField m f (match sft with | some t => t | none => ft)
        (match sinit with | some v => some v | none => init) (dUpdate attrs sattrs)
    | .changeField m f ft init attrs =>
      .changeField m f (match sft with | some t => some t | none => ft)
        (match sinit with | some v => some v | none => init) (dUpdate attrs sattrs)
    | d => d
  | _ => dest

/-- one step of the backward loop (`for mutation in reversed(mutations)`) -/
def backStep (s : St) (i : Nat) : Except OptErr St := do
  let mu := s.get i
  let s := { s with modelNames := sAdd s.modelNames (modelName mu) }
  match mu with
  | .addField m f _ _ _ =>
    let id : Id := (m, f)
    if s.deletedFields.contains id then
      pure { s with noopFields := sAdd s.noopFields id, deletedFields := sDel s.deletedFields id,
                    removed := sAdd s.removed i }
    else match kGet s.lastChange id with
      | some lc =>
        let s := s.put i (copyChangeAttrs (s.get lc) mu)
        pure { s with removed := sAdd s.removed lc, lastChange := kDel s.lastChange id }
      | none => pure s
  | .changeField m f _ _ _ =>
    let id : Id := (m, f)
    if s.deletedFields.contains id then pure { s with removed := sAdd s.removed i }
    else
      let s := match kGet s.lastChange id with
        | some lc => { (s.put i (copyChangeAttrs (s.get lc) mu)) with removed := sAdd s.removed lc }
        | none => s
      pure { s with lastChange := kSet s.lastChange id i }
  | .deleteField m f => pure { s with deletedFields := sAdd s.deletedFields (m, f) }
  | .renameField m old new _ _ =>
    let oldId : Id := (m, old)
    let newId : Id := (m, new)
    let (s, rm) := if s.deletedFields.contains newId then
        ({ s with deletedFields := sAdd (sDel s.deletedFields newId) oldId }, true)
      else (s, false)
    let renames ← if (kGet s.renames newId).isSome then renameKey s.renames newId oldId
      else pure (kSet s.renames oldId ⟨false, []⟩)
    let info ← match kGet renames oldId with
      | some info => pure info
      | none => throw (.keyError "renames[old_mutation_id]")
    let renames := kSet renames oldId { info with muts := info.muts ++ [i] }
    let lastChange ← if (kGet s.lastChange newId).isSome then renameKey s.lastChange newId oldId
      else pure s.lastChange
    let s := { s with renames := renames, lastChange := lastChange }
    pure (if rm then { s with removed := sAdd s.removed i } else s)
  | .deleteModel m => pure { s with deletedModels := sAdd s.deletedModels m }
  | .renameModel old new _ =>
    let (s, rm) := if s.deletedModels.contains new then
        ({ s with deletedModels := sAdd (sDel s.deletedModels new) old }, true)
      else (s, false)
    let mr ← if (kGet s.modelRenames new).isSome then renameKey s.modelRenames new old
      else pure (kSet s.modelRenames old ⟨false, []⟩)
    let info ← match kGet mr old with
      | some info => pure info
      | none => throw (.keyError "model_renames[old_model_name]")
    let mr := kSet mr old { info with muts := info.muts ++ [i] }
    let s := { s with modelRenames := mr }
    pure (if rm then { s with removed := sAdd s.removed i } else s)
  | .changeMeta m prop v =>
    if prop == "unique_together" && (kGet s.uniqueTogether m).isNone then
      pure { s with uniqueTogether := kSet s.uniqueTogether m v }
    else if prop == "indexes" && (kGet s.metaIndexes m).isNone then
      pure { s with metaIndexes := kSet s.metaIndexes m v }
    else pure s
  | _ => pure s

def newFieldName : Mutation → String
  | .renameField _ _ new _ _ => new
  | _ => ""
def oldFieldName : Mutation → String
  | .renameField _ old _ _ _ => old
  | _ => ""
def renameDbColumn : Mutation → Option String
  | .renameField _ _ _ c _ => c
  | _ => none
def newModelName : Mutation → String
  | .renameModel _ new _ => new
  | _ => ""
def renameDbTable : Mutation → Val
  | .renameModel _ _ t => t
  | _ => ""

def listLast? {α} (l : List α) : Option α := l.reverse.head?

/-- one step of the forward loop (`for mutation in mutations`).  `existing` are the model names
of the app signature (`app_sig.get_model_sig`). -/
def fwdStep (existing : List String) (s : St) (i : Nat) : Except OptErr St := do
  let mu := s.get i
  match mu with
  | .addField m f ft init attrs =>
    let id : Id := (m, f)
    let (s, f, attrs) ← match kGet s.renames id with
      | some info =>
        match info.muts.head? with
        | none => throw (.keyError "rename_mutations[0]")
        | some r0 =>
          let rm := s.get r0
          let attrs := match renameDbColumn rm with
            | some c => if c != "" then dSet attrs "db_column" (quo c) else attrs
            | none => attrs
          let s := { s with renames := kSet s.renames id { info with canProcess := true },
                            removed := info.muts.foldl sAdd s.removed }
          pure (s, newFieldName rm, attrs)
      | none => pure (s, f, attrs)
    -- related_model rewrite through model renames (app-label renames never occur in a batch)
    let (s, attrs) ← match dGet attrs "related_model" with
      | some rel =>
        if rel == vNull || rel == "" then pure (s, attrs)
        else match splitDot rel with
          | none => throw (.valueError "related_model.split('.')")
          | some (lbl, mn) =>
            if (splitDot mn).isSome then throw (.valueError "related_model.split('.')")
            else match kGet s.modelRenames mn with
              | some info =>
                match info.muts.head? with
                | none => throw (.keyError "model_rename_info['mutations'][0]")
                | some r0 =>
                  let nm := newModelName (s.get r0)
                  let s := { s with modelRenames := kSet s.modelRenames mn { info with canProcess := true } }
                  if nm != "" then pure (s, dSet attrs "related_model" (lbl ++ "." ++ nm)) else pure (s, attrs)
              | none => pure (s, attrs)
      | none => pure (s, attrs)
    pure (s.put i (.addField m f ft init attrs))
  | .changeField m f ft init attrs =>
    match kGet s.renames (m, f) with
    | some info =>
      if info.canProcess then
        match info.muts.head? with
        | none => throw (.keyError "rename_mutations[0]")
        | some r0 => pure (s.put i (.changeField m (newFieldName (s.get r0)) ft init attrs))
      else pure s
    | none => pure s
  | .deleteField m f =>
    let id : Id := (m, f)
    if s.noopFields.contains id then pure { s with removed := sAdd s.removed i }
    else match kGet s.renames id with
      | some info =>
        if info.canProcess then
          match info.muts.head? with
          | none => throw (.keyError "rename_mutations[0]")
          | some r0 => pure (s.put i (.deleteField m (oldFieldName (s.get r0))))
        else pure s
      | none => pure s
  | .renameField m old new c t =>
    let oldId : Id := (m, old)
    let newId : Id := (m, new)
    let (s, rm) := if s.noopFields.contains oldId then
        ({ s with noopFields := sAdd (sDel s.noopFields oldId) newId }, true)
      else (s, false)
    let s ← match kGet s.renames oldId with
      | some info =>
        match info.muts.head?, listLast? info.muts with
        | some r0, some rl =>
          let renames ← renameKey s.renames oldId newId
          -- `rename_info` is the same object under its new key: update it there
          let info' : RenameInfo := ⟨true, [rl]⟩
          let renames := if (kGet renames newId).isSome then kSet renames newId info' else renames
          let s := s.put i (.renameField m old (newFieldName (s.get r0)) c t)
          pure { s with renames := renames, removed := info.muts.dropLast.foldl sAdd s.removed }
        | _, _ => throw (.keyError "rename_mutations[0]")
      | none => pure s
    pure (if rm then { s with removed := sAdd s.removed i } else s)
  | .deleteModel m =>
    match kGet s.modelRenames m with
    | some info =>
      if info.canProcess then
        match info.muts.head? with
        | none => throw (.keyError "rename_mutations[0]")
        | some r0 => pure (s.put i (.deleteModel (modelName (s.get r0))))
      else pure s
    | none => pure s
  | .renameModel old new tbl =>
    match kGet s.modelRenames old with
    | some info =>
      match info.muts.head?, listLast? info.muts with
      | some r0, some rl =>
        let rm := s.get r0
        let mr ← renameKey s.modelRenames old new
        let info' : RenameInfo := ⟨true, [rl]⟩
        let mr := if (kGet mr new).isSome then kSet mr new info' else mr
        let tbl' := if renameDbTable rm != "" then renameDbTable rm else tbl
        let s := s.put i (.renameModel old (newModelName rm) tbl')
        let s := { s with modelRenames := mr, removed := info.muts.dropLast.foldl sAdd s.removed }
        if existing.contains new && !existing.contains old then pure { s with removed := sAdd s.removed i }
        else pure s
      | _, _ => throw (.keyError "rename_mutations[0]")
    | none => pure s
  | .changeMeta m prop v =>
    if prop == "unique_together" then
      match kGet s.uniqueTogether m with
      | some value => if v != value then pure { s with removed := sAdd s.removed i } else pure s
      | none => pure s
    else if prop == "indexes" then
      match kGet s.metaIndexes m with
      | some value => if v != value then pure { s with removed := sAdd s.removed i } else pure s
      | none => pure s
    else pure s
  | _ => pure s

def initSt (ms : List Mutation) : St :=
  ⟨ms, [], [], [], [], [], [], [], [], [], []⟩

/-- insertion sort of model names (`sorted(model_names)`) -/
def sortNames (l : List String) : List String := l.foldr insertSortedS []
where insertSortedS (s : String) : List String → List String
  | [] => [s]
  | x :: r => if s < x then s :: x :: r else x :: insertSortedS s r

/-- `_process_mutation_batch` for a processable batch: returns (output positions, rewritten array) -/
def processBatch (existing : List String) (ms : List Mutation) : Except OptErr (List Nat × List Mutation) := do
  let idx := List.range ms.length
  let s ← idx.reverse.foldlM backStep (initSt ms)
  let s ← if !s.noopFields.isEmpty || !s.renames.isEmpty || !s.modelRenames.isEmpty ||
      !s.uniqueTogether.isEmpty || !s.metaIndexes.isEmpty then idx.foldlM (fwdStep existing) s else pure s
  let kept := idx.filter (fun i => !s.removed.contains i)
  -- `mutations_by_model[mutation.model_name]` raises KeyError for a name that was never seen
  if kept.any (fun i => !s.modelNames.contains (modelName (s.get i))) then
    throw (.keyError "mutations_by_model[mutation.model_name]")
  let out := (sortNames s.modelNames).flatMap (fun n => kept.filter (fun i => modelName (s.get i) == n))
  pure (out, s.arr)

/-- `_preprocess_mutations`: optimised list and the rewritten mutation objects -/
def preprocess (existing : List String) (ms : List Mutation) :
    Except OptErr (List Mutation × List Mutation) := do
  let batches := createBatches ms
  let res ← batches.foldlM (fun (acc : List Mutation × List Mutation) b => do
    if b.1 then
      let (out, arr) ← processBatch existing b.2
      pure (acc.1 ++ out.map (fun i => arr.getD i .deleteApplication), acc.2 ++ arr)
    else pure (acc.1 ++ b.2, acc.2 ++ b.2)) ([], [])
  pure res

/-- what the caller's mutation objects look like after `_preprocess_mutations`: with
`copies = true` (the optimiser works on `copy.deepcopy(mutations)`) they are untouched -/
def preprocessC (copies : Bool) (existing : List String) (ms : List Mutation) :
    Except OptErr (List Mutation × List Mutation) :=
  if copies then (preprocess existing ms).map (fun r => (r.1, ms)) else preprocess existing ms

end DEvo.Opt
