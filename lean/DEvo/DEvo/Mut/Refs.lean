import DEvo.Mut.Basic

/-! Cross-reference consistency (`RefsOK`) and the lemmas that the C11 theorems need. -/

namespace DEvo.Mut
open DEvo.Sig

/-- the textual reference `"app_label.ModelName"` of a model -/
def refOf (a : AppSig) (m : ModelSig) : String := a.id ++ "." ++ m.name

/-- `r` names a model that exists in the project under its current app label and name -/
def RefExists (p : ProjectSig) (r : String) : Prop :=
  ∃ a ∈ p.apps, ∃ m ∈ a.models, r = refOf a m

/-- every recorded relation names an existing model, unless the reference is in `deleted`
(models that were explicitly deleted) -/
def RefsOK (deleted : List String) (p : ProjectSig) : Prop :=
  ∀ a ∈ p.apps, ∀ m ∈ a.models, ∀ f ∈ m.fields, ∀ r, f.related = some r →
    RefExists p r ∨ r ∈ deleted

/-! ### list helpers -/

theorem mem_setModelL {ms : List ModelSig} {m x : ModelSig} (h : x ∈ setModelL ms m) :
    x = m ∨ x ∈ ms := by
  induction ms with
  | nil => simp [setModelL] at h; exact Or.inl h
  | cons g r ih =>
    simp only [setModelL] at h
    split at h
    · rcases List.mem_cons.mp h with h | h
      · exact Or.inl h
      · exact Or.inr (List.mem_cons_of_mem _ h)
    · rcases List.mem_cons.mp h with h | h
      · exact Or.inr (h ▸ List.mem_cons_self)
      · rcases ih h with h | h
        · exact Or.inl h
        · exact Or.inr (List.mem_cons_of_mem _ h)

theorem mem_setModelL_self (ms : List ModelSig) (m : ModelSig) : m ∈ setModelL ms m := by
  induction ms with
  | nil => simp [setModelL]
  | cons g r ih =>
    simp only [setModelL]
    split
    · exact List.mem_cons_self
    · exact List.mem_cons_of_mem _ ih

theorem mem_setModelL_other {ms : List ModelSig} {m x : ModelSig} (h : x ∈ ms)
    (hne : (x.name == m.name) = false) : x ∈ setModelL ms m := by
  induction ms with
  | nil => cases h
  | cons g r ih =>
    simp only [setModelL]
    rcases List.mem_cons.mp h with h | h
    · subst h
      simp [hne]
    · split
      · exact List.mem_cons_of_mem _ h
      · exact List.mem_cons_of_mem _ (ih h)

theorem mem_setFieldL {fs : List FieldSig} {f x : FieldSig} (h : x ∈ setFieldL fs f) :
    x = f ∨ x ∈ fs := by
  induction fs with
  | nil => simp [setFieldL] at h; exact Or.inl h
  | cons g r ih =>
    simp only [setFieldL] at h
    split at h
    · rcases List.mem_cons.mp h with h | h
      · exact Or.inl h
      · exact Or.inr (List.mem_cons_of_mem _ h)
    · rcases List.mem_cons.mp h with h | h
      · exact Or.inr (h ▸ List.mem_cons_self)
      · rcases ih h with h | h
        · exact Or.inl h
        · exact Or.inr (List.mem_cons_of_mem _ h)

theorem find_some_mem {α} {p : α → Bool} {l : List α} {x : α} (h : l.find? p = some x) :
    x ∈ l ∧ p x = true := ⟨List.mem_of_find?_eq_some h, List.find?_some h⟩

theorem getModel_mem {a : AppSig} {n : String} {m : ModelSig} (h : a.getModel n = some m) :
    m ∈ a.models ∧ m.name = n := by
  unfold AppSig.getModel at h
  have := find_some_mem h
  exact ⟨this.1, by simpa using this.2⟩

theorem getField_mem {m : ModelSig} {n : String} {f : FieldSig} (h : m.getField n = some f) :
    f ∈ m.fields ∧ f.name = n := by
  unfold ModelSig.getField at h
  have := find_some_mem h
  exact ⟨this.1, by simpa using this.2⟩

/-- `getAppSig` finds an app of the project -/
theorem getAppSig_mem {c : Ctx} {p : ProjectSig} {a : AppSig} (h : getAppSig c p = .ok a) :
    a ∈ p.apps := by
  unfold getAppSig at h
  have hget : ∀ id a', p.getApp id = some a' → a' ∈ p.apps := by
    intro id a' h'
    unfold ProjectSig.getApp at h'
    split at h'
    · rename_i a'' hf
      injection h' with h'; subst h'
      exact List.mem_of_find?_eq_some hf
    · exact List.mem_of_find?_eq_some h'
  split at h
  · rename_i a' ha
    injection h with h; subst h; exact hget _ _ ha
  · split at h
    · split at h
      · rename_i a' ha
        injection h with h; subst h; exact hget _ _ ha
      · cases h
    · cases h

theorem getModelSig_mem {c : Ctx} {p : ProjectSig} {n : String} {a : AppSig} {m : ModelSig}
    (h : getModelSig c p n = .ok (a, m)) : a ∈ p.apps ∧ m ∈ a.models ∧ m.name = n := by
  unfold getModelSig at h
  cases ha : getAppSig c p with
  | error e => simp [ha, bind, Except.bind] at h
  | ok a' =>
    simp only [ha, bind, Except.bind] at h
    split at h
    · rename_i m' hm
      injection h with h
      injection h with h1 h2
      subst h1; subst h2
      exact ⟨getAppSig_mem ha, (getModel_mem hm).1, (getModel_mem hm).2⟩
    · cases h

/-! ### `putApp` / `putModel`: replace by key, membership facts -/

theorem mem_putApp {p : ProjectSig} {a x : AppSig} (h : x ∈ (p.putApp a).apps) :
    (x = a ∧ ∃ b ∈ p.apps, b.id = a.id) ∨ (x ∈ p.apps ∧ x.id ≠ a.id) := by
  unfold ProjectSig.putApp at h
  simp only [List.mem_map] at h
  obtain ⟨b, hb, e⟩ := h
  by_cases hid : (b.id == a.id) = true
  · simp only [hid, if_true] at e
    exact Or.inl ⟨e.symm, b, hb, by simpa using hid⟩
  · simp only [hid] at e
    subst e
    exact Or.inr ⟨hb, by simpa using hid⟩

theorem mem_putApp_of {p : ProjectSig} {a b : AppSig} (hb : b ∈ p.apps) (hid : b.id = a.id) :
    a ∈ (p.putApp a).apps := by
  unfold ProjectSig.putApp
  simp only [List.mem_map]
  exact ⟨b, hb, by simp [hid]⟩

theorem mem_putApp_other {p : ProjectSig} {a b : AppSig} (hb : b ∈ p.apps) (hid : b.id ≠ a.id) :
    b ∈ (p.putApp a).apps := by
  unfold ProjectSig.putApp
  simp only [List.mem_map]
  refine ⟨b, hb, ?_⟩
  have : (b.id == a.id) = false := by simpa using hid
  simp [this]

theorem mem_putModel {a : AppSig} {m x : ModelSig} (h : x ∈ (a.putModel m).models) :
    (x = m ∧ ∃ b ∈ a.models, b.name = m.name) ∨ (x ∈ a.models ∧ x.name ≠ m.name) := by
  unfold AppSig.putModel at h
  simp only [List.mem_map] at h
  obtain ⟨b, hb, e⟩ := h
  by_cases hid : (b.name == m.name) = true
  · simp only [hid, if_true] at e
    exact Or.inl ⟨e.symm, b, hb, by simpa using hid⟩
  · simp only [hid] at e
    subst e
    exact Or.inr ⟨hb, by simpa using hid⟩

theorem mem_putModel_of {a : AppSig} {m b : ModelSig} (hb : b ∈ a.models) (hid : b.name = m.name) :
    m ∈ (a.putModel m).models := by
  unfold AppSig.putModel
  simp only [List.mem_map]
  exact ⟨b, hb, by simp [hid]⟩

theorem mem_putModel_other {a : AppSig} {m b : ModelSig} (hb : b ∈ a.models) (hid : b.name ≠ m.name) :
    b ∈ (a.putModel m).models := by
  unfold AppSig.putModel
  simp only [List.mem_map]
  refine ⟨b, hb, ?_⟩
  have : (b.name == m.name) = false := by simpa using hid
  simp [this]

@[simp] theorem putModel_id (a : AppSig) (m : ModelSig) : (a.putModel m).id = a.id := rfl

/-! ### uniqueness of dictionary keys (Python dicts cannot hold a key twice) -/

def UniqueApps (p : ProjectSig) : Prop := p.apps.Pairwise (fun x y => x.id ≠ y.id)
def UniqueModels (a : AppSig) : Prop := a.models.Pairwise (fun x y => x.name ≠ y.name)

theorem pairwise_key_eq {α β} (key : α → β) {l : List α} (h : l.Pairwise (fun x y => key x ≠ key y))
    {a b : α} (ha : a ∈ l) (hb : b ∈ l) (e : key a = key b) : a = b := by
  induction l with
  | nil => cases ha
  | cons x r ih =>
    rw [List.pairwise_cons] at h
    rcases List.mem_cons.mp ha with ha' | ha' <;> rcases List.mem_cons.mp hb with hb' | hb'
    · rw [ha', hb']
    · rw [ha'] at e; exact absurd e (h.1 b hb')
    · rw [hb'] at e; exact absurd e.symm (h.1 a ha')
    · exact ih h.2 ha' hb'

theorem unique_app {p : ProjectSig} (hu : UniqueApps p) {a b : AppSig} (ha : a ∈ p.apps)
    (hb : b ∈ p.apps) (e : a.id = b.id) : a = b := pairwise_key_eq (fun x : AppSig => x.id) hu ha hb e

theorem unique_model {a : AppSig} (hu : UniqueModels a) {m n : ModelSig} (hm : m ∈ a.models)
    (hn : n ∈ a.models) (e : m.name = n.name) : m = n :=
  pairwise_key_eq (fun x : ModelSig => x.name) hu hm hn e

theorem pairwise_map_key {α β} (key : α → β) (f : α → α) (hf : ∀ x, key (f x) = key x) {l : List α}
    (h : l.Pairwise (fun x y => key x ≠ key y)) : (l.map f).Pairwise (fun x y => key x ≠ key y) := by
  rw [List.pairwise_map]
  exact h.imp (by intro a b hab; rw [hf a, hf b]; exact hab)

theorem uniqueApps_putApp {p : ProjectSig} (a : AppSig) (h : UniqueApps p) : UniqueApps (p.putApp a) := by
  unfold UniqueApps ProjectSig.putApp
  apply pairwise_map_key (fun x : AppSig => x.id) _ _ h
  intro x
  by_cases hx : (x.id == a.id) = true
  · simp only [hx, if_true]; exact (by simpa using hx : x.id = a.id).symm
  · simp [hx]

theorem uniqueModels_putModel {a : AppSig} (m : ModelSig) (h : UniqueModels a) :
    UniqueModels (a.putModel m) := by
  unfold UniqueModels AppSig.putModel
  apply pairwise_map_key (fun x : ModelSig => x.name) _ _ h
  intro x
  by_cases hx : (x.name == m.name) = true
  · simp only [hx, if_true]; exact (by simpa using hx : x.name = m.name).symm
  · simp [hx]

/-- replacing a model by one of the same name keeps every reference target alive -/
theorem refExists_putModel {p : ProjectSig} (hu : UniqueApps p) {a : AppSig} {m m' : ModelSig}
    (ha : a ∈ p.apps) (hm : m ∈ a.models) (hname : m'.name = m.name) {r : String}
    (h : RefExists p r) : RefExists (p.putApp (a.putModel m')) r := by
  obtain ⟨b, hb, x, hx, e⟩ := h
  by_cases hid : b.id = a.id
  · have hba : b = a := unique_app hu hb ha hid
    subst hba
    refine ⟨b.putModel m', mem_putApp_of ha rfl, ?_⟩
    by_cases hxn : x.name = m'.name
    · exact ⟨m', mem_putModel_of hm hname.symm, by rw [e]; simp [refOf, hxn]⟩
    · exact ⟨x, mem_putModel_other hx hxn, by rw [e]; simp [refOf]⟩
  · exact ⟨b, mem_putApp_other hb (by simpa using hid), x, hx, e⟩

end DEvo.Mut
