import DEvo.Mut.Basic
import DEvo.Generated.Tables

/-! The SQLite environment of the simulation: attribute defaults are *extracted* from the
source (`Generated.attrDefaults`); the column-type table and `supported_change_meta` are
hand-written for the field types of the property space and validated by correspondence. -/

namespace DEvo.Mut
open DEvo.Sig

/-- `field.db_type(connection)` on SQLite (Django 4.2) for the C01 field space -/
def sqliteDbType (ftype : String) (attrs : List (String × Val)) : Val :=
  match ftype with
  | "CharField" => "varchar(" ++ (match dGet attrs "max_length" with | some v => v | none => "null") ++ ")"
  | "TextField" => "text"
  | "IntegerField" => "integer"
  | "BigIntegerField" => "bigint"
  | "PositiveIntegerField" => "integer unsigned"
  | "SmallIntegerField" => "smallint"
  | "BooleanField" => "bool"
  | "DecimalField" => "decimal"
  | "DateTimeField" => "datetime"
  | "ForeignKey" => "integer"
  | "OneToOneField" => "integer"
  | "AutoField" => "integer"
  | "BigAutoField" => "integer"
  | "ManyToManyField" => "null"
  | other => "?" ++ other

def sqliteSupportedMeta (prop : String) : Bool :=
  prop == "constraints" || prop == "indexes" || prop == "index_together" || prop == "unique_together"

def sqliteEnv : Env :=
  { defaults := Generated.attrDefaults, dbType := sqliteDbType, supportedMeta := sqliteSupportedMeta }

end DEvo.Mut
